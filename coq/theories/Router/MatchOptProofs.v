(** C14 — the theorems of Router/MatchProofs.v extended to route tables with
    OptionalParamSegments in the one placement the matcher handles like the table:
    a top-level suffix of the segment tuple of a route without children
    (Flat.opt_ok_route; everything else is the known class F-C14-c). *)
From Coq Require Import List NArith Bool Arith Lia.
From LV Require Import Base.Bytes Router.Match Router.Flat Router.MatchProofs.
Import ListNotations.
Open Scope N_scope.

(** ================================================================================
    Part A' — a tuple "non-optional fields, then optionals" is still the plain
    left-to-right composition: every optional is included in the first pass, and a
    failing non-optional field fails again after each back-off
    ================================================================================ *)
Lemma pass_rest_pre :
  forall pre, Forall (fun t : tester => fst t = false) pre ->
  forall rest i nth r mlen ps,
    pass_rest (pre ++ rest) i nth r mlen ps =
    match seqT (map snd pre) r with
    | TNone => if Nat.eqb i 0 then PFail else PRetry
    | TPanic => PPanic
    | TSome m r' p => pass_rest rest i nth r' (mlen + length m)%nat (ps ++ p)
    end.
Proof.
  induction 1 as [|[opt test] pre Ht Hpre IH]; intros rest i nth r mlen ps;
    cbn [app pass_rest map seqT snd].
  - now rewrite Nat.add_0_r, app_nil_r.
  - simpl in Ht. subst opt. cbn [negb orb].
    destruct (test r) as [| |m1 r1 p1]; try reflexivity.
    rewrite IH. destruct (seqT (map snd pre) r1) as [| |m2 r2 p2]; try reflexivity.
    now rewrite app_length, Nat.add_assoc, app_assoc.
Qed.

Lemma pass_rest_opts :
  forall opts, Forall (fun t : tester => fst t = true) opts ->
  forall i nth r mlen ps,
    (nth + length opts <= i)%nat ->
    pass_rest opts i nth r mlen ps =
    match seqT (map snd opts) r with
    | TNone => PFail
    | TPanic => PPanic
    | TSome m r' p => PDone r' (mlen + length m)%nat (ps ++ p)
    end.
Proof.
  induction 1 as [|[opt test] opts Ht Hopts IH]; intros i nth r mlen ps Hle;
    cbn [pass_rest map seqT snd].
  - now rewrite Nat.add_0_r, app_nil_r.
  - simpl in Ht. subst opt. cbn [negb orb length] in *.
    assert (Hin : (S nth <=? i)%nat = true) by (apply Nat.leb_le; lia).
    rewrite Hin.
    destruct (test r) as [| |m1 r1 p1]; try reflexivity.
    rewrite IH by lia. destruct (seqT (map snd opts) r1) as [| |m2 r2 p2]; try reflexivity.
    now rewrite app_length, Nat.add_assoc, app_assoc.
Qed.

Lemma Forall_splits_map_snd : forall ts : list tester,
  Forall (fun t => splits (snd t)) ts -> Forall splits (map snd ts).
Proof. induction 1; simpl; constructor; auto. Qed.

Lemma tuple_loop_unfold : forall t ts i q,
  tuple_loop t ts i q =
  match pass_first t ts i q with
  | PFail => TNone
  | PPanic => TPanic
  | PDone r mlen ps => TSome (firstn mlen q) r ps
  | PRetry => match i with O => TNone | S i' => tuple_loop t ts i' q end
  end.
Proof. intros. destruct i; reflexivity. Qed.

(** first field not optional *)
Lemma tuple_loop_pre_fail :
  forall (test : bytes -> tres) pre opts q m r' p,
    Forall (fun t : tester => fst t = false) pre ->
    test q = TSome m r' p -> seqT (map snd pre) r' = TNone ->
    forall i, tuple_loop (false, test) (pre ++ opts) i q = TNone.
Proof.
  intros test pre opts q m r' p Hpre Ht Hf.
  induction i as [|i IH]; cbn [tuple_loop pass_first negb orb]; rewrite Ht, pass_rest_pre, Hf by assumption.
  - reflexivity.
  - cbn [Nat.eqb]. exact IH.
Qed.

Lemma tuple_loop_opt_tail :
  forall (t : tester) ts pre opts,
    t :: ts = pre ++ opts ->
    Forall (fun t : tester => fst t = false) pre ->
    Forall (fun t : tester => fst t = true) opts ->
    Forall (fun t : tester => splits (snd t)) (t :: ts) ->
    forall q, tuple_loop t ts (length opts) q = seqT (map snd (t :: ts)) q.
Proof.
  intros t ts pre opts Heq Hpre Hopts Hsp q. unfold tester in *.
  assert (Hsplit : splits (seqT (map snd (t :: ts)))).
  { apply seqT_splits. now apply Forall_splits_map_snd. }
  destruct pre as [|[o a] pre'].
  - (* the tuple starts with an optional *)
    cbn [app] in Heq. destruct opts as [|[o test] opts']; [discriminate|].
    injection Heq as -> ->. inversion Hopts as [|? ? Ho Hopts']; subst. simpl in Ho. subst o.
    cbn [length tuple_loop pass_first negb orb Nat.leb map seqT snd] in *.
    destruct (test q) as [| |m1 r1 p1] eqn:Et; try reflexivity.
    rewrite (pass_rest_opts opts' Hopts' (S (length opts')) 1%nat _ _ _ (le_n _)).
    match goal with |- context [seqT ?X r1] => destruct (seqT X r1) as [| |m2 r2 p2] eqn:E2 end;
      try reflexivity.
    f_equal.
    assert (Hq : (m1 ++ m2) ++ r2 = q).
    { apply (Hsplit q (m1 ++ m2) r2 (p1 ++ p2)). now rewrite Et, E2. }
    rewrite <- Hq at 1. rewrite <- app_length. apply firstn_app_len.
  - (* it starts with a non-optional field *)
    cbn [app] in Heq. injection Heq as -> ->.
    inversion Hpre as [|? ? Ho Hpre']; subst. simpl in Ho. subst o.
    cbn [map seqT snd] in *.
    destruct (a q) as [| |m1 r1 p1] eqn:Ea.
    + destruct (length opts); cbn [tuple_loop pass_first negb orb]; rewrite Ea; reflexivity.
    + destruct (length opts); cbn [tuple_loop pass_first negb orb]; rewrite Ea; reflexivity.
    + rewrite map_app, seqT_app.
      match goal with |- context [seqT ?X r1] => destruct (seqT X r1) as [| |m2 r2 p2] eqn:Ep end.
      * eapply tuple_loop_pre_fail; eauto.
      * rewrite tuple_loop_unfold. cbn [pass_first negb orb].
        now rewrite Ea, pass_rest_pre, Ep by assumption.
      * rewrite tuple_loop_unfold. cbn [pass_first negb orb].
        rewrite Ea, pass_rest_pre, Ep by assumption.
        rewrite (pass_rest_opts opts Hopts (length opts) 0%nat _ _ _ (le_n _)).
        match goal with |- context [seqT ?X r2] => destruct (seqT X r2) as [| |m3 r3 p3] eqn:Eo end;
          try reflexivity.
        rewrite !app_assoc. f_equal.
        assert (Hq : (m1 ++ m2 ++ m3) ++ r3 = q).
        { apply (Hsplit q _ r3 (p1 ++ p2 ++ p3)). rewrite Ea, map_app, seqT_app, Ep, Eo. reflexivity. }
        rewrite <- Hq at 1. rewrite <- !app_length, <- app_assoc. apply firstn_app_len.
Qed.

Lemma opt_tail_split : forall l, opt_tail_list l = true ->
  exists pre opts, l = pre ++ opts
    /\ Forall (fun x => seg_optional x = false) pre
    /\ Forall (fun x => is_sopt x = true) opts.
Proof.
  induction l as [|x l IH]; intros H.
  - exists [], []. repeat split; constructor.
  - cbn [opt_tail_list] in H. destruct (seg_optional x) eqn:Ex.
    + exists [], (x :: l). repeat split; [constructor|].
      apply Forall_forall. now apply forallb_forall.
    + destruct (IH H) as (pre & opts & -> & Hp & Ho).
      exists (x :: pre), opts. repeat split; [constructor; assumption|assumption].
Qed.

Lemma is_sopt_optional : forall x, is_sopt x = true -> seg_optional x = true.
Proof. destruct x; try discriminate; reflexivity. Qed.

Theorem flatten_seg_opt :
  forall s, opt_tail_seg s = true ->
  forall q, seg_test s q = seqT (map seg_test (leaf_list s)) q.
Proof.
  intros s Hs q.
  destruct s as [t|n|n|n| |l]; try (cbn [leaf_list map]; now rewrite seqT_single).
  cbn [opt_tail_seg] in Hs. destruct (opt_tail_split l Hs) as (pre & opts & Hl & Hpre & Hopts).
  assert (Hall : Forall (fun x => forall q, seg_test x q = seqT (map seg_test (leaf_list x)) q) l).
  { subst l. apply Forall_app. split.
    - eapply Forall_impl; [|exact Hpre]. intros x Hx. now apply flatten_seg.
    - eapply Forall_impl; [|exact Hopts]. intros x Hx q0.
      destruct x; try discriminate. cbn [leaf_list map]. now rewrite seqT_single. }
  cbn [leaf_list]. rewrite <- seqT_flat.
  rewrite <- (seqT_ext _ seg_test _ l Hall).
  cbn [seg_test].
  destruct l as [|a l']; [reflexivity|].
  destruct l' as [|b l''].
  - cbn [map]. rewrite seqT_single.
    destruct (seg_test a q) as [| |m r p] eqn:E; try reflexivity.
    apply seg_test_partition in E. subst q. now rewrite firstn_app_len.
  - set (F := fun x : seg => (seg_optional x, seg_test x)).
    assert (Hts : map F (a :: b :: l'') = map F pre ++ map F opts) by (now rewrite Hl, map_app).
    assert (Hc : count_opt (map F (a :: b :: l'')) = length (map F opts)).
    { rewrite Hts. unfold count_opt. rewrite filter_app, app_length.
      assert (H1 : filter fst (map F pre) = []).
      { clear -Hpre. induction Hpre as [|x pre Hx Hp IH]; [reflexivity|].
        cbn [map filter F fst]. now rewrite Hx. }
      assert (H2 : filter fst (map F opts) = map F opts).
      { clear -Hopts. induction Hopts as [|x opts Hx Ho IH]; [reflexivity|].
        cbn [map filter F fst]. rewrite (is_sopt_optional _ Hx). now rewrite IH. }
      now rewrite H1, H2. }
    change (map (fun x : seg => (seg_optional x, seg_test x)) (a :: b :: l''))
      with (map F (a :: b :: l'')).
    remember (map F (a :: b :: l'')) as ts eqn:Ets.
    destruct ts as [|t ts]; [discriminate|]. destruct ts as [|t2 ts]; [discriminate|].
    destruct t as [o1 f1]. cbn beta iota.
    rewrite Hc.
    rewrite (tuple_loop_opt_tail (o1, f1) (t2 :: ts) (map F pre) (map F opts)).
    + transitivity (seqT (map snd (map F (a :: b :: l''))) q);
        [f_equal; f_equal; exact Ets|rewrite map_map; reflexivity].
    + exact Hts.
    + clear -Hpre. induction Hpre; simpl; constructor; auto.
    + clear -Hopts. induction Hopts as [|x opts Hx Ho IH]; simpl; constructor; auto.
      cbn [F fst]. now apply is_sopt_optional.
    + assert (Hg : Forall (fun t0 : tester => splits (snd t0)) (map F (a :: b :: l''))).
      { generalize (a :: b :: l''). intros l0. induction l0; simpl; constructor; auto.
        cbn [F snd]. intros p m r ps. apply seg_test_partition. }
      now rewrite <- Ets in Hg.
Qed.

(** ================================================================================
    Part B' — route trees whose optionals sit in that placement are still the ordered list
    of their chains (the optional-parent fallback never fires)
    ================================================================================ *)
Fixpoint route_ok (r : route) : bool :=
  match r with
  | Route s None => opt_tail_seg s
  | Route s (Some ks) =>
      negb (seg_optional s) && match ks with [] => false | _ => true end && forallb route_ok ks
  end.

Lemma route_ok_of : forall r, opt_ok_route r = true -> wf_tree_r r = true -> route_ok r = true.
Proof.
  induction r using route_ind'; intros Ho Hw; cbn [opt_ok_route wf_tree_r route_ok] in *; [exact Ho|].
  apply andb_prop in Ho. destruct Ho as [Hs Hks]. apply andb_prop in Hw. destruct Hw as [Hne Hwks].
  rewrite Hs, Hne. cbn [andb].
  clear Hs Hne. induction H as [|k ks Hk Hl IH]; [reflexivity|].
  cbn [forallb] in *. apply andb_prop in Hks. destruct Hks as [H1 H2].
  apply andb_prop in Hwks. destruct Hwks as [H3 H4]. rewrite Hk, IH; auto.
Qed.

Lemma chain_route_nonempty_ok : forall r, route_ok r = true -> chain_route r <> [].
Proof.
  induction r using route_ind'; intros Hp; cbn [chain_route]; [discriminate|].
  cbn [route_ok] in Hp. apply andb_prop in Hp. destruct Hp as [Hp Hks].
  apply andb_prop in Hp. destruct Hp as [_ Hne].
  destruct ks as [|k ks]; [discriminate|].
  inversion H; subst. cbn [forallb] in Hks. apply andb_prop in Hks. destruct Hks as [Hk _].
  cbn [flat_map]. intros Hc. apply map_eq_nil in Hc. apply app_eq_nil in Hc.
  destruct Hc as [Hc _]. now apply H2 in Hk.
Qed.

Lemma forest_chains_ok :
  forall ks,
    Forall (fun r => route_ok r = true ->
                     forall id q, oproj (match_nested r id q) = first_chain (chain_route r) q) ks ->
    forallb route_ok ks = true ->
    forall id q, oproj (first_match match_nested ks id q) = first_chain (flat_map chain_route ks) q.
Proof.
  induction 1 as [|k ks Hk Hks IH]; intros Hp id q; cbn [first_match flat_map].
  - reflexivity.
  - cbn [forallb] in Hp. apply andb_prop in Hp. destruct Hp as [Hpk Hpks].
    rewrite first_chain_app, <- (Hk Hpk id q).
    destruct (match_nested k id q); cbn [oproj]; auto.
Qed.

Theorem route_chains_ok :
  forall r, route_ok r = true ->
  forall id q, oproj (match_nested r id q) = first_chain (chain_route r) q.
Proof.
  induction r using route_ind'; intros Hp id q; cbn [match_nested chain_route];
    unfold nested_step.
  - cbn [route_ok] in Hp.
    rewrite (flatten_seg_opt s Hp q). cbn [first_chain].
    destruct (seqT (map seg_test (leaf_list s)) q) as [| |m r ps]; try reflexivity.
    unfold nested_finish. destruct (rem_ok r); cbn [oproj]; now rewrite ?app_nil_r.
  - cbn [route_ok] in Hp. apply andb_prop in Hp. destruct Hp as [Hp Hks].
    apply andb_prop in Hp. destruct Hp as [Hs Hne]. apply negb_true_iff in Hs.
    pose proof (forest_chains_ok ks H Hks) as HF.
    rewrite (flatten_seg s Hs q).
    destruct (seqT (map seg_test (leaf_list s)) q) as [| |m r ps] eqn:E.
    + now rewrite first_chain_prefix_none.
    + rewrite first_chain_prefix_panic; auto.
      destruct ks as [|k ks]; [discriminate|].
      inversion H; subst. cbn [forallb] in Hks. apply andb_prop in Hks. destruct Hks as [Hk _].
      cbn [flat_map]. intros Hc. apply app_eq_nil in Hc. destruct Hc as [Hc _].
      now apply chain_route_nonempty_ok in Hk.
    + rewrite (first_chain_prefix_some _ _ _ _ _ _ E), <- (HF (S id) r).
      destruct (first_match match_nested ks (S id) r) as [| |ch ips rem] eqn:E2; cbn [oproj].
      * reflexivity.
      * now rewrite Hs.
      * unfold nested_finish.
        assert (rem_ok rem = true) as ->; [|reflexivity].
        eapply first_chain_rem_ok. rewrite <- (HF (S id) r), E2. reflexivity.
Qed.

Corollary siblings_chains_ok :
  forall rs, forallb route_ok rs = true ->
  forall id q, oproj (match_siblings rs id q) = first_chain (chains rs) q.
Proof.
  intros rs Hp id q. apply forest_chains_ok; [|exact Hp].
  apply Forall_forall. intros r _ Hr. now apply route_chains_ok.
Qed.

(** ================================================================================
    Part C' — the optional tail: greedy matching of the optionals agrees with "some
    subset of them, kept as params, matches" (the expansions of the table)
    ================================================================================ *)
Fixpoint psubsets (ns : list bytes) : list (list bytes) :=
  match ns with
  | [] => [[]]
  | n :: t => map (cons n) (psubsets t) ++ psubsets t
  end.

Lemma expand_popts : forall ns,
  expand_optionals (map POpt ns) = map (map PParam) (psubsets ns).
Proof.
  induction ns as [|n ns IH]; [reflexivity|].
  cbn [map expand_optionals psubsets]. rewrite IH, map_app, !map_map. reflexivity.
Qed.

Lemma expand_app_noopt : forall A B, existsb is_popt A = false ->
  expand_optionals (A ++ B) = map (app A) (expand_optionals B).
Proof.
  induction A as [|x A IH]; intros B H.
  - cbn [app]. symmetry. erewrite map_ext; [apply map_id|reflexivity].
  - cbn [existsb] in H. apply orb_false_iff in H. destruct H as [Hx HA].
    destruct x; cbn [is_popt] in Hx; try discriminate;
      cbn [app expand_optionals]; rewrite (IH B HA), map_map; reflexivity.
Qed.

Lemma psubsets_spec : forall ns S, In S (psubsets ns) ->
  (forall n, In n S -> In n ns) /\ (ns = [] -> S = []).
Proof.
  induction ns as [|n ns IH]; intros S H.
  - cbn in H. destruct H as [<-|[]]. split; auto.
  - cbn [psubsets] in H. apply in_app_or in H. split; [|discriminate].
    destruct H as [H|H].
    + apply in_map_iff in H. destruct H as (S0 & <- & H0). destruct (IH _ H0) as [I1 _].
      intros m [<-|Hm]; [now left|right; auto].
    + destruct (IH _ H) as [I1 _]. intros m Hm. right. auto.
Qed.

Lemma psubsets_nil_in : forall ns, In [] (psubsets ns).
Proof. induction ns; cbn [psubsets]; [now left|]. apply in_or_app. now right. Qed.

(** ---- OptionalParamSegment / ParamSegment at a component boundary ---- *)
Definition comp_split (r : bytes) : option (bytes * bytes) :=
  match r with
  | c :: q1 =>
      if c =? slash then
        match run_len q1 with
        | O => None
        | S _ => Some (firstn (run_len q1) q1, skipn (run_len q1) q1)
        end
      else None
  | [] => None
  end.

Lemma opt_test_boundary : forall n r, at_boundary r = true ->
  seg_test (SOpt n) r =
  match comp_split r with
  | Some (v, r1) => TSome (slash :: v) r1 [(n, v)]
  | None => TSome [] r []
  end.
Proof.
  intros n [|c q1] Hb; [reflexivity|]. cbn [at_boundary] in Hb.
  cbn [seg_test comp_split]. rewrite Hb. apply N.eqb_eq in Hb. subst c.
  unfold param_like, after_first. rewrite N.eqb_refl.
  destruct (run_len q1) as [|k] eqn:E; [reflexivity|].
  cbn [Nat.add Nat.eqb andb].
  change (is_boundary (slash :: q1) (S (S k))) with (is_boundary q1 (S k)).
  rewrite <- E, is_boundary_run. reflexivity.
Qed.

Lemma param_test_comp : forall n r, at_boundary r = true ->
  seg_test (SParam n) r =
  match comp_split r with
  | Some (v, r1) => TSome (slash :: v) r1 [(n, v)]
  | None => TNone
  end.
Proof.
  intros n [|c q1] Hb; [reflexivity|]. cbn [at_boundary] in Hb.
  cbn [seg_test comp_split]. rewrite Hb. apply N.eqb_eq in Hb. subst c.
  rewrite param_test_boundary. destruct (run_len q1); reflexivity.
Qed.

Lemma comp_split_boundary : forall r v r1, comp_split r = Some (v, r1) ->
  at_boundary r1 = true /\ rem_ok r = false.
Proof.
  intros [|c q1] v r1 H; [discriminate|]. cbn [comp_split] in H.
  destruct (c =? slash) eqn:Ec; [|discriminate].
  destruct (run_len q1) as [|k] eqn:E; [discriminate|]. rewrite <- E in H.
  injection H as _ <-. split; [apply skipn_run_boundary|].
  destruct q1 as [|d q1]; [discriminate|]. reflexivity.
Qed.

Lemma good_cons_some : forall x X r m r1 ps,
  seg_test x r = TSome m r1 ps -> good r (x :: X) = good r1 X.
Proof.
  intros x X r m r1 ps H. unfold good. cbn [map seqT]. rewrite H.
  destruct (seqT (map seg_test X) r1); reflexivity.
Qed.

Lemma good_cons_none : forall x X r, seg_test x r = TNone -> good r (x :: X) = false.
Proof. intros x X r H. unfold good. cbn [map seqT]. now rewrite H. Qed.

Lemma good_app : forall A B q,
  good q (A ++ B) =
  match seqT (map seg_test A) q with TSome _ r _ => good r B | _ => false end.
Proof.
  intros A B q. unfold good. rewrite map_app, seqT_app.
  destruct (seqT (map seg_test A) q) as [| |m r ps]; try reflexivity.
  destruct (seqT (map seg_test B) r); reflexivity.
Qed.

Definition E (r : bytes) (ns : list bytes) : bool :=
  existsb (fun S => good r (map SParam S)) (psubsets ns).

Lemma existsb_const_false : forall (A : Type) (l : list A), existsb (fun _ => false) l = false.
Proof. induction l; auto. Qed.

Lemma E_cons : forall r n ns, at_boundary r = true ->
  E r (n :: ns) =
  match comp_split r with
  | Some (_, r1) => E r1 ns || E r ns
  | None => E r ns
  end.
Proof.
  intros r n ns Hb. unfold E. cbn [psubsets]. rewrite existsb_app, existsb_map.
  pose proof (param_test_comp n r Hb) as Hp.
  destruct (comp_split r) as [[v r1]|].
  - f_equal. apply existsb_ext_in. intros S _. cbn [map]. eapply good_cons_some; eauto.
  - assert (Hf : existsb (fun x => good r (map SParam (n :: x))) (psubsets ns) = false).
    { rewrite <- (existsb_const_false _ (psubsets ns)). apply existsb_ext_in.
      intros S _. cbn [map]. now apply good_cons_none. }
    now rewrite Hf.
Qed.

Lemma E_mono : forall ns r v r1, at_boundary r = true -> comp_split r = Some (v, r1) ->
  E r ns = true -> E r1 ns = true.
Proof.
  induction ns as [|n ns IH]; intros r v r1 Hb Hc H.
  - unfold E, good in H. cbn in H. rewrite orb_false_r in H.
    apply comp_split_boundary in Hc. destruct Hc as [_ Hc]. congruence.
  - destruct (comp_split_boundary _ _ _ Hc) as [Hb1 _].
    rewrite (E_cons r n ns Hb), Hc in H. rewrite (E_cons r1 n ns Hb1).
    assert (H1 : E r1 ns = true).
    { apply orb_prop in H. destruct H as [H|H]; [exact H|]. exact (IH r v r1 Hb Hc H). }
    destruct (comp_split r1) as [[v2 r2]|]; [|exact H1]. rewrite H1. apply orb_true_r.
Qed.

Theorem opt_tail_good : forall ns r, at_boundary r = true ->
  good r (map SOpt ns) = E r ns.
Proof.
  induction ns as [|n ns IH]; intros r Hb.
  - unfold E. cbn. now rewrite orb_false_r.
  - rewrite (E_cons r n ns Hb). cbn [map].
    pose proof (opt_test_boundary n r Hb) as Ho.
    destruct (comp_split r) as [[v r1]|] eqn:Ec.
    + destruct (comp_split_boundary _ _ _ Ec) as [Hb1 _].
      rewrite (good_cons_some _ _ _ _ _ _ Ho), (IH r1 Hb1).
      destruct (E r1 ns) eqn:E1; [reflexivity|]. cbn [orb].
      destruct (E r ns) eqn:E2; [|reflexivity].
      rewrite (E_mono ns r v r1 Hb Ec E2) in E1. discriminate.
    + rewrite (good_cons_some _ _ _ _ _ _ Ho). now apply IH.
Qed.

Lemma opt_tail_no_panic : forall ns r, at_boundary r = true ->
  seqT (map seg_test (map SOpt ns)) r <> TPanic.
Proof.
  induction ns as [|n ns IH]; intros r Hb; [discriminate|].
  cbn [map seqT]. rewrite (opt_test_boundary n r Hb).
  destruct (comp_split r) as [[v r1]|] eqn:Ec.
  - destruct (comp_split_boundary _ _ _ Ec) as [Hb1 _]. specialize (IH r1 Hb1).
    destruct (seqT (map seg_test (map SOpt ns)) r1); congruence.
  - specialize (IH r Hb). destruct (seqT (map seg_test (map SOpt ns)) r); congruence.
Qed.

(** what the greedy tail binds: the params of the first [j] optionals, for some [j] *)
Lemma opt_tail_prefix : forall ns r, at_boundary r = true ->
  exists j, tproj (seqT (map seg_test (map SOpt ns)) r)
            = tproj (seqT (map seg_test (map SParam (firstn j ns))) r).
Proof.
  induction ns as [|n ns IH]; intros r Hb; [exists 0%nat; reflexivity|].
  destruct (comp_split r) as [[v r1]|] eqn:Ec.
  - destruct (comp_split_boundary _ _ _ Ec) as [Hb1 _]. destruct (IH r1 Hb1) as [j Hj].
    exists (S j). cbn [firstn map seqT].
    rewrite (opt_test_boundary n r Hb), (param_test_comp n r Hb), Ec.
    destruct (seqT (map seg_test (map SOpt ns)) r1);
      destruct (seqT (map seg_test (map SParam (firstn j ns))) r1);
      cbn [tproj] in *; congruence.
  - exists 0%nat.
    assert (H : forall ms, seqT (map seg_test (map SOpt ms)) r = TSome [] r []).
    { induction ms as [|m ms IHm]; [reflexivity|]. cbn [map seqT].
      rewrite (opt_test_boundary m r Hb), Ec, IHm. reflexivity. }
    now rewrite H.
Qed.

(** ---- chains of such trees: optional-free leaves, then optionals ---- *)
Lemma flat_map_leaf_sopts : forall ns, flat_map leaf_list (map SOpt ns) = map SOpt ns.
Proof. induction ns as [|n ns IH]; [reflexivity|]. cbn [map flat_map leaf_list app]. now rewrite IH. Qed.

Lemma all_sopt_names : forall l, Forall (fun x => is_sopt x = true) l -> exists ns, l = map SOpt ns.
Proof.
  induction 1 as [|x l Hx Hl [ns ->]]; [now exists []|].
  destruct x; try discriminate. now exists (n :: ns).
Qed.

Lemma no_sopt_leaves : forall s, seg_optional s = false ->
  Forall (fun x => is_sopt x = false) (leaf_list s).
Proof.
  induction s using seg_ind'; intros Hs; try (repeat constructor); try discriminate.
  cbn [seg_optional] in Hs. apply existsb_false_forall in Hs. cbn [leaf_list].
  induction H as [|x l Hx Hl IH]; [constructor|]. inversion Hs; subst.
  cbn [flat_map]. apply Forall_app. split; auto.
Qed.

Lemma leaf_decomp : forall s, opt_tail_seg s = true ->
  exists L0 ns, leaf_list s = L0 ++ map SOpt ns /\ Forall (fun x => is_sopt x = false) L0.
Proof.
  intros s Hs. destruct s as [t|n|n|n| |l].
  - exists [SStatic t], []. split; [reflexivity|repeat constructor].
  - exists [SParam n], []. split; [reflexivity|repeat constructor].
  - exists [], [n]. split; [reflexivity|constructor].
  - exists [SWild n], []. split; [reflexivity|repeat constructor].
  - exists [SUnit], []. split; [reflexivity|repeat constructor].
  - cbn [opt_tail_seg] in Hs. destruct (opt_tail_split l Hs) as (pre & opts & -> & Hpre & Hopts).
    destruct (all_sopt_names _ Hopts) as [ns ->].
    exists (flat_map leaf_list pre), ns. split.
    + cbn [leaf_list]. now rewrite flat_map_app, flat_map_leaf_sopts.
    + clear -Hpre. induction Hpre as [|x pre Hx Hp IH]; [constructor|].
      cbn [flat_map]. apply Forall_app. split; [now apply no_sopt_leaves|exact IH].
Qed.

Lemma chain_decomp : forall r, route_ok r = true ->
  forall L, In L (chain_route r) ->
  exists L0 ns, L = L0 ++ map SOpt ns /\ Forall (fun x => is_sopt x = false) L0.
Proof.
  induction r using route_ind'; intros Hr L HL; cbn [chain_route route_ok] in *.
  - destruct HL as [<-|[]]. now apply leaf_decomp.
  - apply andb_prop in Hr. destruct Hr as [Hr Hks]. apply andb_prop in Hr. destruct Hr as [Hs _].
    apply negb_true_iff in Hs.
    apply in_map_iff in HL. destruct HL as (L' & <- & HL').
    apply in_flat_map in HL'. destruct HL' as (k & Hk & HLk).
    rewrite Forall_forall in H. rewrite forallb_forall in Hks.
    destruct (H k Hk (Hks k Hk) L' HLk) as (L0 & ns & -> & Hn).
    exists (leaf_list s ++ L0), ns. split; [now rewrite app_assoc|].
    apply Forall_app. split; [now apply no_sopt_leaves|exact Hn].
Qed.

Lemma gen_sopts : forall ns, flat_map gen_path (map SOpt ns) = map POpt ns.
Proof. induction ns as [|n ns IH]; [reflexivity|]. cbn [map flat_map gen_path app]. now rewrite IH. Qed.

Lemma gen_sparams : forall S, flat_map gen_path (map SParam S) = map PParam S.
Proof. induction S as [|n S IH]; [reflexivity|]. cbn [map flat_map gen_path app]. now rewrite IH. Qed.

Lemma gen_nosopt : forall L0, Forall (fun x => is_leaf x = true) L0 ->
  Forall (fun x => is_sopt x = false) L0 -> existsb is_popt (flat_map gen_path L0) = false.
Proof.
  induction 1 as [|x L0 Hx HL IH]; intros Hn; [reflexivity|]. inversion Hn; subst.
  cbn [flat_map]. rewrite existsb_app, (IH H2), orb_false_r.
  destruct x; try discriminate; reflexivity.
Qed.

Lemma wf_flat_params : forall S, wf_flat (map PParam S) = forallb name_ok S.
Proof. induction S as [|n S IH]; [reflexivity|]. cbn [map wf_flat forallb]. now rewrite IH. Qed.

Lemma wf_flat_popts : forall ns, wf_flat (map POpt ns) = forallb name_ok ns.
Proof. induction ns as [|n ns IH]; [reflexivity|]. cbn [map wf_flat forallb]. now rewrite IH. Qed.

Lemma wf_flat_sub : forall A ns S,
  wf_flat (A ++ map POpt ns) = true -> In S (psubsets ns) -> wf_flat (A ++ map PParam S) = true.
Proof.
  induction A as [|x A IH]; intros ns S Hw HS.
  - cbn [app] in *. rewrite wf_flat_popts in Hw. rewrite wf_flat_params.
    apply forallb_forall. intros n Hn. rewrite forallb_forall in Hw. apply Hw.
    now apply (proj1 (psubsets_spec ns S HS)).
  - destruct x; cbn [app wf_flat] in *;
      try (apply andb_prop in Hw; destruct Hw as [Hn Hw]; rewrite Hn; cbn [andb]);
      try (now apply (IH ns S)).
    destruct (A ++ map POpt ns) as [|y l] eqn:El; [|discriminate].
    apply app_eq_nil in El. destruct El as [-> Hns]. apply map_eq_nil in Hns.
    now rewrite (proj2 (psubsets_spec ns S HS) Hns).
Qed.

Lemma ssf_params : forall S, slash_static_flat (map PParam S) = false.
Proof. induction S as [|n S IH]; [reflexivity|]. exact IH. Qed.

Lemma ssf_sub : forall A ns S,
  slash_static_flat (A ++ map POpt ns) = false -> In S (psubsets ns) ->
  slash_static_flat (A ++ map PParam S) = false.
Proof.
  induction A as [|x A IH]; intros ns S Hs HS.
  - apply ssf_params.
  - destruct x; cbn [app slash_static_flat] in *; try (now apply (IH ns S)).
    apply orb_false_iff in Hs. destruct Hs as [Hs Hrest].
    apply orb_false_iff in Hs. destruct Hs as [Htl Hsl].
    rewrite Htl, (IH ns S Hrest HS), orb_false_r. cbn [orb].
    destruct (bytes_eqb s [slash]); [|reflexivity]. cbn [andb] in *.
    apply negb_false_iff in Hsl. rewrite forallb_app in Hsl. apply andb_prop in Hsl.
    destruct Hsl as [HA Hns].
    assert (ns = []) as -> by (destruct ns; [reflexivity|discriminate]).
    rewrite (proj2 (psubsets_spec [] S HS) eq_refl). cbn [map]. rewrite app_nil_r, HA. reflexivity.
Qed.

Lemma core_in_params : forall cores S, Forall (core_in cores) (map SParam S).
Proof. induction S; simpl; constructor; simpl; auto. Qed.

(** after a chain that can be followed by a param, the remainder is again at a boundary *)
Lemma tame_app_inv :
  forall cores n L0,
    tame_chain (L0 ++ [SParam n]) = true -> Forall (core_in cores) L0 ->
    forall q m r ps, Inv cores q -> seqT (map seg_test L0) q = TSome m r ps -> Inv cores r.
Proof.
  intros cores n. induction L0 as [|x L0 IH]; intros Ht Hc q m r ps Hq HS.
  - cbn in HS. now inversion HS; subst.
  - inversion Hc as [|? ? Hx HL]; subst. cbn [map seqT] in HS.
    destruct (seg_test x q) as [| |m1 r1 p1] eqn:Ex; try discriminate.
    destruct (seqT (map seg_test L0) r1) as [| |m2 r2 p2] eqn:E2; try discriminate.
    inversion HS; subst.
    assert (Hgo : tame_chain (L0 ++ [SParam n]) = true -> Inv cores r1 -> Inv cores r)
      by (intros H1 H2; eapply IH; eauto).
    destruct Hq as [Hb Hk].
    destruct x as [t|n0|n0|n0| |l]; cbn [app tame_chain] in Ht; try discriminate.
    + destruct (bytes_eqb t [slash]).
      * rewrite forallb_app in Ht. apply andb_prop in Ht. destruct Ht as [_ Ht]. discriminate.
      * apply andb_prop in Ht. destruct Ht as [Hts HtL]. apply Hgo; [exact HtL|].
        cbn [seg_test] in Ex. destruct t as [|c0 t0].
        -- rewrite static_test_empty in Ex. inversion Ex; subst. split; assumption.
        -- cbn [tame_static] in Hts.
           destruct q as [|c q1]; [now rewrite (static_test_tame_nil _ Hts) in Ex|].
           cbn [at_boundary] in Hb. apply N.eqb_eq in Hb. subst c.
           rewrite (static_test_tame _ _ Hts) in Ex.
           destruct (is_prefix (static_core (c0 :: t0)) q1) eqn:Ep; [|discriminate].
           injection Ex as _ Hr1 _. subst r1.
           assert (Hin : In (static_core (c0 :: t0)) cores) by (apply Hx; exact Hts).
           cbn [kb] in Hk. rewrite N.eqb_refl in Hk. cbn [andb] in Hk.
           apply orb_false_iff in Hk. destruct Hk as [Hbad Hk1].
           pose proof (existsb_false_in _ _ _ _ Hbad Hin) as Hall.
           pose proof (is_prefix_split _ _ Ep) as Hsp.
           unfold static_core in *. split.
           ++ unfold bad_at in Hall. rewrite Ep in Hall. cbn [andb] in Hall.
              match goal with |- at_boundary ?X = true => destruct X as [|c rr] end; [reflexivity|].
              cbn [at_boundary]. now apply negb_false_iff in Hall.
           ++ rewrite Hsp in Hk1. now apply kb_suffix in Hk1.
    + apply andb_prop in Ht. destruct Ht as [_ HtL]. apply Hgo; [exact HtL|].
      cbn [seg_test] in Ex. destruct q as [|c q1]; [discriminate|].
      cbn [at_boundary] in Hb. apply N.eqb_eq in Hb. subst c.
      rewrite param_test_boundary in Ex.
      destruct (run_len q1) as [|k] eqn:Ek; [discriminate|]. rewrite <- Ek in Ex.
      inversion Ex; subst. split; [apply skipn_run_boundary|].
      apply (kb_suffix cores (slash :: firstn (run_len q1) q1)). cbn [app]. now rewrite firstn_skipn.
    + apply andb_prop in Ht. destruct Ht as [_ Ht].
      rewrite forallb_app in Ht. apply andb_prop in Ht. destruct Ht as [_ Ht]. discriminate.
    + cbn [seg_test] in Ex. inversion Ex; subst. apply Hgo; [exact Ht|]. split; assumption.
Qed.

(** the central fact about one chain *)
Lemma chain_opt :
  forall cores L0 ns q,
    Forall (fun x => is_leaf x = true) L0 -> Forall (fun x => is_sopt x = false) L0 ->
    wf_flat (flat_map gen_path (L0 ++ map SOpt ns)) = true ->
    slash_static_flat (flat_map gen_path (L0 ++ map SOpt ns)) = false ->
    Forall (core_in cores) L0 -> Inv cores q ->
    seqT (map seg_test (L0 ++ map SOpt ns)) q <> TPanic
    /\ good q (L0 ++ map SOpt ns)
       = existsb (flat_good q) (expand_optionals (flat_map gen_path (L0 ++ map SOpt ns))).
Proof.
  intros cores L0 ns q Hleaf Hnos Hwf Hss Hcores Hq.
  set (A := flat_map gen_path L0).
  assert (HA : existsb is_popt A = false) by (now apply gen_nosopt).
  rewrite flat_map_app, gen_sopts in Hwf, Hss |- *. fold A in Hwf, Hss |- *.
  (* every expansion is the table entry of an optional-free tame chain *)
  assert (Hsub : forall S, In S (psubsets ns) ->
            tproj (seqT (map seg_test (L0 ++ map SParam S)) q)
            = Some (spre (toks (A ++ map PParam S)) q)).
  { intros S HS.
    assert (Hg : flat_map gen_path (L0 ++ map SParam S) = A ++ map PParam S)
      by (now rewrite flat_map_app, gen_sparams).
    rewrite <- Hg. apply (chain_spre cores).
    - apply tame_from_flat.
      + apply Forall_app. split; [exact Hleaf|]. clear. induction S; simpl; constructor; auto.
      + rewrite Hg, existsb_app, HA. clear. induction S; auto.
      + rewrite Hg. eapply wf_flat_sub; eauto.
      + rewrite Hg. eapply ssf_sub; eauto.
    - apply Forall_app. split; [exact Hcores|apply core_in_params].
    - exact Hq. }
  (* the table side, expansion by expansion *)
  assert (Hflat : existsb (flat_good q) (expand_optionals (A ++ map POpt ns))
                  = existsb (fun S => good q (L0 ++ map SParam S)) (psubsets ns)).
  { rewrite (expand_app_noopt _ _ HA), expand_popts, !existsb_map.
    apply existsb_ext_in. intros S HS. specialize (Hsub S HS). unfold flat_good, good.
    destruct (seqT (map seg_test (L0 ++ map SParam S)) q) as [| |m r ps]; cbn [tproj] in Hsub.
    - injection Hsub as <-. reflexivity.
    - discriminate.
    - injection Hsub as <-. reflexivity. }
  rewrite Hflat.
  (* the optional-free part does not panic *)
  pose proof (Hsub [] (psubsets_nil_in ns)) as H0. cbn [map] in H0. rewrite app_nil_r in H0.
  rewrite map_app, seqT_app, good_app.
  destruct (seqT (map seg_test L0) q) as [| |m r ps] eqn:E0; cbn [tproj] in H0.
  - split; [discriminate|].
    rewrite (existsb_ext_in _ _ (fun _ => false)); [now rewrite existsb_const_false|].
    intros S _. now rewrite good_app, E0.
  - discriminate.
  - assert (Hrest : existsb (fun S => good q (L0 ++ map SParam S)) (psubsets ns) = E r ns).
    { unfold E. apply existsb_ext_in. intros S _. now rewrite good_app, E0. }
    rewrite Hrest.
    destruct ns as [|n ns'].
    + split.
      * cbn [map seqT]. discriminate.
      * unfold E. cbn. now rewrite orb_false_r.
    + (* a param can follow the optional-free part, so its remainder is at a boundary *)
      assert (Hin1 : In [n] (psubsets (n :: ns'))).
      { cbn [psubsets]. apply in_or_app. left. apply in_map. apply psubsets_nil_in. }
      assert (Ht1 : tame_chain (L0 ++ [SParam n]) = true).
      { change [SParam n] with (map SParam [n]).
        apply tame_from_flat.
        - apply Forall_app. split; [exact Hleaf|repeat constructor].
        - rewrite flat_map_app, gen_sparams, existsb_app. fold A. now rewrite HA.
        - rewrite flat_map_app, gen_sparams. fold A. eapply wf_flat_sub; eauto.
        - rewrite flat_map_app, gen_sparams. fold A. eapply ssf_sub; eauto. }
      destruct (tame_app_inv cores n L0 Ht1 Hcores q m r ps Hq E0) as [Hb _].
      split.
      * pose proof (opt_tail_no_panic (n :: ns') r Hb) as Hnp.
        destruct (seqT (map seg_test (map SOpt (n :: ns'))) r); congruence.
      * now apply opt_tail_good.
Qed.
