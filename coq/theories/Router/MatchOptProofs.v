(** C14 — the theorems of Router/MatchProofs.v extended to route tables with
    OptionalParamSegments in the one placement the matcher handles like the table:
    a top-level suffix of the segment tuple of a route without children
    (Flat.opt_ok_route; everything else is the known class F-C14-c). *)
From Coq Require Import List NArith Bool Arith Lia.
From LV Require Import Base.Bytes Router.Match Router.Flat Router.MatchProofs.
Import ListNotations.
Open Scope N_scope.

(** ================================================================================
    Part A' — a tuple "non-optional fields, then optionals" is still the plain
    left-to-right composition: every optional is included in the first pass, and a
    failing non-optional field fails again after each back-off
    ================================================================================ *)
Lemma pass_rest_pre :
  forall pre, Forall (fun t : tester => fst t = false) pre ->
  forall rest i nth r mlen ps,
    pass_rest (pre ++ rest) i nth r mlen ps =
    match seqT (map snd pre) r with
    | TNone => if Nat.eqb i 0 then PFail else PRetry
    | TPanic => PPanic
    | TSome m r' p => pass_rest rest i nth r' (mlen + length m)%nat (ps ++ p)
    end.
Proof.
  induction 1 as [|[opt test] pre Ht Hpre IH]; intros rest i nth r mlen ps;
    cbn [app pass_rest map seqT snd].
  - now rewrite Nat.add_0_r, app_nil_r.
  - simpl in Ht. subst opt. cbn [negb orb].
    destruct (test r) as [| |m1 r1 p1]; try reflexivity.
    rewrite IH. destruct (seqT (map snd pre) r1) as [| |m2 r2 p2]; try reflexivity.
    now rewrite app_length, Nat.add_assoc, app_assoc.
Qed.

Lemma pass_rest_opts :
  forall opts, Forall (fun t : tester => fst t = true) opts ->
  forall i nth r mlen ps,
    (nth + length opts <= i)%nat ->
    pass_rest opts i nth r mlen ps =
    match seqT (map snd opts) r with
    | TNone => PFail
    | TPanic => PPanic
    | TSome m r' p => PDone r' (mlen + length m)%nat (ps ++ p)
    end.
Proof.
  induction 1 as [|[opt test] opts Ht Hopts IH]; intros i nth r mlen ps Hle;
    cbn [pass_rest map seqT snd].
  - now rewrite Nat.add_0_r, app_nil_r.
  - simpl in Ht. subst opt. cbn [negb orb length] in *.
    assert (Hin : (S nth <=? i)%nat = true) by (apply Nat.leb_le; lia).
    rewrite Hin.
    destruct (test r) as [| |m1 r1 p1]; try reflexivity.
    rewrite IH by lia. destruct (seqT (map snd opts) r1) as [| |m2 r2 p2]; try reflexivity.
    now rewrite app_length, Nat.add_assoc, app_assoc.
Qed.

Lemma Forall_splits_map_snd : forall ts : list tester,
  Forall (fun t => splits (snd t)) ts -> Forall splits (map snd ts).
Proof. induction 1; simpl; constructor; auto. Qed.

Lemma tuple_loop_unfold : forall t ts i q,
  tuple_loop t ts i q =
  match pass_first t ts i q with
  | PFail => TNone
  | PPanic => TPanic
  | PDone r mlen ps => TSome (firstn mlen q) r ps
  | PRetry => match i with O => TNone | S i' => tuple_loop t ts i' q end
  end.
Proof. intros. destruct i; reflexivity. Qed.

(** first field not optional *)
Lemma tuple_loop_pre_fail :
  forall (test : bytes -> tres) pre opts q m r' p,
    Forall (fun t : tester => fst t = false) pre ->
    test q = TSome m r' p -> seqT (map snd pre) r' = TNone ->
    forall i, tuple_loop (false, test) (pre ++ opts) i q = TNone.
Proof.
  intros test pre opts q m r' p Hpre Ht Hf.
  induction i as [|i IH]; cbn [tuple_loop pass_first negb orb]; rewrite Ht, pass_rest_pre, Hf by assumption.
  - reflexivity.
  - cbn [Nat.eqb]. exact IH.
Qed.

Lemma tuple_loop_opt_tail :
  forall (t : tester) ts pre opts,
    t :: ts = pre ++ opts ->
    Forall (fun t : tester => fst t = false) pre ->
    Forall (fun t : tester => fst t = true) opts ->
    Forall (fun t : tester => splits (snd t)) (t :: ts) ->
    forall q, tuple_loop t ts (length opts) q = seqT (map snd (t :: ts)) q.
Proof.
  intros t ts pre opts Heq Hpre Hopts Hsp q. unfold tester in *.
  assert (Hsplit : splits (seqT (map snd (t :: ts)))).
  { apply seqT_splits. now apply Forall_splits_map_snd. }
  destruct pre as [|[o a] pre'].
  - (* the tuple starts with an optional *)
    cbn [app] in Heq. destruct opts as [|[o test] opts']; [discriminate|].
    injection Heq as -> ->. inversion Hopts as [|? ? Ho Hopts']; subst. simpl in Ho. subst o.
    cbn [length tuple_loop pass_first negb orb Nat.leb map seqT snd] in *.
    destruct (test q) as [| |m1 r1 p1] eqn:Et; try reflexivity.
    rewrite (pass_rest_opts opts' Hopts' (S (length opts')) 1%nat _ _ _ (le_n _)).
    match goal with |- context [seqT ?X r1] => destruct (seqT X r1) as [| |m2 r2 p2] eqn:E2 end;
      try reflexivity.
    f_equal.
    assert (Hq : (m1 ++ m2) ++ r2 = q).
    { apply (Hsplit q (m1 ++ m2) r2 (p1 ++ p2)). now rewrite Et, E2. }
    rewrite <- Hq at 1. rewrite <- app_length. apply firstn_app_len.
  - (* it starts with a non-optional field *)
    cbn [app] in Heq. injection Heq as -> ->.
    inversion Hpre as [|? ? Ho Hpre']; subst. simpl in Ho. subst o.
    cbn [map seqT snd] in *.
    destruct (a q) as [| |m1 r1 p1] eqn:Ea.
    + destruct (length opts); cbn [tuple_loop pass_first negb orb]; rewrite Ea; reflexivity.
    + destruct (length opts); cbn [tuple_loop pass_first negb orb]; rewrite Ea; reflexivity.
    + rewrite map_app, seqT_app.
      match goal with |- context [seqT ?X r1] => destruct (seqT X r1) as [| |m2 r2 p2] eqn:Ep end.
      * eapply tuple_loop_pre_fail; eauto.
      * rewrite tuple_loop_unfold. cbn [pass_first negb orb].
        now rewrite Ea, pass_rest_pre, Ep by assumption.
      * rewrite tuple_loop_unfold. cbn [pass_first negb orb].
        rewrite Ea, pass_rest_pre, Ep by assumption.
        rewrite (pass_rest_opts opts Hopts (length opts) 0%nat _ _ _ (le_n _)).
        match goal with |- context [seqT ?X r2] => destruct (seqT X r2) as [| |m3 r3 p3] eqn:Eo end;
          try reflexivity.
        rewrite !app_assoc. f_equal.
        assert (Hq : (m1 ++ m2 ++ m3) ++ r3 = q).
        { apply (Hsplit q _ r3 (p1 ++ p2 ++ p3)). rewrite Ea, map_app, seqT_app, Ep, Eo. reflexivity. }
        rewrite <- Hq at 1. rewrite <- !app_length, <- app_assoc. apply firstn_app_len.
Qed.

Lemma opt_tail_split : forall l, opt_tail_list l = true ->
  exists pre opts, l = pre ++ opts
    /\ Forall (fun x => seg_optional x = false) pre
    /\ Forall (fun x => is_sopt x = true) opts.
Proof.
  induction l as [|x l IH]; intros H.
  - exists [], []. repeat split; constructor.
  - cbn [opt_tail_list] in H. destruct (seg_optional x) eqn:Ex.
    + exists [], (x :: l). repeat split; [constructor|].
      apply Forall_forall. now apply forallb_forall.
    + destruct (IH H) as (pre & opts & -> & Hp & Ho).
      exists (x :: pre), opts. repeat split; [constructor; assumption|assumption].
Qed.

Lemma is_sopt_optional : forall x, is_sopt x = true -> seg_optional x = true.
Proof. destruct x; try discriminate; reflexivity. Qed.

Theorem flatten_seg_opt :
  forall s, opt_tail_seg s = true ->
  forall q, seg_test s q = seqT (map seg_test (leaf_list s)) q.
Proof.
  intros s Hs q.
  destruct s as [t|n|n|n| |l]; try (cbn [leaf_list map]; now rewrite seqT_single).
  cbn [opt_tail_seg] in Hs. destruct (opt_tail_split l Hs) as (pre & opts & Hl & Hpre & Hopts).
  assert (Hall : Forall (fun x => forall q, seg_test x q = seqT (map seg_test (leaf_list x)) q) l).
  { subst l. apply Forall_app. split.
    - eapply Forall_impl; [|exact Hpre]. intros x Hx. now apply flatten_seg.
    - eapply Forall_impl; [|exact Hopts]. intros x Hx q0.
      destruct x; try discriminate. cbn [leaf_list map]. now rewrite seqT_single. }
  cbn [leaf_list]. rewrite <- seqT_flat.
  rewrite <- (seqT_ext _ seg_test _ l Hall).
  cbn [seg_test].
  destruct l as [|a l']; [reflexivity|].
  destruct l' as [|b l''].
  - cbn [map]. rewrite seqT_single.
    destruct (seg_test a q) as [| |m r p] eqn:E; try reflexivity.
    apply seg_test_partition in E. subst q. now rewrite firstn_app_len.
  - set (F := fun x : seg => (seg_optional x, seg_test x)).
    assert (Hts : map F (a :: b :: l'') = map F pre ++ map F opts) by (now rewrite Hl, map_app).
    assert (Hc : count_opt (map F (a :: b :: l'')) = length (map F opts)).
    { rewrite Hts. unfold count_opt. rewrite filter_app, app_length.
      assert (H1 : filter fst (map F pre) = []).
      { clear -Hpre. induction Hpre as [|x pre Hx Hp IH]; [reflexivity|].
        cbn [map filter F fst]. now rewrite Hx. }
      assert (H2 : filter fst (map F opts) = map F opts).
      { clear -Hopts. induction Hopts as [|x opts Hx Ho IH]; [reflexivity|].
        cbn [map filter F fst]. rewrite (is_sopt_optional _ Hx). now rewrite IH. }
      now rewrite H1, H2. }
    change (map (fun x : seg => (seg_optional x, seg_test x)) (a :: b :: l''))
      with (map F (a :: b :: l'')).
    remember (map F (a :: b :: l'')) as ts eqn:Ets.
    destruct ts as [|t ts]; [discriminate|]. destruct ts as [|t2 ts]; [discriminate|].
    destruct t as [o1 f1]. cbn beta iota.
    rewrite Hc.
    rewrite (tuple_loop_opt_tail (o1, f1) (t2 :: ts) (map F pre) (map F opts)).
    + transitivity (seqT (map snd (map F (a :: b :: l''))) q);
        [f_equal; f_equal; exact Ets|rewrite map_map; reflexivity].
    + exact Hts.
    + clear -Hpre. induction Hpre; simpl; constructor; auto.
    + clear -Hopts. induction Hopts as [|x opts Hx Ho IH]; simpl; constructor; auto.
      cbn [F fst]. now apply is_sopt_optional.
    + assert (Hg : Forall (fun t0 : tester => splits (snd t0)) (map F (a :: b :: l''))).
      { generalize (a :: b :: l''). intros l0. induction l0; simpl; constructor; auto.
        cbn [F snd]. intros p m r ps. apply seg_test_partition. }
      now rewrite <- Ets in Hg.
Qed.

(** ================================================================================
    Part B' — route trees whose optionals sit in that placement are still the ordered list
    of their chains (the optional-parent fallback never fires)
    ================================================================================ *)
Fixpoint route_ok (r : route) : bool :=
  match r with
  | Route s None => opt_tail_seg s
  | Route s (Some ks) =>
      negb (seg_optional s) && match ks with [] => false | _ => true end && forallb route_ok ks
  end.

Lemma route_ok_of : forall r, opt_ok_route r = true -> wf_tree_r r = true -> route_ok r = true.
Proof.
  induction r using route_ind'; intros Ho Hw; cbn [opt_ok_route wf_tree_r route_ok] in *; [exact Ho|].
  apply andb_prop in Ho. destruct Ho as [Hs Hks]. apply andb_prop in Hw. destruct Hw as [Hne Hwks].
  rewrite Hs, Hne. cbn [andb].
  clear Hs Hne. induction H as [|k ks Hk Hl IH]; [reflexivity|].
  cbn [forallb] in *. apply andb_prop in Hks. destruct Hks as [H1 H2].
  apply andb_prop in Hwks. destruct Hwks as [H3 H4]. rewrite Hk, IH; auto.
Qed.

Lemma chain_route_nonempty_ok : forall r, route_ok r = true -> chain_route r <> [].
Proof.
  induction r using route_ind'; intros Hp; cbn [chain_route]; [discriminate|].
  cbn [route_ok] in Hp. apply andb_prop in Hp. destruct Hp as [Hp Hks].
  apply andb_prop in Hp. destruct Hp as [_ Hne].
  destruct ks as [|k ks]; [discriminate|].
  inversion H; subst. cbn [forallb] in Hks. apply andb_prop in Hks. destruct Hks as [Hk _].
  cbn [flat_map]. intros Hc. apply map_eq_nil in Hc. apply app_eq_nil in Hc.
  destruct Hc as [Hc _]. now apply H2 in Hk.
Qed.

Lemma forest_chains_ok :
  forall ks,
    Forall (fun r => route_ok r = true ->
                     forall id q, oproj (match_nested r id q) = first_chain (chain_route r) q) ks ->
    forallb route_ok ks = true ->
    forall id q, oproj (first_match match_nested ks id q) = first_chain (flat_map chain_route ks) q.
Proof.
  induction 1 as [|k ks Hk Hks IH]; intros Hp id q; cbn [first_match flat_map].
  - reflexivity.
  - cbn [forallb] in Hp. apply andb_prop in Hp. destruct Hp as [Hpk Hpks].
    rewrite first_chain_app, <- (Hk Hpk id q).
    destruct (match_nested k id q); cbn [oproj]; auto.
Qed.

Theorem route_chains_ok :
  forall r, route_ok r = true ->
  forall id q, oproj (match_nested r id q) = first_chain (chain_route r) q.
Proof.
  induction r using route_ind'; intros Hp id q; cbn [match_nested chain_route];
    unfold nested_step.
  - cbn [route_ok] in Hp.
    rewrite (flatten_seg_opt s Hp q). cbn [first_chain].
    destruct (seqT (map seg_test (leaf_list s)) q) as [| |m r ps]; try reflexivity.
    unfold nested_finish. destruct (rem_ok r); cbn [oproj]; now rewrite ?app_nil_r.
  - cbn [route_ok] in Hp. apply andb_prop in Hp. destruct Hp as [Hp Hks].
    apply andb_prop in Hp. destruct Hp as [Hs Hne]. apply negb_true_iff in Hs.
    pose proof (forest_chains_ok ks H Hks) as HF.
    rewrite (flatten_seg s Hs q).
    destruct (seqT (map seg_test (leaf_list s)) q) as [| |m r ps] eqn:E.
    + now rewrite first_chain_prefix_none.
    + rewrite first_chain_prefix_panic; auto.
      destruct ks as [|k ks]; [discriminate|].
      inversion H; subst. cbn [forallb] in Hks. apply andb_prop in Hks. destruct Hks as [Hk _].
      cbn [flat_map]. intros Hc. apply app_eq_nil in Hc. destruct Hc as [Hc _].
      now apply chain_route_nonempty_ok in Hk.
    + rewrite (first_chain_prefix_some _ _ _ _ _ _ E), <- (HF (S id) r).
      destruct (first_match match_nested ks (S id) r) as [| |ch ips rem] eqn:E2; cbn [oproj].
      * reflexivity.
      * now rewrite Hs.
      * unfold nested_finish.
        assert (rem_ok rem = true) as ->; [|reflexivity].
        eapply first_chain_rem_ok. rewrite <- (HF (S id) r), E2. reflexivity.
Qed.

Corollary siblings_chains_ok :
  forall rs, forallb route_ok rs = true ->
  forall id q, oproj (match_siblings rs id q) = first_chain (chains rs) q.
Proof.
  intros rs Hp id q. apply forest_chains_ok; [|exact Hp].
  apply Forall_forall. intros r _ Hr. now apply route_chains_ok.
Qed.

(** ================================================================================
    Part C' — the optional tail: greedy matching of the optionals agrees with "some
    subset of them, kept as params, matches" (the expansions of the table)
    ================================================================================ *)
Fixpoint psubsets (ns : list bytes) : list (list bytes) :=
  match ns with
  | [] => [[]]
  | n :: t => map (cons n) (psubsets t) ++ psubsets t
  end.

Lemma expand_popts : forall ns,
  expand_optionals (map POpt ns) = map (map PParam) (psubsets ns).
Proof.
  induction ns as [|n ns IH]; [reflexivity|].
  cbn [map expand_optionals psubsets]. rewrite IH, map_app, !map_map. reflexivity.
Qed.

Lemma expand_app_noopt : forall A B, existsb is_popt A = false ->
  expand_optionals (A ++ B) = map (app A) (expand_optionals B).
Proof.
  induction A as [|x A IH]; intros B H.
  - cbn [app]. symmetry. erewrite map_ext; [apply map_id|reflexivity].
  - cbn [existsb] in H. apply orb_false_iff in H. destruct H as [Hx HA].
    destruct x; cbn [is_popt] in Hx; try discriminate;
      cbn [app expand_optionals]; rewrite (IH B HA), map_map; reflexivity.
Qed.

Lemma psubsets_spec : forall ns S, In S (psubsets ns) ->
  (forall n, In n S -> In n ns) /\ (ns = [] -> S = []).
Proof.
  induction ns as [|n ns IH]; intros S H.
  - cbn in H. destruct H as [<-|[]]. split; auto.
  - cbn [psubsets] in H. apply in_app_or in H. split; [|discriminate].
    destruct H as [H|H].
    + apply in_map_iff in H. destruct H as (S0 & <- & H0). destruct (IH _ H0) as [I1 _].
      intros m [<-|Hm]; [now left|right; auto].
    + destruct (IH _ H) as [I1 _]. intros m Hm. right. auto.
Qed.

Lemma psubsets_nil_in : forall ns, In [] (psubsets ns).
Proof. induction ns; cbn [psubsets]; [now left|]. apply in_or_app. now right. Qed.

(** ---- OptionalParamSegment / ParamSegment at a component boundary ---- *)
Definition comp_split (r : bytes) : option (bytes * bytes) :=
  match r with
  | c :: q1 =>
      if c =? slash then
        match run_len q1 with
        | O => None
        | S _ => Some (firstn (run_len q1) q1, skipn (run_len q1) q1)
        end
      else None
  | [] => None
  end.

Lemma opt_test_boundary : forall n r, at_boundary r = true ->
  seg_test (SOpt n) r =
  match comp_split r with
  | Some (v, r1) => TSome (slash :: v) r1 [(n, v)]
  | None => TSome [] r []
  end.
Proof.
  intros n [|c q1] Hb; [reflexivity|]. cbn [at_boundary] in Hb.
  cbn [seg_test comp_split]. rewrite Hb. apply N.eqb_eq in Hb. subst c.
  unfold param_like, after_first. rewrite N.eqb_refl.
  destruct (run_len q1) as [|k] eqn:E; [reflexivity|].
  cbn [Nat.add Nat.eqb andb].
  change (is_boundary (slash :: q1) (S (S k))) with (is_boundary q1 (S k)).
  rewrite <- E, is_boundary_run. reflexivity.
Qed.

Lemma param_test_comp : forall n r, at_boundary r = true ->
  seg_test (SParam n) r =
  match comp_split r with
  | Some (v, r1) => TSome (slash :: v) r1 [(n, v)]
  | None => TNone
  end.
Proof.
  intros n [|c q1] Hb; [reflexivity|]. cbn [at_boundary] in Hb.
  cbn [seg_test comp_split]. rewrite Hb. apply N.eqb_eq in Hb. subst c.
  rewrite param_test_boundary. destruct (run_len q1); reflexivity.
Qed.

Lemma comp_split_boundary : forall r v r1, comp_split r = Some (v, r1) ->
  at_boundary r1 = true /\ rem_ok r = false.
Proof.
  intros [|c q1] v r1 H; [discriminate|]. cbn [comp_split] in H.
  destruct (c =? slash) eqn:Ec; [|discriminate].
  destruct (run_len q1) as [|k] eqn:E; [discriminate|]. rewrite <- E in H.
  injection H as _ <-. split; [apply skipn_run_boundary|].
  destruct q1 as [|d q1]; [discriminate|]. reflexivity.
Qed.

Lemma good_cons_some : forall x X r m r1 ps,
  seg_test x r = TSome m r1 ps -> good r (x :: X) = good r1 X.
Proof.
  intros x X r m r1 ps H. unfold good. cbn [map seqT]. rewrite H.
  destruct (seqT (map seg_test X) r1); reflexivity.
Qed.

Lemma good_cons_none : forall x X r, seg_test x r = TNone -> good r (x :: X) = false.
Proof. intros x X r H. unfold good. cbn [map seqT]. now rewrite H. Qed.

Lemma good_app : forall A B q,
  good q (A ++ B) =
  match seqT (map seg_test A) q with TSome _ r _ => good r B | _ => false end.
Proof.
  intros A B q. unfold good. rewrite map_app, seqT_app.
  destruct (seqT (map seg_test A) q) as [| |m r ps]; try reflexivity.
  destruct (seqT (map seg_test B) r); reflexivity.
Qed.

Definition E (r : bytes) (ns : list bytes) : bool :=
  existsb (fun S => good r (map SParam S)) (psubsets ns).

Lemma existsb_const_false : forall (A : Type) (l : list A), existsb (fun _ => false) l = false.
Proof. induction l; auto. Qed.

Lemma E_cons : forall r n ns, at_boundary r = true ->
  E r (n :: ns) =
  match comp_split r with
  | Some (_, r1) => E r1 ns || E r ns
  | None => E r ns
  end.
Proof.
  intros r n ns Hb. unfold E. cbn [psubsets]. rewrite existsb_app, existsb_map.
  pose proof (param_test_comp n r Hb) as Hp.
  destruct (comp_split r) as [[v r1]|].
  - f_equal. apply existsb_ext_in. intros S _. cbn [map]. eapply good_cons_some; eauto.
  - assert (Hf : existsb (fun x => good r (map SParam (n :: x))) (psubsets ns) = false).
    { rewrite <- (existsb_const_false _ (psubsets ns)). apply existsb_ext_in.
      intros S _. cbn [map]. now apply good_cons_none. }
    now rewrite Hf.
Qed.

Lemma E_mono : forall ns r v r1, at_boundary r = true -> comp_split r = Some (v, r1) ->
  E r ns = true -> E r1 ns = true.
Proof.
  induction ns as [|n ns IH]; intros r v r1 Hb Hc H.
  - unfold E, good in H. cbn in H. rewrite orb_false_r in H.
    apply comp_split_boundary in Hc. destruct Hc as [_ Hc]. congruence.
  - destruct (comp_split_boundary _ _ _ Hc) as [Hb1 _].
    rewrite (E_cons r n ns Hb), Hc in H. rewrite (E_cons r1 n ns Hb1).
    assert (H1 : E r1 ns = true).
    { apply orb_prop in H. destruct H as [H|H]; [exact H|]. exact (IH r v r1 Hb Hc H). }
    destruct (comp_split r1) as [[v2 r2]|]; [|exact H1]. rewrite H1. apply orb_true_r.
Qed.

Theorem opt_tail_good : forall ns r, at_boundary r = true ->
  good r (map SOpt ns) = E r ns.
Proof.
  induction ns as [|n ns IH]; intros r Hb.
  - unfold E. cbn. now rewrite orb_false_r.
  - rewrite (E_cons r n ns Hb). cbn [map].
    pose proof (opt_test_boundary n r Hb) as Ho.
    destruct (comp_split r) as [[v r1]|] eqn:Ec.
    + destruct (comp_split_boundary _ _ _ Ec) as [Hb1 _].
      rewrite (good_cons_some _ _ _ _ _ _ Ho), (IH r1 Hb1).
      destruct (E r1 ns) eqn:E1; [reflexivity|]. cbn [orb].
      destruct (E r ns) eqn:E2; [|reflexivity].
      rewrite (E_mono ns r v r1 Hb Ec E2) in E1. discriminate.
    + rewrite (good_cons_some _ _ _ _ _ _ Ho). now apply IH.
Qed.

Lemma opt_tail_no_panic : forall ns r, at_boundary r = true ->
  seqT (map seg_test (map SOpt ns)) r <> TPanic.
Proof.
  induction ns as [|n ns IH]; intros r Hb; [discriminate|].
  cbn [map seqT]. rewrite (opt_test_boundary n r Hb).
  destruct (comp_split r) as [[v r1]|] eqn:Ec.
  - destruct (comp_split_boundary _ _ _ Ec) as [Hb1 _]. specialize (IH r1 Hb1).
    destruct (seqT (map seg_test (map SOpt ns)) r1); congruence.
  - specialize (IH r Hb). destruct (seqT (map seg_test (map SOpt ns)) r); congruence.
Qed.

(** what the greedy tail binds: the params of the first [j] optionals, for some [j] *)
Lemma opt_tail_prefix : forall ns r, at_boundary r = true ->
  exists j, tproj (seqT (map seg_test (map SOpt ns)) r)
            = tproj (seqT (map seg_test (map SParam (firstn j ns))) r).
Proof.
  induction ns as [|n ns IH]; intros r Hb; [exists 0%nat; reflexivity|].
  destruct (comp_split r) as [[v r1]|] eqn:Ec.
  - destruct (comp_split_boundary _ _ _ Ec) as [Hb1 _]. destruct (IH r1 Hb1) as [j Hj].
    exists (S j). cbn [firstn map seqT].
    rewrite (opt_test_boundary n r Hb), (param_test_comp n r Hb), Ec.
    destruct (seqT (map seg_test (map SOpt ns)) r1);
      destruct (seqT (map seg_test (map SParam (firstn j ns))) r1);
      cbn [tproj] in *; congruence.
  - exists 0%nat.
    assert (H : forall ms, seqT (map seg_test (map SOpt ms)) r = TSome [] r []).
    { induction ms as [|m ms IHm]; [reflexivity|]. cbn [map seqT].
      rewrite (opt_test_boundary m r Hb), Ec, IHm. reflexivity. }
    now rewrite H.
Qed.

(** ---- chains of such trees: optional-free leaves, then optionals ---- *)
Lemma flat_map_leaf_sopts : forall ns, flat_map leaf_list (map SOpt ns) = map SOpt ns.
Proof. induction ns as [|n ns IH]; [reflexivity|]. cbn [map flat_map leaf_list app]. now rewrite IH. Qed.

Lemma all_sopt_names : forall l, Forall (fun x => is_sopt x = true) l -> exists ns, l = map SOpt ns.
Proof.
  induction 1 as [|x l Hx Hl [ns ->]]; [now exists []|].
  destruct x; try discriminate. now exists (n :: ns).
Qed.

Lemma no_sopt_leaves : forall s, seg_optional s = false ->
  Forall (fun x => is_sopt x = false) (leaf_list s).
Proof.
  induction s using seg_ind'; intros Hs; try (repeat constructor); try discriminate.
  cbn [seg_optional] in Hs. apply existsb_false_forall in Hs. cbn [leaf_list].
  induction H as [|x l Hx Hl IH]; [constructor|]. inversion Hs; subst.
  cbn [flat_map]. apply Forall_app. split; auto.
Qed.

Lemma leaf_decomp : forall s, opt_tail_seg s = true ->
  exists L0 ns, leaf_list s = L0 ++ map SOpt ns /\ Forall (fun x => is_sopt x = false) L0.
Proof.
  intros s Hs. destruct s as [t|n|n|n| |l].
  - exists [SStatic t], []. split; [reflexivity|repeat constructor].
  - exists [SParam n], []. split; [reflexivity|repeat constructor].
  - exists [], [n]. split; [reflexivity|constructor].
  - exists [SWild n], []. split; [reflexivity|repeat constructor].
  - exists [SUnit], []. split; [reflexivity|repeat constructor].
  - cbn [opt_tail_seg] in Hs. destruct (opt_tail_split l Hs) as (pre & opts & -> & Hpre & Hopts).
    destruct (all_sopt_names _ Hopts) as [ns ->].
    exists (flat_map leaf_list pre), ns. split.
    + cbn [leaf_list]. now rewrite flat_map_app, flat_map_leaf_sopts.
    + clear -Hpre. induction Hpre as [|x pre Hx Hp IH]; [constructor|].
      cbn [flat_map]. apply Forall_app. split; [now apply no_sopt_leaves|exact IH].
Qed.

Lemma chain_decomp : forall r, route_ok r = true ->
  forall L, In L (chain_route r) ->
  exists L0 ns, L = L0 ++ map SOpt ns /\ Forall (fun x => is_sopt x = false) L0.
Proof.
  induction r using route_ind'; intros Hr L HL; cbn [chain_route route_ok] in *.
  - destruct HL as [<-|[]]. now apply leaf_decomp.
  - apply andb_prop in Hr. destruct Hr as [Hr Hks]. apply andb_prop in Hr. destruct Hr as [Hs _].
    apply negb_true_iff in Hs.
    apply in_map_iff in HL. destruct HL as (L' & <- & HL').
    apply in_flat_map in HL'. destruct HL' as (k & Hk & HLk).
    rewrite Forall_forall in H. rewrite forallb_forall in Hks.
    destruct (H k Hk (Hks k Hk) L' HLk) as (L0 & ns & -> & Hn).
    exists (leaf_list s ++ L0), ns. split; [now rewrite app_assoc|].
    apply Forall_app. split; [now apply no_sopt_leaves|exact Hn].
Qed.

Lemma gen_sopts : forall ns, flat_map gen_path (map SOpt ns) = map POpt ns.
Proof. induction ns as [|n ns IH]; [reflexivity|]. cbn [map flat_map gen_path app]. now rewrite IH. Qed.

Lemma gen_sparams : forall S, flat_map gen_path (map SParam S) = map PParam S.
Proof. induction S as [|n S IH]; [reflexivity|]. cbn [map flat_map gen_path app]. now rewrite IH. Qed.

Lemma gen_nosopt : forall L0, Forall (fun x => is_leaf x = true) L0 ->
  Forall (fun x => is_sopt x = false) L0 -> existsb is_popt (flat_map gen_path L0) = false.
Proof.
  induction 1 as [|x L0 Hx HL IH]; intros Hn; [reflexivity|]. inversion Hn; subst.
  cbn [flat_map]. rewrite existsb_app, (IH H2), orb_false_r.
  destruct x; try discriminate; reflexivity.
Qed.

Lemma wf_flat_params : forall S, wf_flat (map PParam S) = forallb name_ok S.
Proof. induction S as [|n S IH]; [reflexivity|]. cbn [map wf_flat forallb]. now rewrite IH. Qed.

Lemma wf_flat_popts : forall ns, wf_flat (map POpt ns) = forallb name_ok ns.
Proof. induction ns as [|n ns IH]; [reflexivity|]. cbn [map wf_flat forallb]. now rewrite IH. Qed.

Lemma wf_flat_sub : forall A ns S,
  wf_flat (A ++ map POpt ns) = true -> In S (psubsets ns) -> wf_flat (A ++ map PParam S) = true.
Proof.
  induction A as [|x A IH]; intros ns S Hw HS.
  - cbn [app] in *. rewrite wf_flat_popts in Hw. rewrite wf_flat_params.
    apply forallb_forall. intros n Hn. rewrite forallb_forall in Hw. apply Hw.
    now apply (proj1 (psubsets_spec ns S HS)).
  - destruct x; cbn [app wf_flat] in *;
      try (apply andb_prop in Hw; destruct Hw as [Hn Hw]; rewrite Hn; cbn [andb]);
      try (now apply (IH ns S)).
    destruct (A ++ map POpt ns) as [|y l] eqn:El; [|discriminate].
    apply app_eq_nil in El. destruct El as [-> Hns]. apply map_eq_nil in Hns.
    now rewrite (proj2 (psubsets_spec ns S HS) Hns).
Qed.

Lemma ssf_params : forall S, slash_static_flat (map PParam S) = false.
Proof. induction S as [|n S IH]; [reflexivity|]. exact IH. Qed.

Lemma ssf_sub : forall A ns S,
  slash_static_flat (A ++ map POpt ns) = false -> In S (psubsets ns) ->
  slash_static_flat (A ++ map PParam S) = false.
Proof.
  induction A as [|x A IH]; intros ns S Hs HS.
  - apply ssf_params.
  - destruct x; cbn [app slash_static_flat] in *; try (now apply (IH ns S)).
    apply orb_false_iff in Hs. destruct Hs as [Hs Hrest].
    apply orb_false_iff in Hs. destruct Hs as [Htl Hsl].
    rewrite Htl, (IH ns S Hrest HS), orb_false_r. cbn [orb].
    destruct (bytes_eqb s [slash]); [|reflexivity]. cbn [andb] in *.
    apply negb_false_iff in Hsl. rewrite forallb_app in Hsl. apply andb_prop in Hsl.
    destruct Hsl as [HA Hns].
    assert (ns = []) as -> by (destruct ns; [reflexivity|discriminate]).
    rewrite (proj2 (psubsets_spec [] S HS) eq_refl). cbn [map]. rewrite app_nil_r, HA. reflexivity.
Qed.

Lemma core_in_params : forall cores S, Forall (core_in cores) (map SParam S).
Proof. induction S; simpl; constructor; simpl; auto. Qed.

(** after a chain that can be followed by a param, the remainder is again at a boundary *)
Lemma tame_app_inv :
  forall cores n L0,
    tame_chain (L0 ++ [SParam n]) = true -> Forall (core_in cores) L0 ->
    forall q m r ps, Inv cores q -> seqT (map seg_test L0) q = TSome m r ps -> Inv cores r.
Proof.
  intros cores n. induction L0 as [|x L0 IH]; intros Ht Hc q m r ps Hq HS.
  - cbn in HS. now inversion HS; subst.
  - inversion Hc as [|? ? Hx HL]; subst. cbn [map seqT] in HS.
    destruct (seg_test x q) as [| |m1 r1 p1] eqn:Ex; try discriminate.
    destruct (seqT (map seg_test L0) r1) as [| |m2 r2 p2] eqn:E2; try discriminate.
    inversion HS; subst.
    assert (Hgo : tame_chain (L0 ++ [SParam n]) = true -> Inv cores r1 -> Inv cores r)
      by (intros H1 H2; eapply IH; eauto).
    destruct Hq as [Hb Hk].
    destruct x as [t|n0|n0|n0| |l]; cbn [app tame_chain] in Ht; try discriminate.
    + destruct (bytes_eqb t [slash]).
      * rewrite forallb_app in Ht. apply andb_prop in Ht. destruct Ht as [_ Ht]. discriminate.
      * apply andb_prop in Ht. destruct Ht as [Hts HtL]. apply Hgo; [exact HtL|].
        cbn [seg_test] in Ex. destruct t as [|c0 t0].
        -- rewrite static_test_empty in Ex. inversion Ex; subst. split; assumption.
        -- cbn [tame_static] in Hts.
           destruct q as [|c q1]; [now rewrite (static_test_tame_nil _ Hts) in Ex|].
           cbn [at_boundary] in Hb. apply N.eqb_eq in Hb. subst c.
           rewrite (static_test_tame _ _ Hts) in Ex.
           destruct (is_prefix (static_core (c0 :: t0)) q1) eqn:Ep; [|discriminate].
           injection Ex as _ Hr1 _. subst r1.
           assert (Hin : In (static_core (c0 :: t0)) cores) by (apply Hx; exact Hts).
           cbn [kb] in Hk. rewrite N.eqb_refl in Hk. cbn [andb] in Hk.
           apply orb_false_iff in Hk. destruct Hk as [Hbad Hk1].
           pose proof (existsb_false_in _ _ _ _ Hbad Hin) as Hall.
           pose proof (is_prefix_split _ _ Ep) as Hsp.
           unfold static_core in *. split.
           ++ unfold bad_at in Hall. rewrite Ep in Hall. cbn [andb] in Hall.
              match goal with |- at_boundary ?X = true => destruct X as [|c rr] end; [reflexivity|].
              cbn [at_boundary]. now apply negb_false_iff in Hall.
           ++ rewrite Hsp in Hk1. now apply kb_suffix in Hk1.
    + apply andb_prop in Ht. destruct Ht as [_ HtL]. apply Hgo; [exact HtL|].
      cbn [seg_test] in Ex. destruct q as [|c q1]; [discriminate|].
      cbn [at_boundary] in Hb. apply N.eqb_eq in Hb. subst c.
      rewrite param_test_boundary in Ex.
      destruct (run_len q1) as [|k] eqn:Ek; [discriminate|]. rewrite <- Ek in Ex.
      inversion Ex; subst. split; [apply skipn_run_boundary|].
      apply (kb_suffix cores (slash :: firstn (run_len q1) q1)). cbn [app]. now rewrite firstn_skipn.
    + apply andb_prop in Ht. destruct Ht as [_ Ht].
      rewrite forallb_app in Ht. apply andb_prop in Ht. destruct Ht as [_ Ht]. discriminate.
    + cbn [seg_test] in Ex. inversion Ex; subst. apply Hgo; [exact Ht|]. split; assumption.
Qed.

(** the central fact about one chain *)
Lemma chain_opt :
  forall cores L0 ns q,
    Forall (fun x => is_leaf x = true) L0 -> Forall (fun x => is_sopt x = false) L0 ->
    wf_flat (flat_map gen_path (L0 ++ map SOpt ns)) = true ->
    slash_static_flat (flat_map gen_path (L0 ++ map SOpt ns)) = false ->
    Forall (core_in cores) L0 -> Inv cores q ->
    seqT (map seg_test (L0 ++ map SOpt ns)) q <> TPanic
    /\ good q (L0 ++ map SOpt ns)
       = existsb (flat_good q) (expand_optionals (flat_map gen_path (L0 ++ map SOpt ns))).
Proof.
  intros cores L0 ns q Hleaf Hnos Hwf Hss Hcores Hq.
  set (A := flat_map gen_path L0).
  assert (HA : existsb is_popt A = false) by (now apply gen_nosopt).
  rewrite flat_map_app, gen_sopts in Hwf, Hss |- *. fold A in Hwf, Hss |- *.
  (* every expansion is the table entry of an optional-free tame chain *)
  assert (Hsub : forall S, In S (psubsets ns) ->
            tproj (seqT (map seg_test (L0 ++ map SParam S)) q)
            = Some (spre (toks (A ++ map PParam S)) q)).
  { intros S HS.
    assert (Hg : flat_map gen_path (L0 ++ map SParam S) = A ++ map PParam S)
      by (now rewrite flat_map_app, gen_sparams).
    rewrite <- Hg. apply (chain_spre cores).
    - apply tame_from_flat.
      + apply Forall_app. split; [exact Hleaf|]. clear. induction S; simpl; constructor; auto.
      + rewrite Hg, existsb_app, HA. clear. induction S; auto.
      + rewrite Hg. eapply wf_flat_sub; eauto.
      + rewrite Hg. eapply ssf_sub; eauto.
    - apply Forall_app. split; [exact Hcores|apply core_in_params].
    - exact Hq. }
  (* the table side, expansion by expansion *)
  assert (Hflat : existsb (flat_good q) (expand_optionals (A ++ map POpt ns))
                  = existsb (fun S => good q (L0 ++ map SParam S)) (psubsets ns)).
  { rewrite (expand_app_noopt _ _ HA), expand_popts, !existsb_map.
    apply existsb_ext_in. intros S HS. specialize (Hsub S HS). unfold flat_good, good.
    destruct (seqT (map seg_test (L0 ++ map SParam S)) q) as [| |m r ps]; cbn [tproj] in Hsub.
    - injection Hsub as <-. reflexivity.
    - discriminate.
    - injection Hsub as <-. reflexivity. }
  rewrite Hflat.
  (* the optional-free part does not panic *)
  pose proof (Hsub [] (psubsets_nil_in ns)) as H0. cbn [map] in H0. rewrite app_nil_r in H0.
  rewrite map_app, seqT_app, good_app.
  destruct (seqT (map seg_test L0) q) as [| |m r ps] eqn:E0; cbn [tproj] in H0.
  - split; [discriminate|].
    rewrite (existsb_ext_in _ _ (fun _ => false)); [now rewrite existsb_const_false|].
    intros S _. now rewrite good_app, E0.
  - discriminate.
  - assert (Hrest : existsb (fun S => good q (L0 ++ map SParam S)) (psubsets ns) = E r ns).
    { unfold E. apply existsb_ext_in. intros S _. now rewrite good_app, E0. }
    rewrite Hrest.
    destruct ns as [|n ns'].
    + split.
      * cbn [map seqT]. discriminate.
      * unfold E. cbn. now rewrite orb_false_r.
    + (* a param can follow the optional-free part, so its remainder is at a boundary *)
      assert (Hin1 : In [n] (psubsets (n :: ns'))).
      { cbn [psubsets]. apply in_or_app. left. apply in_map. apply psubsets_nil_in. }
      assert (Ht1 : tame_chain (L0 ++ [SParam n]) = true).
      { change [SParam n] with (map SParam [n]).
        apply tame_from_flat.
        - apply Forall_app. split; [exact Hleaf|repeat constructor].
        - rewrite flat_map_app, gen_sparams, existsb_app. fold A. now rewrite HA.
        - rewrite flat_map_app, gen_sparams. fold A. eapply wf_flat_sub; eauto.
        - rewrite flat_map_app, gen_sparams. fold A. eapply ssf_sub; eauto. }
      destruct (tame_app_inv cores n L0 Ht1 Hcores q m r ps Hq E0) as [Hb _].
      split.
      * pose proof (opt_tail_no_panic (n :: ns') r Hb) as Hnp.
        destruct (seqT (map seg_test (map SOpt (n :: ns'))) r); congruence.
      * now apply opt_tail_good.
Qed.

Lemma firstn_in_psubsets : forall ns j, In (firstn j ns) (psubsets ns).
Proof.
  induction ns as [|n ns IH]; intros j.
  - destruct j; now left.
  - destruct j as [|j]; cbn [firstn psubsets].
    + apply in_or_app. right. apply psubsets_nil_in.
    + apply in_or_app. left. apply in_map. apply IH.
Qed.

(** what a successful chain binds is what the pattern of one of its expansions binds *)
Lemma chain_opt_params :
  forall cores L0 ns q m rem ps,
    Forall (fun x => is_leaf x = true) L0 -> Forall (fun x => is_sopt x = false) L0 ->
    wf_flat (flat_map gen_path (L0 ++ map SOpt ns)) = true ->
    slash_static_flat (flat_map gen_path (L0 ++ map SOpt ns)) = false ->
    Forall (core_in cores) L0 -> Inv cores q ->
    seqT (map seg_test (L0 ++ map SOpt ns)) q = TSome m rem ps ->
    exists e, In e (expand_optionals (flat_map gen_path (L0 ++ map SOpt ns)))
              /\ spre (toks e) q = Some (ps, rem).
Proof.
  intros cores L0 ns q m rem ps Hleaf Hnos Hwf Hss Hcores Hq HS.
  set (A := flat_map gen_path L0).
  assert (HA : existsb is_popt A = false) by (now apply gen_nosopt).
  rewrite flat_map_app, gen_sopts in Hwf, Hss |- *. fold A in Hwf, Hss |- *.
  assert (Hsub : forall S, In S (psubsets ns) ->
            tame_chain (L0 ++ map SParam S) = true
            /\ tproj (seqT (map seg_test (L0 ++ map SParam S)) q)
               = Some (spre (toks (A ++ map PParam S)) q)).
  { intros S HS0.
    assert (Hg : flat_map gen_path (L0 ++ map SParam S) = A ++ map PParam S)
      by (now rewrite flat_map_app, gen_sparams).
    assert (Ht : tame_chain (L0 ++ map SParam S) = true).
    { apply tame_from_flat.
      + apply Forall_app. split; [exact Hleaf|]. clear. induction S; simpl; constructor; auto.
      + rewrite Hg, existsb_app, HA. clear. induction S; auto.
      + rewrite Hg. eapply wf_flat_sub; eauto.
      + rewrite Hg. eapply ssf_sub; eauto. }
    split; [exact Ht|]. rewrite <- Hg. apply (chain_spre cores); auto.
    apply Forall_app. split; [exact Hcores|apply core_in_params]. }
  rewrite map_app, seqT_app in HS.
  destruct (seqT (map seg_test L0) q) as [| |m0 r ps0] eqn:E0; try discriminate.
  (* the tail binds like a prefix of the optionals kept as params *)
  assert (Hj : exists j, tproj (seqT (map seg_test (map SOpt ns)) r)
                         = tproj (seqT (map seg_test (map SParam (firstn j ns))) r)).
  { destruct ns as [|n ns']; [exists 0%nat; reflexivity|].
    assert (Hin1 : In [n] (psubsets (n :: ns'))).
    { cbn [psubsets]. apply in_or_app. left. apply in_map. apply psubsets_nil_in. }
    destruct (Hsub [n] Hin1) as [Ht1 _]. cbn [map] in Ht1.
    destruct (tame_app_inv cores n L0 Ht1 Hcores q m0 r ps0 Hq E0) as [Hb _].
    now apply opt_tail_prefix. }
  destruct Hj as [j Hj].
  exists (A ++ map PParam (firstn j ns)). split.
  - rewrite (expand_app_noopt _ _ HA), expand_popts. apply in_map. apply in_map.
    apply firstn_in_psubsets.
  - destruct (Hsub _ (firstn_in_psubsets ns j)) as [_ Hc].
    rewrite map_app, seqT_app, E0 in Hc.
    destruct (seqT (map seg_test (map SOpt ns)) r) as [| |m1 r1 p1]; try discriminate.
    inversion HS; subst.
    destruct (seqT (map seg_test (map SParam (firstn j ns))) r) as [| |m2 r2 p2];
      cbn [tproj] in Hj; try discriminate.
    injection Hj as <- <-. cbn [tproj] in Hc. now injection Hc as <-.
Qed.

(** ================================================================================
    Part D' — the core statement for a forest, from any path at a component boundary
    ================================================================================ *)
Definition entry_good (q : bytes) (f : list pseg) : bool :=
  existsb (flat_good q) (expand_optionals f).

Lemma chains_decomp : forall rs, forallb route_ok rs = true ->
  forall L, In L (chains rs) ->
  exists L0 ns, L = L0 ++ map SOpt ns /\ Forall (fun x => is_sopt x = false) L0.
Proof.
  intros rs Hrs L HL. apply in_flat_map in HL. destruct HL as (r & Hr & HL).
  rewrite forallb_forall in Hrs. eapply chain_decomp; eauto.
Qed.

Lemma route_ok_forest : forall rs, k_optional rs = false -> wf_tree rs = true ->
  forallb route_ok rs = true.
Proof.
  intros rs Hk Hw. unfold k_optional in Hk. apply negb_false_iff in Hk. unfold wf_tree in Hw.
  apply forallb_forall. intros r Hr. rewrite forallb_forall in Hk, Hw.
  apply route_ok_of; auto.
Qed.

Section Core.
  Variables (base : option bytes) (rs : list route) (q : bytes).
  Hypothesis Hwt : wf_tree rs = true.
  Hypothesis Hwf : wf_routes rs = true.
  Hypothesis Hss : existsb slash_static_flat (gen_routes rs) = false.
  Hypothesis Hopt : k_optional rs = false.
  Hypothesis Hb : at_boundary q = true.
  Hypothesis Hkb : kb (cores_of base rs) q = false.

  Let Hok : forallb route_ok rs = true := route_ok_forest rs Hopt Hwt.

  Lemma core_chain_facts : forall L, In L (chains rs) ->
    exists L0 ns, L = L0 ++ map SOpt ns
      /\ Forall (fun x => is_leaf x = true) L0 /\ Forall (fun x => is_sopt x = false) L0
      /\ wf_flat (flat_map gen_path L) = true
      /\ slash_static_flat (flat_map gen_path L) = false
      /\ Forall (core_in (cores_of base rs)) L0.
  Proof.
    intros L HL. destruct (chains_decomp rs Hok L HL) as (L0 & ns & -> & Hn).
    assert (Hin : In (flat_map gen_path (L0 ++ map SOpt ns)) (gen_routes rs))
      by (rewrite gen_routes_chains; now apply in_map).
    exists L0, ns. split; [reflexivity|].
    pose proof (chains_leaves rs _ HL) as Hl. apply Forall_app in Hl. destruct Hl as [Hl _].
    pose proof (cores_from_flat base rs _ HL) as Hc. apply Forall_app in Hc. destruct Hc as [Hc _].
    repeat split; auto.
    - unfold wf_routes in Hwf. rewrite forallb_forall in Hwf. now apply Hwf.
    - eapply existsb_false_in; eauto.
  Qed.

  Lemma core_match_opt :
    match_siblings rs 0 q <> NPanic
    /\ is_yes (oproj (match_siblings rs 0 q)) = existsb (entry_good q) (gen_routes rs).
  Proof.
    pose proof (siblings_chains_ok rs Hok 0%nat q) as Hsib.
    assert (Hch : forall L, In L (chains rs) ->
              seqT (map seg_test L) q <> TPanic
              /\ good q L = entry_good q (flat_map gen_path L)).
    { intros L HL. destruct (core_chain_facts L HL) as (L0 & ns & -> & H1 & H2 & H3 & H4 & H5).
      apply (chain_opt (cores_of base rs)); auto. split; assumption. }
    assert (Hnp : Forall (fun L => seqT (map seg_test L) q <> TPanic) (chains rs)).
    { apply Forall_forall. intros L HL. now destruct (Hch L HL). }
    destruct (first_chain_existsb q _ Hnp) as [Hnopanic Hyes].
    rewrite Hsib. split.
    - intros Hc. rewrite Hc in Hsib. cbn [oproj] in Hsib. now rewrite <- Hsib in Hnopanic.
    - rewrite Hyes, gen_routes_chains, existsb_map. apply existsb_ext_in. intros L HL.
      now destruct (Hch L HL).
  Qed.

  (** the first table entry that matches wins, and the params are its pattern's bindings *)
  Lemma core_first_wins : forall ch ps rem,
    match_siblings rs 0 q = NYes ch ps rem ->
    exists pre f post e,
      gen_routes rs = pre ++ f :: post
      /\ Forall (fun g => entry_good q g = false) pre
      /\ In e (expand_optionals f)
      /\ spre (toks e) q = Some (ps, rem) /\ rem_ok rem = true.
  Proof.
    intros ch ps rem Hm.
    pose proof (siblings_chains_ok rs Hok 0%nat q) as Hsib. rewrite Hm in Hsib. cbn [oproj] in Hsib.
    symmetry in Hsib. apply first_chain_first in Hsib.
    destruct Hsib as (pre & L & post & m & Hls & Hpre & HS & Hr).
    assert (HinL : In L (chains rs)) by (rewrite Hls; apply in_or_app; right; now left).
    destruct (core_chain_facts L HinL) as (L0 & ns & -> & H1 & H2 & H3 & H4 & H5).
    destruct (chain_opt_params (cores_of base rs) L0 ns q m rem ps H1 H2 H3 H4 H5 (conj Hb Hkb) HS)
      as (e & He & Hsp).
    exists (map (flat_map gen_path) pre), (flat_map gen_path (L0 ++ map SOpt ns)),
           (map (flat_map gen_path) post), e.
    split; [rewrite gen_routes_chains, Hls, map_app; reflexivity|].
    split; [|repeat split; assumption].
    apply Forall_forall. intros g Hg. apply in_map_iff in Hg. destruct Hg as (Lg & <- & HLg).
    assert (HinLg : In Lg (chains rs)) by (rewrite Hls; apply in_or_app; now left).
    destruct (core_chain_facts Lg HinLg) as (G0 & gs & -> & G1 & G2 & G3 & G4 & G5).
    destruct (chain_opt (cores_of base rs) G0 gs q G1 G2 G3 G4 G5 (conj Hb Hkb)) as [Gnp Gg].
    unfold entry_good. rewrite <- Gg.
    rewrite Forall_forall in Hpre. destruct (Hpre _ HLg) as [Hg|Hp]; [exact Hg|now elim Gnp].
  Qed.
End Core.

(** ================================================================================
    The theorems, for the refined known classes, with or without base path
    ================================================================================ *)
(** the reference binds exactly what the pattern consumer binds *)
Lemma flat_match_of_spre :
  forall e p ps r, starts_with_slash p = true -> has_dslash p = false ->
    spre (toks e) p = Some (ps, r) -> rem_ok r = true -> flat_match e p = Some ps.
Proof.
  intros e p ps r Hs Hd Hsp Hr. unfold flat_match, pattern.
  destruct (toks e) as [|t ts] eqn:Et.
  - cbn [spre] in Hsp. injection Hsp as <- <-.
    destruct p as [|c p]; [discriminate|]. cbn [starts_with_slash] in Hs.
    apply N.eqb_eq in Hs. subst c.
    destruct p as [|d p]; [reflexivity|]. cbn [rem_ok] in Hr. discriminate.
  - unfold strict. rewrite Hsp.
    apply rem_ok_cases in Hr. destruct Hr as [->| ->]; [reflexivity|].
    destruct (spre_suffix _ _ _ _ Hsp) as [a ->].
    rewrite ends_with_slash_snoc, removelast_last. now rewrite (spre_unsnoc _ _ _ Hsp).
Qed.

Lemma rmf_nobase : forall f p, starts_with_slash p = true -> has_dslash p = false ->
  route_matches_flat f p = entry_good p f.
Proof.
  intros f p Hs Hd. unfold route_matches_flat, entry_good. apply existsb_ext_in.
  intros e _. now apply flat_match_spre.
Qed.

Lemma spre_base : forall b' e p1, ends_with_slash (slash :: b') = false ->
  spre (toks (PStatic (slash :: b') :: e)) (slash :: p1)
  = if is_prefix b' p1 then spre (toks e) (skipn (length b') p1) else None.
Proof.
  intros b' e p1 Hbe.
  change (toks (PStatic (slash :: b') :: e)) with (seg_toks (PStatic (slash :: b')) ++ toks e).
  unfold seg_toks, sep, needs_sep. rewrite N.eqb_refl. cbn [negb app].
  rewrite (spre_lit_gen (slash :: b') (toks e) (slash :: p1) Hbe).
  rewrite is_prefix_cons, N.eqb_refl. reflexivity.
Qed.

Lemma rmf_base : forall b' f p1,
  ends_with_slash (slash :: b') = false -> has_dslash (slash :: p1) = false ->
  route_matches_flat (PStatic (slash :: b') :: f) (slash :: p1)
  = if is_prefix b' p1 then entry_good (skipn (length b') p1) f else false.
Proof.
  intros b' f p1 Hbe Hds. unfold route_matches_flat, entry_good.
  cbn [expand_optionals]. rewrite existsb_map.
  transitivity (existsb (fun e => if is_prefix b' p1 then flat_good (skipn (length b') p1) e else false)
                        (expand_optionals f)).
  - apply existsb_ext_in. intros e _.
    rewrite flat_match_spre; [|reflexivity|exact Hds].
    rewrite (spre_base b' e p1 Hbe). unfold flat_good. destruct (is_prefix b' p1); reflexivity.
  - destruct (is_prefix b' p1); [reflexivity|apply existsb_const_false].
Qed.

(** shape of a tame base and of the path below it *)
Lemma base_reduce :
  forall (b : bytes) rs p,
    b <> [] ->
    starts_with_slash p = true -> base_untame b = false -> has_dslash p = false ->
    kb (cores_of (Some b) rs) p = false ->
    exists b' p1,
      b = slash :: b' /\ p = slash :: p1 /\ ends_with_slash (slash :: b') = false
      /\ strip_base (Some b) p
         = (if is_prefix b' p1 then Some (skipn (length b') p1) else None)
      /\ (is_prefix b' p1 = true ->
          at_boundary (skipn (length b') p1) = true
          /\ kb (cores_of (Some b) rs) (skipn (length b') p1) = false).
Proof.
  intros b rs p Hbne Hsl Hbase Hds Hkb.
  assert (Hbu : base_untame b = negb (starts_with_slash b) || ends_with_slash b || has_dslash b)
    by (destruct b; [congruence|reflexivity]).
  rewrite Hbu in Hbase. clear Hbu.
  apply orb_false_iff in Hbase. destruct Hbase as [Hbase Hbd].
  apply orb_false_iff in Hbase. destruct Hbase as [Hbs Hbe]. apply negb_false_iff in Hbs.
  destruct b as [|c0 b']; [discriminate|]. cbn [starts_with_slash] in Hbs.
  apply N.eqb_eq in Hbs. subst c0.
  destruct p as [|c0 p1]; [discriminate|]. cbn [starts_with_slash] in Hsl.
  apply N.eqb_eq in Hsl. subst c0.
  exists b', p1. split; [reflexivity|]. split; [reflexivity|]. split; [exact Hbe|].
  assert (Hb'ns : starts_with_slash b' = false).
  { destruct b' as [|d b']; [reflexivity|]. cbn [starts_with_slash].
    rewrite has_dslash_cons2, N.eqb_refl in Hbd. cbn [andb] in Hbd.
    apply orb_false_iff in Hbd. now destruct Hbd. }
  assert (Hp1ns : starts_with_slash p1 = false).
  { destruct p1 as [|d p1]; [reflexivity|]. cbn [starts_with_slash].
    rewrite has_dslash_cons2, N.eqb_refl in Hds. cbn [andb] in Hds.
    apply orb_false_iff in Hds. now destruct Hds. }
  split.
  - unfold strip_base. cbn [starts_with_slash]. rewrite N.eqb_refl.
    cbn [trim_start_slashes]. rewrite N.eqb_refl.
    now rewrite (trim_start_slashes_id _ Hb'ns), (trim_start_slashes_id _ Hp1ns), strip_prefix_is_prefix.
  - intros Ep. set (q := skipn (length b') p1).
    assert (Hpq : slash :: p1 = (slash :: b') ++ q).
    { cbn [app]. f_equal. unfold q. now apply is_prefix_split. }
    destruct (last_slash_split (slash :: b')) as (l1 & l2 & Hl & Hl2).
    { cbn [has_slash existsb]. now rewrite N.eqb_refl. }
    assert (Hl2ne : l2 <> []).
    { intros ->. rewrite Hl in Hbe. rewrite ends_with_slash_snoc in Hbe. discriminate. }
    assert (Hin2 : In l2 (cores_of (Some (slash :: b')) rs)).
    { unfold cores_of. apply filter_In. split.
      - apply in_or_app. right. unfold split_comps. rewrite Hl. now apply split_last.
      - unfold usable_core. destruct l2; [now elim Hl2ne|]. now rewrite Hl2. }
    split.
    + assert (Hkb2 : kb (cores_of (Some (slash :: b')) rs) (l1 ++ slash :: (l2 ++ q)) = false).
      { replace (l1 ++ slash :: l2 ++ q) with (slash :: p1); [exact Hkb|].
        rewrite Hpq, Hl, <- app_assoc. reflexivity. }
      apply kb_at in Hkb2.
      pose proof (existsb_false_in _ _ _ _ Hkb2 Hin2) as Hbad. unfold bad_at in Hbad.
      rewrite is_prefix_app, skipn_app_len in Hbad. cbn [andb] in Hbad.
      destruct q as [|d q']; [reflexivity|]. cbn [at_boundary]. now apply negb_false_iff in Hbad.
    + rewrite Hpq in Hkb. now apply kb_suffix in Hkb.
Qed.

Lemma known_class_parts : forall base rs p, known_class base rs p = false ->
  kb (cores_of base rs) p = false
  /\ existsb slash_static_flat (gen_routes rs) = false
  /\ match base with Some b => base_untame b = false | None => True end
  /\ k_optional rs = false /\ has_dslash p = false.
Proof.
  intros base rs p Hk. unfold known_class in Hk.
  apply orb_false_iff in Hk. destruct Hk as [Hk Hds].
  apply orb_false_iff in Hk. destruct Hk as [Hk Hopt].
  apply orb_false_iff in Hk. destruct Hk as [Hkb Hss].
  unfold k_slash_static in Hss. apply orb_false_iff in Hss. destruct Hss as [Hss Hbase].
  repeat split; auto. destruct base; auto.
Qed.

Theorem match_iff_flat_fine_ne :
  forall (base : option bytes) rs p,
    base <> Some [] ->
    wf_tree rs = true -> wf_routes rs = true -> starts_with_slash p = true ->
    known_class base rs p = false ->
    matches base rs p = flat_any base rs p /\ match_route base rs p <> MPanic.
Proof.
  intros base rs p Hne Hwt Hwf Hsl Hk.
  destruct (known_class_parts _ _ _ Hk) as (Hkb & Hss & Hbase & Hopt & Hds).
  destruct base as [b|].
  - assert (Hbne : b <> []) by (intros ->; apply Hne; reflexivity).
    destruct (base_reduce b rs p Hbne Hsl Hbase Hds Hkb) as (b' & p1 & -> & -> & Hbe & Hstrip & Hq).
    match goal with |- _ = ?X /\ _ =>
    assert (Hflat : X
                    = if is_prefix b' p1 then existsb (entry_good (skipn (length b') p1)) (gen_routes rs)
                      else false) end.
    { unfold flat_any, table. rewrite existsb_map.
      rewrite (existsb_ext_in _ _ (fun f => if is_prefix b' p1
                                            then entry_good (skipn (length b') p1) f else false)).
      - destruct (is_prefix b' p1); [reflexivity|apply existsb_const_false].
      - intros f _. now apply rmf_base. }
    rewrite Hflat. unfold matches, match_route. rewrite Hstrip.
    destruct (is_prefix b' p1) eqn:Ep; [|split; [reflexivity|discriminate]].
    destruct (Hq eq_refl) as [Hbq Hkq].
    destruct (core_match_opt (Some (slash :: b')) rs _ Hwt Hwf Hss Hopt Hbq Hkq) as [Hnp Hyes].
    rewrite <- Hyes.
    pose proof (siblings_chains_ok rs (route_ok_forest rs Hopt Hwt) 0%nat (skipn (length b') p1)) as Hs.
    destruct (match_siblings rs 0 (skipn (length b') p1)) as [| |ch ps rem];
      cbn [oproj is_yes] in *.
    + now elim Hnp.
    + split; [reflexivity|discriminate].
    + assert (rem_ok rem = true) as -> by (eapply first_chain_rem_ok; symmetry; exact Hs).
      split; [reflexivity|discriminate].
  - assert (Hbq : at_boundary p = true) by (destruct p; [discriminate|exact Hsl]).
    destruct (core_match_opt None rs p Hwt Hwf Hss Hopt Hbq Hkb) as [Hnp Hyes].
    assert (Hflat : flat_any None rs p = existsb (entry_good p) (gen_routes rs)).
    { unfold flat_any, table. apply existsb_ext_in. intros f _. now apply rmf_nobase. }
    rewrite Hflat, <- Hyes. unfold matches, match_route, strip_base.
    pose proof (siblings_chains_ok rs (route_ok_forest rs Hopt Hwt) 0%nat p) as Hs.
    destruct (match_siblings rs 0 p) as [| |ch ps rem]; cbn [oproj is_yes] in *.
    + now elim Hnp.
    + split; [reflexivity|discriminate].
    + assert (rem_ok rem = true) as -> by (eapply first_chain_rem_ok; symmetry; exact Hs).
      split; [reflexivity|discriminate].
Qed.

(** the first table entry (in declaration order) that matches the path wins, and the
    returned parameters are exactly what the reference binds for one of its expansions *)
Theorem first_entry_wins_params_ne :
  forall (base : option bytes) rs p ch ps,
    base <> Some [] ->
    wf_tree rs = true -> wf_routes rs = true -> starts_with_slash p = true ->
    known_class base rs p = false ->
    match_route base rs p = MYes ch ps ->
    exists pre f post e,
      table base (gen_routes rs) = pre ++ f :: post
      /\ Forall (fun g => route_matches_flat g p = false) pre
      /\ In e (expand_optionals f)
      /\ flat_match e p = Some ps.
Proof.
  intros base rs p ch ps Hne Hwt Hwf Hsl Hk Hm.
  destruct (known_class_parts _ _ _ Hk) as (Hkb & Hss & Hbase & Hopt & Hds).
  destruct base as [b|].
  - assert (Hbne : b <> []) by (intros ->; apply Hne; reflexivity).
    destruct (base_reduce b rs p Hbne Hsl Hbase Hds Hkb) as (b' & p1 & -> & -> & Hbe & Hstrip & Hq).
    unfold match_route in Hm. rewrite Hstrip in Hm.
    destruct (is_prefix b' p1) eqn:Ep; [|discriminate].
    destruct (Hq eq_refl) as [Hbq Hkq].
    destruct (match_siblings rs 0 (skipn (length b') p1)) as [| |ch1 ps1 rem] eqn:Em; try discriminate.
    destruct (rem_ok rem) eqn:Er; [|discriminate]. inversion Hm; subst.
    destruct (core_first_wins (Some (slash :: b')) rs _ Hwt Hwf Hss Hopt Hbq Hkq _ _ _ Em)
      as (pre & f & post & e & Hg & Hpre & He & Hsp & _).
    exists (map (cons (PStatic (slash :: b'))) pre), (PStatic (slash :: b') :: f),
           (map (cons (PStatic (slash :: b'))) post), (PStatic (slash :: b') :: e).
    split; [unfold table; rewrite Hg, map_app; reflexivity|]. split; [|split].
    + apply Forall_forall. intros g Hin. apply in_map_iff in Hin. destruct Hin as (g0 & <- & Hg0).
      rewrite (rmf_base b' g0 p1 Hbe Hds), Ep. rewrite Forall_forall in Hpre. now apply Hpre.
    + cbn [expand_optionals]. now apply in_map.
    + apply (flat_match_of_spre _ _ _ rem); auto.
      now rewrite (spre_base b' e p1 Hbe), Ep.
  - assert (Hbq : at_boundary p = true) by (destruct p; [discriminate|exact Hsl]).
    unfold match_route, strip_base in Hm.
    destruct (match_siblings rs 0 p) as [| |ch1 ps1 rem] eqn:Em; try discriminate.
    destruct (rem_ok rem) eqn:Er; [|discriminate]. inversion Hm; subst.
    destruct (core_first_wins None rs p Hwt Hwf Hss Hopt Hbq Hkb _ _ _ Em)
      as (pre & f & post & e & Hg & Hpre & He & Hsp & _).
    exists pre, f, post, e. split; [exact Hg|]. split; [|split; [exact He|]].
    + eapply Forall_impl; [|exact Hpre]. intros g Hgg. now rewrite rmf_nobase.
    + now apply (flat_match_of_spre _ _ _ rem).
Qed.

(** ================================================================================
    build_then_match for any table: a path built from an expansion of route [i] matches;
    the winner is the first entry whose pattern matches; if no earlier entry matches and
    route [i] has no optional, the returned parameters are the given values
    ================================================================================ *)
Lemma wf_flat_expand : forall f e, wf_flat f = true -> In e (expand_optionals f) -> wf_flat e = true.
Proof.
  induction f as [|x f IH]; intros e Hw He.
  - cbn in He. destruct He as [<-|[]]. reflexivity.
  - destruct x; cbn [expand_optionals wf_flat] in *.
    + apply in_map_iff in He. destruct He as (e0 & <- & He0). cbn [wf_flat]. auto.
    + apply andb_prop in Hw. destruct Hw as [Hn Hw].
      apply in_map_iff in He. destruct He as (e0 & <- & He0). cbn [wf_flat]. rewrite Hn. cbn. auto.
    + apply andb_prop in Hw. destruct Hw as [Hn Hw]. apply in_app_or in He. destruct He as [He|He].
      * apply in_map_iff in He. destruct He as (e0 & <- & He0). cbn [wf_flat]. rewrite Hn. cbn. auto.
      * auto.
    + apply andb_prop in Hw. destruct Hw as [Hn Hw]. destruct f; [|discriminate].
      cbn in He. destruct He as [<-|[]]. cbn [wf_flat]. now rewrite Hn.
    + apply in_map_iff in He. destruct He as (e0 & <- & He0). cbn [wf_flat]. auto.
Qed.

Lemma trivial_no_popt : forall t, forallb trivial_pseg t = true -> existsb is_popt t = false.
Proof.
  induction t as [|x t IH]; [reflexivity|]. cbn [forallb existsb]. intros H.
  apply andb_prop in H. destruct H as [Hx Ht]. rewrite (IH Ht), orb_false_r.
  destruct x as [[|? ?]| | | |]; try discriminate; reflexivity.
Qed.

Lemma ssf_expand : forall f e, slash_static_flat f = false -> In e (expand_optionals f) ->
  slash_static_flat e = false.
Proof.
  induction f as [|x f IH]; intros e Hs He.
  - cbn in He. destruct He as [<-|[]]. reflexivity.
  - destruct x; cbn [expand_optionals slash_static_flat] in *.
    + apply in_map_iff in He. destruct He as (e0 & <- & He0). cbn [slash_static_flat].
      apply orb_false_iff in Hs. destruct Hs as [Hs Hrest].
      apply orb_false_iff in Hs. destruct Hs as [Htl Hsl].
      rewrite Htl, (IH _ Hrest He0), orb_false_r. cbn [orb].
      destruct (bytes_eqb s [slash]); [|reflexivity]. cbn [andb] in *.
      apply negb_false_iff in Hsl.
      rewrite (expand_no_opt _ (trivial_no_popt _ Hsl)) in He0. destruct He0 as [<-|[]].
      now rewrite Hsl.
    + apply in_map_iff in He. destruct He as (e0 & <- & He0). cbn [slash_static_flat]. auto.
    + apply in_app_or in He. destruct He as [He|He]; [|auto].
      apply in_map_iff in He. destruct He as (e0 & <- & He0). cbn [slash_static_flat]. auto.
    + apply in_map_iff in He. destruct He as (e0 & <- & He0). cbn [slash_static_flat]. auto.
    + apply in_map_iff in He. destruct He as (e0 & <- & He0). cbn [slash_static_flat]. auto.
Qed.

Lemma build_path_spre :
  forall e vals,
    existsb is_popt e = false -> wf_flat e = true -> slash_static_flat e = false ->
    vals_ok e vals ->
    starts_with_slash (build_path e vals) = true
    /\ exists r, spre (toks e) (build_path e vals) = Some (bindings e vals, r) /\ rem_ok r = true.
Proof.
  intros e vals Ho Hw Hs Hv.
  destruct (build_spre e vals Ho Hw Hs Hv) as [Hbb Hbs].
  unfold build_path. destruct (build e vals) as [|c q] eqn:Eb.
  - split; [reflexivity|].
    rewrite (build_nil_toks e vals Ho Hw Hv Eb) in *.
    cbn [spre] in Hbs. injection Hbs as Hbn. rewrite <- Hbn.
    exists [slash]. split; reflexivity.
  - split; [exact Hbb|]. exists []. split; [exact Hbs|reflexivity].
Qed.

(** the path of a table entry: a non-empty base, then the segments; without a base, or with
    the empty base of <Routes>, the segments alone ("/" if they contribute nothing) *)
Definition built (base : option bytes) (e : list pseg) (vals : list bytes) : bytes :=
  match base with
  | Some (c :: b) => (c :: b) ++ build e vals
  | _ => build_path e vals
  end.

Lemma first_unique :
  forall (A : Type) (P : A -> bool) l pre g post i fi,
    l = pre ++ g :: post -> Forall (fun x => P x = false) pre -> P g = true ->
    nth_error l i = Some fi -> P fi = true -> Forall (fun x => P x = false) (firstn i l) ->
    g = fi.
Proof.
  intros A P l pre g post i fi -> Hpre Hg Hi Hfi Hfirst.
  destruct (Nat.lt_trichotomy i (length pre)) as [Hlt|[Heq|Hgt]].
  - rewrite nth_error_app1 in Hi by exact Hlt. apply nth_error_In in Hi.
    rewrite Forall_forall in Hpre. rewrite (Hpre _ Hi) in Hfi. discriminate.
  - subst i. rewrite nth_error_app2, Nat.sub_diag in Hi by lia. cbn in Hi. congruence.
  - exfalso. rewrite Forall_forall in Hfirst.
    assert (Hin : In g (firstn i (pre ++ g :: post))).
    { rewrite firstn_app. apply in_or_app. right.
      destruct (i - length pre)%nat as [|k] eqn:Ek; [lia|]. now left. }
    rewrite (Hfirst _ Hin) in Hg. discriminate.
Qed.

Lemma nth_error_table : forall base flats i f,
  nth_error flats i = Some f ->
  nth_error (table base flats) i
  = Some (match base with Some b => PStatic b :: f | None => f end).
Proof.
  intros [b|] flats i f H; cbn [table]; [|exact H].
  now rewrite nth_error_map, H.
Qed.

Theorem build_then_match_any_ne :
  forall (base : option bytes) rs i f e vals p,
    base <> Some [] ->
    wf_tree rs = true -> wf_routes rs = true ->
    nth_error (gen_routes rs) i = Some f ->          (* route i of the table ... *)
    In e (expand_optionals f) ->                      (* ... one of its expansions *)
    vals_ok e vals -> p = built base e vals ->
    known_class base rs p = false ->
    exists ch ps,
      match_route base rs p = MYes ch ps
      /\ (exists pre g post e',
            table base (gen_routes rs) = pre ++ g :: post
            /\ Forall (fun x => route_matches_flat x p = false) pre
            /\ In e' (expand_optionals g) /\ flat_match e' p = Some ps)
      /\ (existsb is_popt f = false ->
          Forall (fun x => route_matches_flat x p = false) (firstn i (table base (gen_routes rs))) ->
          ps = bindings f vals).
Proof.
  intros base rs i f e vals p Hne Hwt Hwf Hi He Hv Hp Hk.
  destruct (known_class_parts _ _ _ Hk) as (Hkb & Hss & Hbase & Hopt & Hds).
  assert (Hinf : In f (gen_routes rs)) by (eapply nth_error_In; eauto).
  assert (Hfw : wf_flat f = true)
    by (unfold wf_routes in Hwf; rewrite forallb_forall in Hwf; now apply Hwf).
  assert (Hfs : slash_static_flat f = false) by (eapply existsb_false_in; eauto).
  assert (Heo : existsb is_popt e = false).
  { destruct (expand_optionals_spec f) as [Hall _]. rewrite Forall_forall in Hall. now apply Hall. }
  pose proof (wf_flat_expand _ _ Hfw He) as Hew.
  pose proof (ssf_expand _ _ Hfs He) as Hes.
  (* the path starts with '/', and entry i of the table matches it *)
  assert (Hsl : starts_with_slash p = true
                /\ exists fi, nth_error (table base (gen_routes rs)) i = Some fi
                              /\ route_matches_flat fi p = true
                              /\ (existsb is_popt f = false ->
                                  forall e', In e' (expand_optionals fi) ->
                                  forall ps, flat_match e' p = Some ps -> ps = bindings f vals)).
  { destruct base as [b|].
    - (* with base *)
      assert (Hbne : b <> []) by (intros ->; apply Hne; reflexivity).
      assert (Hbu : base_untame b = negb (starts_with_slash b) || ends_with_slash b || has_dslash b)
        by (destruct b; [congruence|reflexivity]).
      rewrite Hbu in Hbase. clear Hbu.
      apply orb_false_iff in Hbase. destruct Hbase as [Hbase Hbd].
      apply orb_false_iff in Hbase. destruct Hbase as [Hbs Hbe]. apply negb_false_iff in Hbs.
      destruct b as [|c0 b']; [discriminate|]. cbn [starts_with_slash] in Hbs.
      apply N.eqb_eq in Hbs. subst c0.
      cbn [built app] in Hp. subst p. split; [reflexivity|].
      exists (PStatic (slash :: b') :: f).
      split; [exact (nth_error_table (Some (slash :: b')) _ _ _ Hi)|].
      destruct (build_spre e vals Heo Hew Hes Hv) as [_ Hbs].
      assert (Hsp : forall e0, spre (toks (PStatic (slash :: b') :: e0)) (slash :: b' ++ build e vals)
                               = spre (toks e0) (build e vals)).
      { intros e0. rewrite (spre_base b' e0 _ Hbe), is_prefix_app, skipn_app_len. reflexivity. }
      split.
      + rewrite (rmf_base b' f _ Hbe Hds), is_prefix_app, skipn_app_len.
        unfold entry_good. apply existsb_exists. exists e. split; [exact He|].
        unfold flat_good. now rewrite Hbs.
      + intros Hfo e' He' ps Hfm.
        rewrite (expand_no_opt _ Hfo) in He. destruct He as [<-|[]].
        cbn [expand_optionals] in He'. rewrite (expand_no_opt _ Hfo) in He'.
        destruct He' as [<-|[]].
        rewrite (flat_match_of_spre _ _ (bindings f vals) []) in Hfm; auto; [congruence|].
        now rewrite Hsp.
    - (* without base *)
      cbn [built] in Hp. subst p.
      destruct (build_path_spre e vals Heo Hew Hes Hv) as [Hs (r & Hsp & Hr)].
      split; [exact Hs|]. exists f. split; [exact (nth_error_table None _ _ _ Hi)|]. split.
      + rewrite (rmf_nobase _ _ Hs Hds). unfold entry_good. apply existsb_exists.
        exists e. split; [exact He|]. unfold flat_good. now rewrite Hsp.
      + intros Hfo e' He' ps Hfm.
        rewrite (expand_no_opt _ Hfo) in He. destruct He as [<-|[]].
        rewrite (expand_no_opt _ Hfo) in He'. destruct He' as [<-|[]].
        rewrite (flat_match_of_spre _ _ (bindings f vals) r) in Hfm; auto. congruence. }
  destruct Hsl as [Hsl (fi & Hfi & Hfim & Hfip)].
  (* hence the table matches, hence the router does *)
  destruct (match_iff_flat_fine_ne base rs p Hne Hwt Hwf Hsl Hk) as [Hiff Hnp].
  assert (Hfa : flat_any base rs p = true).
  { unfold flat_any. apply existsb_exists. exists fi. split; [eapply nth_error_In; eauto|exact Hfim]. }
  rewrite Hfa in Hiff. unfold matches in Hiff.
  destruct (match_route base rs p) as [| |ch ps] eqn:Em; try discriminate.
  exists ch, ps. split; [reflexivity|].
  destruct (first_entry_wins_params_ne base rs p ch ps Hne Hwt Hwf Hsl Hk Em)
    as (pre & g & post & e' & Htab & Hpre & He' & Hfm).
  split; [exists pre, g, post, e'; auto|].
  intros Hfo Hfirst.
  assert (Hg : route_matches_flat g p = true).
  { unfold route_matches_flat. apply existsb_exists. exists e'. split; [exact He'|]. now rewrite Hfm. }
  assert (g = fi) as -> by (eapply (first_unique _ (fun x => route_matches_flat x p)); eauto).
  eapply Hfip; eauto.
Qed.

(** ---- the three sub-classes of F-C14-c are each inhabited by a genuine disagreement ---- *)
(* an optional followed by another segment of its tuple: /a/b against (:x?, "a", :y?) *)
Theorem refuted_optional_not_last :
  exists rs p, wf_tree rs = true /\ wf_routes rs = true /\ starts_with_slash p = true
               /\ k_optional rs = true /\ matches None rs p = false /\ flat_any None rs p = true.
Proof.
  exists [Route (STuple [SOpt [120]; SStatic [97]; SOpt [121]]) None], [47;97;47;98].
  vm_compute. repeat split; reflexivity.
Qed.

(* an optional inside a nested tuple: the nested tuple is dropped as a whole by the back-off,
   so /a/b (table entry /a/b) does not match (("a", :x?), "b") *)
Theorem refuted_optional_nested_tuple :
  exists rs p, wf_tree rs = true /\ wf_routes rs = true /\ starts_with_slash p = true
               /\ k_optional rs = true /\ matches None rs p = false /\ flat_any None rs p = true.
Proof.
  exists [Route (STuple [STuple [SStatic [97]; SOpt [120]]; SStatic [98]]) None], [47;97;47;98].
  vm_compute. repeat split; reflexivity.
Qed.

(* optionals in a route that has children: /q/a is in the table of (:x?, :y?) { "a" } *)
Theorem refuted_optional_parent :
  exists rs p, wf_tree rs = true /\ wf_routes rs = true /\ starts_with_slash p = true
               /\ k_optional rs = true /\ matches None rs p = false /\ flat_any None rs p = true.
Proof.
  exists [Route (STuple [SOpt [120]; SOpt [121]]) (Some [Route (SStatic [97]) None])], [47;113;47;97].
  vm_compute. repeat split; reflexivity.
Qed.

(** the hypotheses of the theorems are satisfiable with optionals present *)
Example match_iff_flat_fine_nontrivial :
  let rs := [Route (SStatic [47;98]) (Some [Route (STuple [SStatic [112]; SOpt [120]; SOpt [121]]) None]);
             Route (SOpt [122]) None] in
  let p := [47;98;47;112;47;52] in
  wf_tree rs = true /\ wf_routes rs = true /\ known_class None rs p = false
  /\ k_optional_any rs = true
  /\ match_route None rs p = MYes [(0%nat, [47;98]); (1%nat, [47;112;47;52])] [([120], [52])]
  /\ flat_any None rs p = true.
Proof. cbv zeta. split; [|split; [|split; [|split; [|split]]]]; vm_compute; reflexivity. Qed.

(** ================================================================================
    build_then_match about the REAL path builder (Router/Build.v = StaticPath::into_paths)
    ================================================================================ *)
From LV Require Import Router.Build.

(** every prerendered value is a non-empty run without '/' *)
Definition pm_ok (pm : pmap) : Prop :=
  forall n vs, pm_get pm n = Some vs -> Forall (fun v => v <> [] /\ has_slash v = false) vs.

Lemma join_static_build : forall p s,
  join_static p s = p ++ (if needs_sep s then [slash] else []) ++ s.
Proof.
  intros p [|c s]; unfold join_static, needs_sep, starts_with_slash.
  - reflexivity.
  - destruct (c =? slash); reflexivity.
Qed.

Lemma join_value_ok : forall p v, v <> [] -> has_slash v = false -> join_value p v = p ++ slash :: v.
Proof.
  intros p [|c v] Hne Hs; [now elim Hne|]. unfold join_value, starts_with_slash.
  cbn [has_slash existsb] in Hs. apply orb_false_iff in Hs. destruct Hs as [Hc _]. now rewrite Hc.
Qed.

Lemma paths_from_nil : forall f pm paths, paths_from [] f pm = Some paths -> paths = [].
Proof.
  induction f as [|x f IH]; intros pm paths H; cbn [paths_from] in H.
  - now inversion H.
  - destruct x; try discriminate; cbn [map flat_map] in H; try (now apply IH in H).
    + destruct (pm_get pm n); now apply IH in H.
    + destruct (pm_get pm n); now apply IH in H.
Qed.

Lemma paths_from_spec :
  forall f pm, existsb is_popt f = false -> wf_flat f = true -> pm_ok pm ->
  forall acc paths, paths_from acc f pm = Some paths ->
  forall p, In p paths -> exists a vals, In a acc /\ p = a ++ build f vals /\ vals_ok f vals.
Proof.
  induction f as [|x f IH]; intros pm Ho Hw Hpm acc paths H p Hp.
  - cbn in H. inversion H; subst. exists p, []. repeat split; auto. now rewrite app_nil_r.
  - cbn [existsb] in Ho. apply orb_false_iff in Ho. destruct Ho as [Hx Ho].
    destruct x as [s|n|n|n|]; cbn [is_popt] in Hx; try discriminate; cbn [paths_from wf_flat] in *.
    + destruct (IH pm Ho Hw Hpm _ _ H p Hp) as (a' & vals & Ha' & -> & Hv).
      apply in_map_iff in Ha'. destruct Ha' as (a & <- & Ha).
      exists a, vals. repeat split; auto. cbn [build]. now rewrite join_static_build, <- !app_assoc.
    + apply andb_prop in Hw. destruct Hw as [Hn Hw].
      destruct (pm_get pm n) as [vs|] eqn:Eg; [|apply paths_from_nil in H; subst; now elim Hp].
      destruct (IH pm Ho Hw Hpm _ _ H p Hp) as (a' & vals & Ha' & -> & Hv).
      apply in_flat_map in Ha'. destruct Ha' as (a & Ha & Ha').
      apply in_map_iff in Ha'. destruct Ha' as (v & <- & Hvin).
      pose proof (Hpm n vs Eg) as Hvs. rewrite Forall_forall in Hvs. destruct (Hvs v Hvin) as [Hne Hsl].
      exists a, (v :: vals). repeat split; auto.
      cbn [build]. unfold name_ok in Hn. rewrite Hn, (join_value_ok _ _ Hne Hsl), <- !app_assoc. reflexivity.
    + apply andb_prop in Hw. destruct Hw as [Hn Hw]. destruct f; [|discriminate].
      destruct (pm_get pm n) as [vs|] eqn:Eg; [|cbn in H; inversion H; subst; now elim Hp].
      cbn [paths_from] in H. inversion H; subst.
      apply in_flat_map in Hp. destruct Hp as (a & Ha & Ha').
      apply in_map_iff in Ha'. destruct Ha' as (v & <- & Hvin).
      pose proof (Hpm n vs Eg) as Hvs. rewrite Forall_forall in Hvs. destruct (Hvs v Hvin) as [Hne Hsl].
      exists a, [v]. repeat split; auto.
      cbn [build]. unfold name_ok in Hn. rewrite Hn, (join_value_ok _ _ Hne Hsl). cbn [app].
      now rewrite app_nil_r.
    + destruct (IH pm Ho Hw Hpm _ _ H p Hp) as (a' & vals & Ha' & -> & Hv).
      exists a', vals. repeat split; auto.
Qed.

Theorem build_then_match_real_ne :
  forall (base : option bytes) rs i f e pm paths p,
    base <> Some [] ->
    wf_tree rs = true -> wf_routes rs = true ->
    nth_error (gen_routes rs) i = Some f -> In e (expand_optionals f) ->
    pm_ok pm ->
    into_paths (registered base e) pm = Some paths -> In p paths ->
    starts_with_slash p = true -> known_class base rs p = false ->
    exists vals ch ps,
      vals_ok e vals /\ p = built base e vals
      /\ match_route base rs p = MYes ch ps
      /\ (exists pre g post e',
            table base (gen_routes rs) = pre ++ g :: post
            /\ Forall (fun x => route_matches_flat x p = false) pre
            /\ In e' (expand_optionals g) /\ flat_match e' p = Some ps)
      /\ (existsb is_popt f = false ->
          Forall (fun x => route_matches_flat x p = false) (firstn i (table base (gen_routes rs))) ->
          ps = bindings f vals).
Proof.
  intros base rs i f e pm paths p Hne Hwt Hwf Hi He Hpm Hip Hp Hsl Hk.
  assert (Hinf : In f (gen_routes rs)) by (eapply nth_error_In; eauto).
  assert (Hfw : wf_flat f = true)
    by (unfold wf_routes in Hwf; rewrite forallb_forall in Hwf; now apply Hwf).
  assert (Heo : existsb is_popt e = false).
  { destruct (expand_optionals_spec f) as [Hall _]. rewrite Forall_forall in Hall. now apply Hall. }
  pose proof (wf_flat_expand _ _ Hfw He) as Hew.
  assert (Hb : exists vals, vals_ok e vals /\ p = built base e vals).
  { unfold into_paths, registered in Hip. destruct base as [b|].
    - destruct (known_class_parts _ _ _ Hk) as (_ & _ & Hbase & _ & _).
      assert (Hbne : b <> []) by (intros ->; apply Hne; reflexivity).
      assert (Hbu : base_untame b = negb (starts_with_slash b) || ends_with_slash b || has_dslash b)
        by (destruct b; [congruence|reflexivity]).
      rewrite Hbu in Hbase. clear Hbu.
      apply orb_false_iff in Hbase. destruct Hbase as [Hbase _].
      apply orb_false_iff in Hbase. destruct Hbase as [Hbs _]. apply negb_false_iff in Hbs.
      cbn [paths_from map] in Hip.
      destruct (paths_from_spec e pm Heo Hew Hpm _ _ Hip p Hp) as (a & vals & Ha & -> & Hv).
      destruct Ha as [<-|[]]. exists vals. split; [exact Hv|].
      unfold join_static. rewrite Hbs. destruct b as [|c0 b0]; [now elim Hbne|]. reflexivity.
    - destruct (paths_from_spec e pm Heo Hew Hpm _ _ Hip p Hp) as (a & vals & Ha & -> & Hv).
      destruct Ha as [<-|[]]. exists vals. split; [exact Hv|].
      cbn [app built] in *. unfold build_path. destruct (build e vals); [discriminate|reflexivity]. }
  destruct Hb as (vals & Hv & Hpb).
  destruct (build_then_match_any_ne base rs i f e vals p Hne Hwt Hwf Hi He Hv Hpb Hk)
    as (ch & ps & Hm & Hfirst & Hps).
  exists vals, ch, ps. repeat split; auto.
Qed.

(* the builder itself is partial: OptionalParam is todo!() (F-C14-e) *)
Theorem into_paths_total_refuted :
  exists f pm, into_paths f pm = None.
Proof. exists [PStatic [97]; POpt [120]], [([120], [[98]])]. reflexivity. Qed.

Example build_then_match_real_nontrivial :
  let rs := [Route (SStatic [47;98]) (Some [Route (STuple [SStatic [112]; SParam [105;100]]) None])] in
  let pm := [([105;100], [[52;50]; [55]])] in
  into_paths (registered (Some [47;120]) [PStatic [47;98]; PStatic [112]; PParam [105;100]]) pm
  = Some [[47;120;47;98;47;112;47;52;50]; [47;120;47;98;47;112;47;55]]
  /\ match_route (Some [47;120]) rs [47;120;47;98;47;112;47;55]
     = MYes [(0%nat, [47;98]); (1%nat, [47;112;47;55])] [([105;100], [55])].
Proof. vm_compute. split; reflexivity. Qed.

(** ================================================================================
    The empty base.  <Routes> / <FlatRoutes> always construct their RouteDefs with
    [new_with_base(children, base.unwrap_or_default())]: without a <Router base=..> that
    is [Some ""].  It behaves exactly like no base: nothing is stripped, and the
    [Static("")] the router puts in front of every table entry contributes nothing.
    ================================================================================ *)
Lemma strip_base_empty : forall p : bytes, strip_base (Some []) p = Some p.
Proof. intros p. unfold strip_base. cbn [starts_with_slash]. rewrite strip_prefix_is_prefix. reflexivity. Qed.

Lemma match_route_empty_base : forall rs (p : bytes), match_route (Some []) rs p = match_route None rs p.
Proof. intros rs p. unfold match_route. rewrite strip_base_empty. reflexivity. Qed.

Lemma flat_match_static_nil : forall e (p : bytes), flat_match (PStatic [] :: e) p = flat_match e p.
Proof. reflexivity. Qed.

Lemma expand_static_cons : forall s f,
  expand_optionals (PStatic s :: f) = map (cons (PStatic s)) (expand_optionals f).
Proof. reflexivity. Qed.

Lemma rmf_static_nil : forall f (p : bytes),
  route_matches_flat (PStatic [] :: f) p = route_matches_flat f p.
Proof.
  intros f p. unfold route_matches_flat. rewrite expand_static_cons, existsb_map.
  apply existsb_ext_in. intros e _. now rewrite flat_match_static_nil.
Qed.

Lemma flat_any_empty_base : forall rs (p : bytes), flat_any (Some []) rs p = flat_any None rs p.
Proof.
  intros rs p. unfold flat_any, table. rewrite existsb_map.
  apply existsb_ext_in. intros f _. apply rmf_static_nil.
Qed.

Lemma cores_of_empty_base : forall rs, cores_of (Some []) rs = cores_of None rs.
Proof.
  intros rs. unfold cores_of. rewrite !filter_app. cbn [split_comps split_comps_aux rev filter usable_core].
  reflexivity.
Qed.

Lemma known_class_empty_base : forall rs (p : bytes), known_class (Some []) rs p = known_class None rs p.
Proof.
  intros rs p. unfold known_class, k_boundary, k_slash_static. rewrite cores_of_empty_base.
  cbn [base_untame]. reflexivity.
Qed.

(** a witness of "first entry wins" for the table without base is one for the table with the
    empty base *)
Lemma table_part_empty_base : forall flats (p : bytes) ps,
  (exists pre g post e',
      table None flats = pre ++ g :: post
      /\ Forall (fun x => route_matches_flat x p = false) pre
      /\ In e' (expand_optionals g) /\ flat_match e' p = Some ps) ->
  exists pre g post e',
      table (Some []) flats = pre ++ g :: post
      /\ Forall (fun x => route_matches_flat x p = false) pre
      /\ In e' (expand_optionals g) /\ flat_match e' p = Some ps.
Proof.
  intros flats p ps (pre & g & post & e' & Ht & Hpre & He & Hm). cbn [table] in Ht.
  exists (map (cons (PStatic [])) pre), (PStatic [] :: g), (map (cons (PStatic [])) post), (PStatic [] :: e').
  split; [cbn [table]; rewrite Ht, map_app; reflexivity|]. split; [|split].
  - apply Forall_forall. intros x Hin. apply in_map_iff in Hin as (x0 & <- & Hx0).
    rewrite rmf_static_nil. rewrite Forall_forall in Hpre. now apply Hpre.
  - rewrite expand_static_cons. now apply in_map.
  - now rewrite flat_match_static_nil.
Qed.

Lemma firstn_table_empty_base : forall flats i (p : bytes),
  Forall (fun x => route_matches_flat x p = false) (firstn i (table (Some []) flats)) ->
  Forall (fun x => route_matches_flat x p = false) (firstn i (table None flats)).
Proof.
  intros flats i p H. cbn [table] in *. rewrite firstn_map in H.
  apply Forall_forall. intros x Hx. rewrite Forall_forall in H.
  rewrite <- rmf_static_nil. apply H. now apply in_map.
Qed.

Lemma none_ne_some_nil : (@None bytes) <> Some [].
Proof. discriminate. Qed.

Lemma base_cases : forall base : option bytes, base = Some [] \/ base <> Some [].
Proof.
  intros [[|c b]|]; [left; reflexivity|right; discriminate|right; discriminate].
Qed.

(** ---- the theorems for every base, the empty one included ---- *)
Theorem match_iff_flat_fine :
  forall (base : option bytes) rs p,
    wf_tree rs = true -> wf_routes rs = true -> starts_with_slash p = true ->
    known_class base rs p = false ->
    matches base rs p = flat_any base rs p /\ match_route base rs p <> MPanic.
Proof.
  intros base rs p Hwt Hwf Hsl Hk.
  destruct (base_cases base) as [-> | Hne]; [|now apply match_iff_flat_fine_ne].
  rewrite known_class_empty_base in Hk.
  destruct (match_iff_flat_fine_ne None rs p none_ne_some_nil Hwt Hwf Hsl Hk) as [H1 H2].
  unfold matches in *. rewrite match_route_empty_base, flat_any_empty_base. split; assumption.
Qed.

Theorem first_entry_wins_params :
  forall (base : option bytes) rs p ch ps,
    wf_tree rs = true -> wf_routes rs = true -> starts_with_slash p = true ->
    known_class base rs p = false ->
    match_route base rs p = MYes ch ps ->
    exists pre f post e,
      table base (gen_routes rs) = pre ++ f :: post
      /\ Forall (fun g => route_matches_flat g p = false) pre
      /\ In e (expand_optionals f)
      /\ flat_match e p = Some ps.
Proof.
  intros base rs p ch ps Hwt Hwf Hsl Hk Hm.
  destruct (base_cases base) as [-> | Hne]; [|now apply (first_entry_wins_params_ne base rs p ch ps)].
  rewrite known_class_empty_base in Hk. rewrite match_route_empty_base in Hm.
  apply table_part_empty_base.
  exact (first_entry_wins_params_ne None rs p ch ps none_ne_some_nil Hwt Hwf Hsl Hk Hm).
Qed.

Theorem build_then_match_any :
  forall (base : option bytes) rs i f e vals p,
    wf_tree rs = true -> wf_routes rs = true ->
    nth_error (gen_routes rs) i = Some f ->
    In e (expand_optionals f) ->
    vals_ok e vals -> p = built base e vals ->
    known_class base rs p = false ->
    exists ch ps,
      match_route base rs p = MYes ch ps
      /\ (exists pre g post e',
            table base (gen_routes rs) = pre ++ g :: post
            /\ Forall (fun x => route_matches_flat x p = false) pre
            /\ In e' (expand_optionals g) /\ flat_match e' p = Some ps)
      /\ (existsb is_popt f = false ->
          Forall (fun x => route_matches_flat x p = false) (firstn i (table base (gen_routes rs))) ->
          ps = bindings f vals).
Proof.
  intros base rs i f e vals p Hwt Hwf Hi He Hv Hp Hk.
  destruct (base_cases base) as [-> | Hne];
    [|now apply (build_then_match_any_ne base rs i f e vals p)].
  rewrite known_class_empty_base in Hk.
  destruct (build_then_match_any_ne None rs i f e vals p none_ne_some_nil Hwt Hwf Hi He Hv Hp Hk)
    as (ch & ps & Hm & Htab & Hps).
  exists ch, ps. split; [now rewrite match_route_empty_base|]. split.
  - now apply table_part_empty_base.
  - intros Hfo Hfirst. apply Hps; [exact Hfo|]. now apply firstn_table_empty_base.
Qed.

Lemma into_paths_empty_base : forall e pm,
  into_paths (registered (Some []) e) pm = into_paths (registered None e) pm.
Proof. reflexivity. Qed.

Theorem build_then_match_real :
  forall (base : option bytes) rs i f e pm paths p,
    wf_tree rs = true -> wf_routes rs = true ->
    nth_error (gen_routes rs) i = Some f -> In e (expand_optionals f) ->
    pm_ok pm ->
    into_paths (registered base e) pm = Some paths -> In p paths ->
    starts_with_slash p = true -> known_class base rs p = false ->
    exists vals ch ps,
      vals_ok e vals /\ p = built base e vals
      /\ match_route base rs p = MYes ch ps
      /\ (exists pre g post e',
            table base (gen_routes rs) = pre ++ g :: post
            /\ Forall (fun x => route_matches_flat x p = false) pre
            /\ In e' (expand_optionals g) /\ flat_match e' p = Some ps)
      /\ (existsb is_popt f = false ->
          Forall (fun x => route_matches_flat x p = false) (firstn i (table base (gen_routes rs))) ->
          ps = bindings f vals).
Proof.
  intros base rs i f e pm paths p Hwt Hwf Hi He Hpm Hip Hp Hsl Hk.
  destruct (base_cases base) as [-> | Hne];
    [|now apply (build_then_match_real_ne base rs i f e pm paths p)].
  rewrite known_class_empty_base in Hk. rewrite into_paths_empty_base in Hip.
  destruct (build_then_match_real_ne None rs i f e pm paths p none_ne_some_nil
              Hwt Hwf Hi He Hpm Hip Hp Hsl Hk)
    as (vals & ch & ps & Hv & Hpb & Hm & Htab & Hps).
  exists vals, ch, ps. split; [exact Hv|]. split; [exact Hpb|].
  split; [now rewrite match_route_empty_base|]. split.
  - now apply table_part_empty_base.
  - intros Hfo Hfirst. apply Hps; [exact Hfo|]. now apply firstn_table_empty_base.
Qed.

(** the production configuration is inside the theorems: no <Router base>, i.e. base "" *)
Example empty_base_nontrivial :
  let rs := [Route (SStatic []) (Some [Route (SStatic []) None;
                                       Route (STuple [SStatic [97]; SParam [120]]) None])] in
  let p := [47; 97; 47; 49] in
  wf_tree rs = true /\ wf_routes rs = true /\ known_class (Some []) rs p = false
  /\ matches (Some []) rs p = true /\ flat_any (Some []) rs p = true.
Proof. vm_compute. repeat split; reflexivity. Qed.
