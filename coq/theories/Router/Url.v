(** Model of leptos_router's server-side URL / query / parameter decoding.
    Anchors: router/src/location/mod.rs (Url::escape / Url::unescape, ssr),
    router/src/location/server.rs (RequestUrl::parse_with_base),
    router/src/params.rs (ParamsMap), plus the parts of the [percent_encoding] and
    [form_urlencoded] crates they call (modelled, see DESIGN.md trusted base). *)
From Coq Require Import List NArith Bool.
From LV Require Import Base.Bytes.
Import ListNotations.
Open Scope N_scope.

(** percent_encoding::utf8_percent_encode(s, NON_ALPHANUMERIC) *)
Definition esc_byte (b : N) : bytes :=
  if is_alnum b then [b] else [37; hex_digit (b / 16); hex_digit (b mod 16)].
Definition escape (s : bytes) : bytes := flat_map esc_byte s.

(** percent_encoding::percent_decode: '%' followed by two hex digits is one byte,
    any other '%' is literal. *)
Fixpoint percent_decode (s : bytes) : bytes :=
  match s with
  | [] => []
  | b :: t =>
      if b =? 37 then
        match t with
        | h :: l :: t' =>
            match hex_val h, hex_val l with
            | Some hv, Some lv => (hv * 16 + lv) :: percent_decode t'
            | _, _ => b :: percent_decode t
            end
        | _ => b :: percent_decode t
        end
      else b :: percent_decode t
  end.

(** Url::unescape (feature ssr, after the fix: decode_utf8_lossy) *)
Definition unescape (s : bytes) : bytes := from_utf8_lossy (percent_decode s).

(** ---- form_urlencoded::parse ---- *)
Fixpoint split_on (sep : N) (s : bytes) : list bytes :=
  match s with
  | [] => [[]]
  | b :: t =>
      match split_on sep t with
      | cur :: rest => if b =? sep then [] :: cur :: rest else (b :: cur) :: rest
      | [] => [[b]]  (* unreachable *)
      end
  end.

(** split at the first occurrence of [sep]; [None] as second component if absent *)
Fixpoint split_first (sep : N) (s : bytes) : bytes * option bytes :=
  match s with
  | [] => ([], None)
  | b :: t =>
      if b =? sep then ([], Some t)
      else let '(a, r) := split_first sep t in (b :: a, r)
  end.

Definition plus_to_space (s : bytes) : bytes := map (fun b => if b =? 43 then 32 else b) s.
Definition form_decode (s : bytes) : bytes :=
  from_utf8_lossy (percent_decode (plus_to_space s)).

Definition form_parse (q : bytes) : list (bytes * bytes) :=
  flat_map
    (fun seq =>
       match seq with
       | [] => []
       | _ => let '(name, value) := split_first 61 seq in
              [(form_decode name, form_decode (match value with Some v => v | None => [] end))]
       end)
    (split_on 38 q).

(** ---- ParamsMap ---- *)
Definition pmap := list (bytes * list bytes).

Fixpoint bytes_eqb (a b : bytes) : bool :=
  match a, b with
  | [], [] => true
  | x :: a, y :: b => (x =? y) && bytes_eqb a b
  | _, _ => false
  end.

Fixpoint insert_decoded (m : pmap) (k v : bytes) : pmap :=
  match m with
  | [] => [(k, [v])]
  | (k', vs) :: m' =>
      if bytes_eqb k' k then (k', vs ++ [v]) :: m' else (k', vs) :: insert_decoded m' k v
  end.
(** ParamsMap::insert: decodes the value, not the key *)
Definition insert (m : pmap) (k v : bytes) : pmap := insert_decoded m k (unescape v).

(** FromIterator<(K,V)> for ParamsMap — used for raw route-parameter segments *)
Definition collect (kvs : list (bytes * bytes)) : pmap :=
  fold_left (fun m kv => insert m (fst kv) (snd kv)) kvs [].
Definition collect_decoded (kvs : list (bytes * bytes)) : pmap :=
  fold_left (fun m kv => insert_decoded m (fst kv) (snd kv)) kvs [].

(** ParamsMap::replace: decodes the value; an existing entry keeps its place and loses its
    earlier values *)
Fixpoint replace_decoded (m : pmap) (k v : bytes) : pmap :=
  match m with
  | [] => [(k, [v])]
  | (k', vs) :: m' =>
      if bytes_eqb k' k then (k', [v]) :: m' else (k', vs) :: replace_decoded m' k v
  end.
Definition replace (m : pmap) (k v : bytes) : pmap := replace_decoded m k (unescape v).

(** the reading API.  get_all: the values of the first entry with that key;
    get / get_str: [find_map] over the entries, the last value of the first entry with that
    key that has one *)
Fixpoint get_all (m : pmap) (k : bytes) : option (list bytes) :=
  match m with
  | [] => None
  | (k', vs) :: m' => if bytes_eqb k' k then Some vs else get_all m' k
  end.
Definition last_opt (vs : list bytes) : option bytes :=
  match rev vs with [] => None | v :: _ => Some v end.
Fixpoint get_str (m : pmap) (k : bytes) : option bytes :=
  match m with
  | [] => None
  | (k', vs) :: m' =>
      if bytes_eqb k' k
      then match last_opt vs with Some v => Some v | None => get_str m' k end
      else get_str m' k
  end.

(** ParamsMap::remove: [Vec::swap_remove] of the first entry with that key (the last entry
    takes its place) *)
Fixpoint find_key (m : pmap) (k : bytes) (i : nat) : option (nat * list bytes) :=
  match m with
  | [] => None
  | (k', vs) :: m' => if bytes_eqb k' k then Some (i, vs) else find_key m' k (S i)
  end.
Definition swap_remove {A} (l : list A) (i : nat) : list A :=
  match rev l with
  | [] => []
  | lastx :: _ =>
      let body := removelast l in
      if Nat.eqb i (length body) then body
      else firstn i body ++ lastx :: skipn (S i) body
  end.
Definition remove (m : pmap) (k : bytes) : pmap * option (list bytes) :=
  match find_key m k 0 with
  | None => (m, None)
  | Some (i, vs) => (swap_remove m i, Some vs)
  end.

(** IntoIterator for ParamsMap *)
Definition pairs_of (m : pmap) : list (bytes * bytes) :=
  flat_map (fun kv => map (fun v => (fst kv, v)) (snd kv)) m.

(** ParamsMap::to_query_string, without the leading '?' (the '?' is not part of the query) *)
Definition pair_qs (kv : bytes * bytes) : bytes := escape (fst kv) ++ [61] ++ escape (snd kv).
Fixpoint join_amp (l : list bytes) : bytes :=
  match l with
  | [] => []
  | [x] => x
  | x :: t => x ++ [38] ++ join_amp t
  end.
Definition query_of (m : pmap) : bytes := join_amp (map pair_qs (pairs_of m)).
Definition to_query_string (m : pmap) : bytes :=
  match m with [] => [] | _ => match pairs_of m with [] => [63] | _ => 63 :: query_of m end end.

(** ---- RequestUrl::parse (the part of the WHATWG parser the structured generator
    exercises: a path-absolute reference "/p?query#fragment") ---- *)
Definition is_tab_nl (b : N) : bool := (b =? 9) || (b =? 10) || (b =? 13).
Definition c0_or_space (b : N) : bool := b <=? 32.
Fixpoint drop_while (f : N -> bool) (s : bytes) : bytes :=
  match s with [] => [] | b :: t => if f b then drop_while f t else s end.
Definition trim_c0 (s : bytes) : bytes :=
  rev (drop_while c0_or_space (rev (drop_while c0_or_space s))).

Definition url_query (input : bytes) : option bytes :=
  let s := filter (fun b => negb (is_tab_nl b)) (trim_c0 input) in
  let '(before_frag, _) := split_first 35 s in
  snd (split_first 63 before_frag).

(** search_params of the parsed URL (after the fix: query_pairs' output is inserted
    without a second decode) *)
Definition parse_search_params (input : bytes) : pmap :=
  match url_query input with
  | None => []
  | Some q => collect_decoded (form_parse q)
  end.

(** parameters of a matched flat route: raw (still encoded) path segments go through the
    decoding FromIterator exactly once *)
Definition route_params (raw : list (bytes * bytes)) : pmap := collect raw.

(** nested router: params_including_parents re-collects the already decoded maps of the
    ancestors and of the route itself (after the fix: without decoding again) *)
Definition params_including_parents (levels : list (list (bytes * bytes))) : pmap :=
  collect_decoded (flat_map (fun raw => pairs_of (route_params raw)) levels).

(** the nested router in general: [own] lists, outermost route first, the raw (name, segment)
    pairs each matched route captured itself.  NestedMatch::to_params of a route also carries
    the params of all its descendants (matching/nested/mod.rs: params.extend(inner_params));
    the map a component at depth i reads is params_including_parents of the routes 0..i *)
Fixpoint to_params_levels (own : list (list (bytes * bytes))) : list (list (bytes * bytes)) :=
  match own with
  | [] => []
  | o :: rest => (o ++ concat rest) :: to_params_levels rest
  end.
Definition level_maps (own : list (list (bytes * bytes))) : list pmap :=
  let raw := to_params_levels own in
  map (fun i => params_including_parents (firstn (S i) raw)) (seq 0 (length raw)).
