(** Executable entry point of the C15 model for the correspondence check
    (case language: harness/router/src/c15.rs). *)
From Coq Require Import List ZArith NArith.
From LV Require Import Base.Sexp Base.Bytes Router.Url.
Import ListNotations.

(** a map is printed with what the reading API returns for each of its keys *)
Definition s_reads (m : pmap) (k : bytes) : sexp :=
  Lst [ sopt (fun vs => Lst (map sbytes vs)) (get_all m k);
        sopt sbytes (get_str m k);      (* ParamsMap::get = get_str + to_owned *)
        sopt sbytes (get_str m k) ].
Definition s_pmap (m : pmap) : sexp :=
  Lst (map (fun kv => Lst [sbytes (fst kv); Lst (map sbytes (snd kv)); s_reads m (fst kv)]) m).
Definition as_pmap (s : sexp) : pmap :=
  map (fun kv => (as_bytes (nth_s 0 kv), map as_bytes (as_list (nth_s 1 kv)))) (as_list s).
Definition as_pairs (s : sexp) : list (bytes * bytes) :=
  map (fun kv => (as_bytes (nth_s 0 kv), as_bytes (nth_s 1 kv))) (as_list s).

(** ops 5/6: the (name, raw segment) pairs a level of the chain captures *)
Definition seg_binding (sg : sexp) : list (bytes * bytes) :=
  match as_Z (nth_s 0 sg) with
  | 1%Z | 3%Z => [(as_bytes (nth_s 1 sg), as_bytes (nth_s 2 sg))]
  | 2%Z => match as_list (nth_s 2 sg) with
           | r :: _ => [(as_bytes (nth_s 1 sg), as_bytes r)]
           | [] => []
           end
  | _ => []
  end.
Definition level_bindings (level : sexp) : list (bytes * bytes) :=
  flat_map seg_binding (as_list level).

Definition query_map (q : sexp) : pmap :=
  match as_list q with
  | [] => []
  | raw :: _ => parse_search_params (47%N :: 63%N :: as_bytes raw)
  end.

Definition param_names : list bytes := [[97%N]; [98%N]; [99%N]; [105%N; 100%N]].
Definition query_names : list bytes := [[113%N]; [97%N]; [107%N]; []].
Definition s_typed (m : pmap) (names : list bytes) : sexp :=
  Lst (map (fun n => sopt sbytes (get_str m n)) names).

Definition s_leaf (leafmap qm : pmap) : sexp :=
  Lst [ s_pmap qm; s_pmap qm; s_typed leafmap param_names; s_typed qm query_names;
        sopt sbytes (get_str qm [113%N]) ].

Definition step (st : pmap * list sexp) (s : sexp) : pmap * list sexp :=
  let '(m, removed) := st in
  let k := as_bytes (nth_s 1 s) in
  match as_Z (nth_s 0 s) with
  | 0%Z => (insert m k (as_bytes (nth_s 2 s)), removed)
  | 1%Z => (replace m k (as_bytes (nth_s 2 s)), removed)
  | _ => let '(m', r) := remove m k in
         (m', removed ++ [sopt (fun vs => Lst (map sbytes vs)) r])
  end.

Definition run_C15 (c : sexp) : sexp :=
  let arg := nth_s 1 c in
  match as_Z (nth_s 0 c) with
  | 0%Z => sbytes (escape (as_bytes arg))
  | 1%Z => sbytes (unescape (as_bytes arg))     (* also Url::unescape_minimal (ssr) *)
  | 2%Z => s_pmap (parse_search_params (as_bytes arg))
  | 7%Z => (* leptos_actix: "http://leptos" ++ path_and_query; the model is applied to the
              path-and-query part (that the prefix does not change the query is compared) *)
           s_pmap (parse_search_params (as_bytes arg))
  | 3%Z => let m := as_pmap arg in
           let qs := to_query_string m in
           Lst [sbytes qs; s_pmap (parse_search_params (47%N :: qs)); s_pmap m]
  | 4%Z => s_pmap (route_params (as_pairs arg))
  | 5%Z => let own := map level_bindings (as_list (nth_s 2 c)) in
           let maps := level_maps own in
           Lst [ Lst (map s_pmap maps); s_leaf (last maps []) (query_map (nth_s 3 c)) ]
  | 6%Z => (* flat router: the one route's params go through the decoding FromIterator *)
           let own := flat_map level_bindings (as_list (nth_s 2 c)) in
           let m := route_params own in
           Lst [ Lst [s_pmap m]; s_leaf m (query_map (nth_s 3 c)) ]
  | 8%Z => let '(m, removed) := fold_left step (as_list arg) ([], []) in
           let qs := to_query_string m in
           Lst [ Lst removed; s_pmap m; sbytes qs; s_pmap (parse_search_params (47%N :: qs)) ]
  | _ => Lst []
  end.
