(** Executable entry point of the C15 model for the correspondence check. *)
From Coq Require Import List ZArith NArith.
From LV Require Import Base.Sexp Base.Bytes Router.Url.
Import ListNotations.

Definition s_pmap (m : pmap) : sexp :=
  Lst (map (fun kv => Lst [sbytes (fst kv); Lst (map sbytes (snd kv))]) m).
Definition as_pmap (s : sexp) : pmap :=
  map (fun kv => (as_bytes (nth_s 0 kv), map as_bytes (as_list (nth_s 1 kv)))) (as_list s).
Definition as_pairs (s : sexp) : list (bytes * bytes) :=
  map (fun kv => (as_bytes (nth_s 0 kv), as_bytes (nth_s 1 kv))) (as_list s).

Definition run_C15 (c : sexp) : sexp :=
  let arg := nth_s 1 c in
  match as_Z (nth_s 0 c) with
  | 0%Z => sbytes (escape (as_bytes arg))
  | 1%Z => sbytes (unescape (as_bytes arg))
  | 2%Z => s_pmap (parse_search_params (as_bytes arg))
  | 3%Z => let m := as_pmap arg in
           let qs := to_query_string m in
           Lst [sbytes qs; s_pmap (parse_search_params (47%N :: qs))]
  | 4%Z => s_pmap (route_params (as_pairs arg))
  | 5%Z => (* nested routes "/:a" > ":b" matched against "/<raw_a>/<raw_b>" *)
           (* NestedMatch.params of the parent also carries the child's params
              (matching/nested/mod.rs: params.extend(inner_params)) *)
           let a := ([97%N], as_bytes (nth_s 0 arg)) in
           let b := ([98%N], as_bytes (nth_s 1 arg)) in
           s_pmap (params_including_parents [[a; b]; [b]])
  | 6%Z => (* flat route "/u/:id" matched against "/u/<raw>" *)
           s_pmap (route_params [([105%N; 100%N], as_bytes arg)])
  | _ => Lst []
  end.
