From Coq Require Import List NArith Bool Lia.
From LV Require Import Base.Bytes Router.Url.
Import ListNotations.
Open Scope N_scope.

Ltac bdestr :=
  repeat match goal with
  | |- context [N.leb ?a ?b] => destruct (N.leb_spec a b)
  | |- context [N.ltb ?a ?b] => destruct (N.ltb_spec a b)
  | |- context [N.eqb ?a ?b] => destruct (N.eqb_spec a b)
  | H : context [N.leb ?a ?b] |- _ => destruct (N.leb_spec a b)
  | H : context [N.ltb ?a ?b] |- _ => destruct (N.ltb_spec a b)
  | H : context [N.eqb ?a ?b] |- _ => destruct (N.eqb_spec a b)
  end.

(** * hex digits *)
Lemma hex_val_hex_digit n : n < 16 -> hex_val (hex_digit n) = Some n.
Proof.
  intros Hn. unfold hex_val, hex_digit, is_digit, in_range.
  destruct (N.ltb_spec n 10).
  - replace ((48 <=? 48 + n) && (48 + n <=? 57)) with true
      by (symmetry; apply andb_true_iff; split; apply N.leb_le; lia).
    f_equal; lia.
  - replace ((48 <=? 55 + n) && (55 + n <=? 57)) with false
      by (symmetry; apply andb_false_iff; right; apply N.leb_gt; lia).
    replace ((65 <=? 55 + n) && (55 + n <=? 70)) with true
      by (symmetry; apply andb_true_iff; split; apply N.leb_le; lia).
    f_equal; lia.
Qed.

Lemma alnum_not_special b : is_alnum b = true ->
  b <> 37 /\ b <> 38 /\ b <> 61 /\ b <> 43 /\ b <> 35 /\ b <> 63 /\ 32 < b /\ b < 128.
Proof.
  unfold is_alnum, is_digit, is_upper, is_lower, in_range. intros H.
  repeat (apply orb_true_iff in H; destruct H as [H|H]);
    apply andb_true_iff in H; destruct H as [H1 H2];
    apply N.leb_le in H1; apply N.leb_le in H2; lia.
Qed.

Lemma hex_digit_alnum n : n < 16 -> is_alnum (hex_digit n) = true.
Proof.
  intros Hn. unfold is_alnum, is_digit, is_upper, is_lower, in_range, hex_digit.
  destruct (N.ltb_spec n 10).
  - apply orb_true_iff; left; apply orb_true_iff; left.
    apply andb_true_iff; split; apply N.leb_le; lia.
  - apply orb_true_iff; left; apply orb_true_iff; right.
    apply andb_true_iff; split; apply N.leb_le; lia.
Qed.

(** * escape / percent_decode *)
Lemma percent_decode_esc_byte b rest :
  b < 256 -> percent_decode (esc_byte b ++ rest) = b :: percent_decode rest.
Proof.
  intros Hb. unfold esc_byte. destruct (is_alnum b) eqn:Ha.
  - apply alnum_not_special in Ha. cbn [app percent_decode].
    destruct (N.eqb_spec b 37); [lia|reflexivity].
  - cbn [app percent_decode]. rewrite N.eqb_refl.
    assert (H1 : b / 16 < 16) by (apply N.div_lt_upper_bound; lia).
    assert (H2 : b mod 16 < 16) by (apply N.mod_lt; lia).
    rewrite (hex_val_hex_digit _ H1), (hex_val_hex_digit _ H2).
    f_equal. rewrite (N.div_mod b 16) at 3 by lia. lia.
Qed.

Lemma percent_decode_escape_app s rest :
  all_bytes s = true -> percent_decode (escape s ++ rest) = s ++ percent_decode rest.
Proof.
  induction s as [|b s IH]; intros Hs; [reflexivity|].
  cbn [all_bytes forallb] in Hs. apply andb_true_iff in Hs as [Hb Hs].
  unfold escape; cbn [flat_map]. rewrite <- app_assoc.
  rewrite percent_decode_esc_byte by (apply N.ltb_lt; exact Hb).
  cbn [app]. f_equal. apply IH. exact Hs.
Qed.

Lemma percent_decode_escape s : all_bytes s = true -> percent_decode (escape s) = s.
Proof.
  intros Hs. rewrite <- (app_nil_r (escape s)).
  rewrite percent_decode_escape_app by exact Hs. cbn [percent_decode]. apply app_nil_r.
Qed.

(** * from_utf8_lossy is the identity on valid UTF-8 *)
Lemma lossy_valid_fuel f : forall l, valid_fuel f l = true -> lossy_fuel f l = l.
Proof.
  induction f as [|f IH]; intros l H.
  - destruct l; [reflexivity|discriminate].
  - destruct l as [|b rest]; [reflexivity|].
    cbn [valid_fuel lossy_fuel] in *.
    destruct (utf8_step b rest) as [n ok].
    apply andb_true_iff in H as [Hok Hv]. rewrite Hok.
    rewrite (IH _ Hv). apply firstn_skipn.
Qed.

Lemma lossy_valid l : utf8_valid l = true -> from_utf8_lossy l = l.
Proof. apply lossy_valid_fuel. Qed.

Theorem unescape_escape s :
  all_bytes s = true -> utf8_valid s = true -> unescape (escape s) = s.
Proof.
  intros Hb Hv. unfold unescape. rewrite percent_decode_escape by exact Hb.
  apply lossy_valid; exact Hv.
Qed.

(** * characters of an escaped string *)
Definition qsafe (b : N) : bool := is_alnum b || (b =? 37).

Lemma escape_qsafe s : all_bytes s = true -> forallb qsafe (escape s) = true.
Proof.
  induction s as [|b s IH]; intros Hs; [reflexivity|].
  cbn [all_bytes forallb] in Hs. apply andb_true_iff in Hs as [Hb Hs].
  apply N.ltb_lt in Hb.
  unfold escape; cbn [flat_map]. rewrite forallb_app. apply andb_true_iff. split; [|apply IH; exact Hs].
  unfold esc_byte. destruct (is_alnum b) eqn:Ha.
  - cbn [forallb]. unfold qsafe. rewrite Ha. reflexivity.
  - cbn [forallb]. unfold qsafe at 1. rewrite N.eqb_refl, orb_true_r.
    unfold qsafe. rewrite !hex_digit_alnum; [reflexivity| apply N.mod_lt; lia | apply N.div_lt_upper_bound; lia].
Qed.

Lemma qsafe_spec b : qsafe b = true ->
  b <> 38 /\ b <> 61 /\ b <> 43 /\ b <> 35 /\ b <> 63 /\ 32 < b /\ b <> 9 /\ b <> 10 /\ b <> 13.
Proof.
  unfold qsafe. intros H. apply orb_true_iff in H as [H|H].
  - apply alnum_not_special in H. lia.
  - apply N.eqb_eq in H. lia.
Qed.

Lemma split_first_absent sep s :
  (forall x, In x s -> x <> sep) -> split_first sep s = (s, None).
Proof.
  induction s as [|b t IH]; intros H; [reflexivity|].
  cbn [split_first]. destruct (N.eqb_spec b sep) as [E|E].
  - exfalso. apply (H b); [left; reflexivity|exact E].
  - rewrite IH; [reflexivity|]. intros x Hx. apply H. right; exact Hx.
Qed.

Lemma split_first_app sep a rest :
  (forall x, In x a -> x <> sep) -> split_first sep (a ++ sep :: rest) = (a, Some rest).
Proof.
  induction a as [|b t IH]; intros H.
  - cbn [app split_first]. rewrite N.eqb_refl. reflexivity.
  - cbn [app split_first]. destruct (N.eqb_spec b sep) as [E|E].
    + exfalso. apply (H b); [left; reflexivity|exact E].
    + rewrite IH; [reflexivity|]. intros x Hx. apply H. right; exact Hx.
Qed.

Lemma split_on_absent sep s :
  (forall x, In x s -> x <> sep) -> split_on sep s = [s].
Proof.
  induction s as [|b t IH]; intros H; [reflexivity|].
  cbn [split_on]. rewrite IH by (intros x Hx; apply H; right; exact Hx).
  destruct (N.eqb_spec b sep) as [E|E]; [|reflexivity].
  exfalso. apply (H b); [left; reflexivity|exact E].
Qed.

Lemma split_on_app sep a rest :
  (forall x, In x a -> x <> sep) -> split_on sep (a ++ sep :: rest) = a :: split_on sep rest.
Proof.
  induction a as [|b t IH]; intros H.
  - cbn [app split_on]. rewrite N.eqb_refl.
    destruct (split_on sep rest) eqn:E; [|reflexivity].
    exfalso. destruct rest; cbn [split_on] in E; [discriminate|].
    destruct (split_on sep rest); [discriminate|]. destruct (n =? sep); discriminate.
  - cbn [app split_on]. rewrite IH by (intros x Hx; apply H; right; exact Hx).
    destruct (N.eqb_spec b sep) as [E|E]; [|reflexivity].
    exfalso. apply (H b); [left; reflexivity|exact E].
Qed.

(** * well-formed parameter maps: what [ParamsMap]'s API can construct *)
Definition str_ok (s : bytes) : Prop := all_bytes s = true /\ utf8_valid s = true.
Definition pair_ok (kv : bytes * bytes) : Prop := str_ok (fst kv) /\ str_ok (snd kv).

Lemma plus_to_space_escape s : all_bytes s = true -> plus_to_space (escape s) = escape s.
Proof.
  intros Hs. pose proof (escape_qsafe s Hs) as Hq. unfold plus_to_space.
  induction (escape s) as [|b t IH]; [reflexivity|].
  cbn [forallb] in Hq. apply andb_true_iff in Hq as [Hb Ht].
  cbn [map]. rewrite IH by exact Ht. apply qsafe_spec in Hb.
  destruct (N.eqb_spec b 43); [lia|reflexivity].
Qed.

Lemma form_decode_escape s : str_ok s -> form_decode (escape s) = s.
Proof.
  intros [Hb Hv]. unfold form_decode. rewrite plus_to_space_escape by exact Hb.
  rewrite percent_decode_escape by exact Hb. apply lossy_valid; exact Hv.
Qed.

Lemma in_escape_ne s x : all_bytes s = true -> In x (escape s) ->
  x <> 38 /\ x <> 61 /\ x <> 35 /\ x <> 63 /\ 32 < x /\ x <> 9 /\ x <> 10 /\ x <> 13.
Proof.
  intros Hs Hx. pose proof (escape_qsafe s Hs) as Hq.
  rewrite forallb_forall in Hq. specialize (Hq x Hx). apply qsafe_spec in Hq. lia.
Qed.

Lemma in_pair_qs kv x : pair_ok kv -> In x (pair_qs kv) ->
  x <> 38 /\ x <> 35 /\ x <> 63 /\ 32 < x /\ x <> 9 /\ x <> 10 /\ x <> 13.
Proof.
  intros [[Hk _] [Hv _]] Hx. unfold pair_qs in Hx.
  apply in_app_or in Hx as [Hx|Hx]; [apply (in_escape_ne _ _ Hk) in Hx; lia|].
  apply in_app_or in Hx as [Hx|Hx]; [|apply (in_escape_ne _ _ Hv) in Hx; lia].
  destruct Hx as [<-|[]]. lia.
Qed.

Lemma form_parse_join kvs :
  Forall pair_ok kvs -> form_parse (join_amp (map pair_qs kvs)) = kvs.
Proof.
  assert (Hone : forall kv, pair_ok kv ->
            (match pair_qs kv with
             | [] => []
             | _ => let '(name, value) := split_first 61 (pair_qs kv) in
                    [(form_decode name, form_decode (match value with Some v => v | None => [] end))]
             end) = [kv]).
  { intros [k v] [Hk Hv]. cbn [fst snd] in *. unfold pair_qs; cbn [fst snd].
    destruct (escape k ++ [61] ++ escape v) eqn:E.
    - exfalso. destruct (escape k); discriminate.
    - rewrite <- E. cbn [app]. rewrite split_first_app.
      + rewrite !form_decode_escape by assumption. reflexivity.
      + intros x Hx. apply (in_escape_ne _ _ (proj1 Hk)) in Hx. lia. }
  induction kvs as [|kv kvs IH]; intros H; [reflexivity|].
  inversion H as [|? ? Hkv Hrest]; subst.
  destruct kvs as [|kv2 kvs].
  - cbn [map join_amp]. unfold form_parse.
    rewrite split_on_absent by (intros x Hx; apply (in_pair_qs _ _ Hkv) in Hx; lia).
    cbn [flat_map]. rewrite Hone by exact Hkv. reflexivity.
  - change (join_amp (map pair_qs (kv :: kv2 :: kvs)))
      with (pair_qs kv ++ [38] ++ join_amp (map pair_qs (kv2 :: kvs))).
    unfold form_parse. cbn [app].
    rewrite split_on_app by (intros x Hx; apply (in_pair_qs _ _ Hkv) in Hx; lia).
    cbn [flat_map]. rewrite Hone by exact Hkv.
    cbn [app]. f_equal. apply IH. exact Hrest.
Qed.

(** * ParamsMap reconstruction *)
Lemma bytes_eqb_eq a b : bytes_eqb a b = true <-> a = b.
Proof.
  revert b; induction a as [|x a IH]; intros [|y b]; cbn [bytes_eqb]; split; intros H;
    try reflexivity; try discriminate.
  - apply andb_true_iff in H as [H1 H2]. apply N.eqb_eq in H1. apply IH in H2. congruence.
  - inversion H; subst. rewrite N.eqb_refl. apply IH. reflexivity.
Qed.

Definition keys (m : pmap) : list bytes := map fst m.

Lemma insert_decoded_fresh m k v :
  ~ In k (keys m) -> insert_decoded m k v = m ++ [(k, [v])].
Proof.
  induction m as [|[k' vs] m IH]; intros H; [reflexivity|].
  cbn [insert_decoded app]. destruct (bytes_eqb k' k) eqn:E.
  - apply bytes_eqb_eq in E. exfalso. apply H. left. exact E.
  - f_equal. apply IH. intros Hin. apply H. right. exact Hin.
Qed.

Lemma insert_decoded_last m k vs v :
  ~ In k (keys m) -> insert_decoded (m ++ [(k, vs)]) k v = m ++ [(k, vs ++ [v])].
Proof.
  induction m as [|[k' vs'] m IH]; intros H.
  - cbn [insert_decoded app]. replace (bytes_eqb k k) with true by (symmetry; apply bytes_eqb_eq; reflexivity).
    reflexivity.
  - cbn [insert_decoded app]. destruct (bytes_eqb k' k) eqn:E.
    + apply bytes_eqb_eq in E. exfalso. apply H. left. exact E.
    + f_equal. apply IH. intros Hin. apply H. right. exact Hin.
Qed.

Lemma fold_insert_values acc k vs more :
  ~ In k (keys acc) ->
  fold_left (fun m kv => insert_decoded m (fst kv) (snd kv)) (map (fun v => (k, v)) more) (acc ++ [(k, vs)])
  = acc ++ [(k, vs ++ more)].
Proof.
  revert vs. induction more as [|v more IH]; intros vs H.
  - cbn [map fold_left]. rewrite app_nil_r. reflexivity.
  - cbn [map fold_left fst snd]. rewrite insert_decoded_last by exact H.
    rewrite IH by exact H. rewrite <- app_assoc. reflexivity.
Qed.

Definition wf_map (m : pmap) : Prop :=
  NoDup (keys m) /\ Forall (fun kv => snd kv <> []) m /\ Forall pair_ok (pairs_of m).

Lemma collect_decoded_pairs_gen m : forall acc,
  NoDup (keys acc ++ keys m) -> Forall (fun kv => snd kv <> []) m ->
  fold_left (fun m kv => insert_decoded m (fst kv) (snd kv)) (pairs_of m) acc = acc ++ m.
Proof.
  induction m as [|[k vs] m IH]; intros acc Hnd Hne.
  - cbn. rewrite app_nil_r. reflexivity.
  - inversion Hne as [|? ? Hvs Hrest]; subst. cbn [snd] in Hvs.
    destruct vs as [|v vs]; [congruence|].
    unfold pairs_of. cbn [flat_map fst snd map]. rewrite fold_left_app.
    cbn [app fold_left fst snd].
    assert (Hk : ~ In k (keys acc)).
    { cbn [keys map fst] in Hnd. apply NoDup_remove_2 in Hnd. intros Hin. apply Hnd.
      apply in_or_app. left. exact Hin. }
    rewrite insert_decoded_fresh by exact Hk.
    rewrite fold_insert_values by exact Hk. cbn [app].
    fold (pairs_of m). rewrite IH.
    + rewrite <- app_assoc. reflexivity.
    + unfold keys. rewrite map_app. cbn [map fst]. rewrite <- app_assoc. exact Hnd.
    + exact Hrest.
Qed.

Lemma collect_decoded_pairs m :
  NoDup (keys m) -> Forall (fun kv => snd kv <> []) m -> collect_decoded (pairs_of m) = m.
Proof.
  intros H1 H2. unfold collect_decoded. rewrite collect_decoded_pairs_gen; [reflexivity|exact H1|exact H2].
Qed.

(** * the request URL "/" ++ to_query_string m *)
Lemma drop_while_none f s : (forall x, In x s -> f x = false) -> drop_while f s = s.
Proof.
  destruct s as [|b t]; intros H; [reflexivity|]. cbn [drop_while]. rewrite H; [reflexivity|left; reflexivity].
Qed.

Lemma trim_c0_id s : (forall x, In x s -> 32 < x) -> trim_c0 s = s.
Proof.
  intros H. unfold trim_c0.
  assert (Hf : forall x, In x s -> c0_or_space x = false)
    by (intros x Hx; apply N.leb_gt; apply H; exact Hx).
  rewrite (drop_while_none _ s Hf). rewrite drop_while_none.
  - apply rev_involutive.
  - intros x Hx. apply Hf. apply in_rev. exact Hx.
Qed.

Lemma filter_id {A} (f : A -> bool) s : (forall x, In x s -> f x = true) -> filter f s = s.
Proof.
  induction s as [|b t IH]; intros H; [reflexivity|]. cbn [filter].
  rewrite H by (left; reflexivity). f_equal. apply IH. intros x Hx. apply H. right; exact Hx.
Qed.

Lemma in_join_amp l x : In x (join_amp l) -> x = 38 \/ exists e, In e l /\ In x e.
Proof.
  induction l as [|e l IH]; intros H; [destruct H|].
  destruct l as [|e2 l].
  - cbn [join_amp] in H. right. exists e. split; [left; reflexivity|exact H].
  - change (join_amp (e :: e2 :: l)) with (e ++ [38] ++ join_amp (e2 :: l)) in H.
    apply in_app_or in H as [H|H]; [right; exists e; split; [left; reflexivity|exact H]|].
    apply in_app_or in H as [H|H]; [left; destruct H as [<-|[]]; reflexivity|].
    destruct (IH H) as [E|[e' [He' Hx]]]; [left; exact E|right; exists e'; split; [right; exact He'|exact Hx]].
Qed.

Lemma url_query_of q :
  (forall x, In x q -> x <> 35 /\ 32 < x /\ x <> 9 /\ x <> 10 /\ x <> 13) ->
  url_query (47 :: 63 :: q) = Some q.
Proof.
  intros H. unfold url_query.
  assert (Hall : forall x, In x (47 :: 63 :: q) -> x <> 35 /\ 32 < x /\ x <> 9 /\ x <> 10 /\ x <> 13).
  { intros x [<-|[<-|Hx]]; [lia|lia|apply H; exact Hx]. }
  rewrite trim_c0_id by (intros x Hx; apply Hall in Hx; lia).
  rewrite filter_id.
  2:{ intros x Hx. apply Hall in Hx. unfold is_tab_nl.
      destruct (N.eqb_spec x 9); [lia|]. destruct (N.eqb_spec x 10); [lia|].
      destruct (N.eqb_spec x 13); [lia|]. reflexivity. }
  rewrite split_first_absent by (intros x Hx; apply Hall in Hx; lia).
  change (47 :: 63 :: q) with ([47] ++ 63 :: q).
  rewrite split_first_app; [reflexivity|]. intros x [<-|[]]. lia.
Qed.

Theorem map_query_roundtrip m :
  wf_map m -> parse_search_params (47 :: to_query_string m) = m.
Proof.
  intros (Hnd & Hne & Hok). unfold parse_search_params, to_query_string.
  destruct m as [|kv0 m']; [reflexivity|]. set (m := kv0 :: m') in *.
  destruct (pairs_of m) as [|p ps] eqn:Ep.
  - exfalso. subst m. inversion Hne as [|? ? H0 _]; subst.
    destruct kv0 as [k [|v vs]]; [apply H0; reflexivity|]. discriminate.
  - rewrite <- Ep in Hok. rewrite url_query_of.
    + unfold query_of. rewrite form_parse_join by exact Hok.
      apply collect_decoded_pairs; assumption.
    + intros x Hx. unfold query_of in Hx. apply in_join_amp in Hx as [->|[e [He Hx]]]; [lia|].
      apply in_map_iff in He as [kv [<- Hkv]].
      rewrite Forall_forall in Hok. apply (in_pair_qs _ _ (Hok _ Hkv)) in Hx. lia.
Qed.

(** * each parameter is decoded exactly once *)
Theorem query_value_decoded_once k v :
  str_ok k -> str_ok v ->
  parse_search_params ([47; 63] ++ escape k ++ [61] ++ escape v) = [(k, [v])].
Proof.
  intros Hk Hv.
  assert (W : wf_map [(k, [v])]).
  { split; [|split].
    - constructor; [intros []|constructor].
    - constructor; [discriminate|constructor].
    - constructor; [split; assumption|constructor]. }
  pose proof (map_query_roundtrip _ W) as H. exact H.
Qed.

Theorem route_param_decoded_once k v :
  str_ok v -> route_params [(k, escape v)] = [(k, [v])].
Proof.
  intros [Hb Hv]. unfold route_params, collect. cbn [fold_left fst snd]. unfold insert.
  rewrite unescape_escape by assumption. reflexivity.
Qed.

Theorem nested_param_decoded_once k v :
  str_ok v -> params_including_parents [[(k, escape v)]] = [(k, [v])].
Proof.
  intros Hv. unfold params_including_parents. cbn [flat_map].
  rewrite route_param_decoded_once by exact Hv. reflexivity.
Qed.

(** The literal text of an already-decoded value is never decoded again: a value that
    itself looks like an escape ("%41") survives. *)
Example percent_literal_survives :
  parse_search_params [47; 63; 113; 61; 37; 50; 53; 52; 49] = [([113], [[37; 52; 49]])].
Proof. vm_compute. reflexivity. Qed.

(** Regression witnesses of the two repaired defects (F-C15-a, F-C15-b): what the
    pre-fix pipeline computed. *)
Definition insert_twice_prefix (input : bytes) : pmap :=
  match url_query input with None => [] | Some q => collect (form_parse q) end.
Example prefix_double_decode_refuted :
  insert_twice_prefix [47; 63; 113; 61; 37; 50; 53; 52; 49] = [([113], [[65]])].
Proof. vm_compute. reflexivity. Qed.
Example prefix_invalid_utf8_witness :
  utf8_valid (percent_decode [37; 70; 70]) = false.
Proof. vm_compute. reflexivity. Qed.

(** non-vacuity: a map with repeated keys' values, empty strings and multi-byte text *)
Example wf_example :
  wf_map [([97], [[]; [37; 52; 49]]); ([], [[195; 169; 38]])].
Proof.
  split; [|split].
  - repeat constructor; cbn; intuition discriminate.
  - repeat constructor; discriminate.
  - repeat constructor.
Qed.

(** * every value readable from a (nested) params map is a once-decoded raw segment *)
Definition all_values (Q : bytes -> bytes -> Prop) (m : pmap) : Prop :=
  forall k vs v, In (k, vs) m -> In v vs -> Q k v.

Lemma insert_decoded_all Q m k v :
  all_values Q m -> Q k v -> all_values Q (insert_decoded m k v).
Proof.
  induction m as [|[k' vs'] m IH]; intros Hm Hq.
  - intros k0 vs0 v0 [E|[]] Hv. inversion E; subst. destruct Hv as [<-|[]]. exact Hq.
  - cbn [insert_decoded]. destruct (bytes_eqb k' k) eqn:E.
    + apply bytes_eqb_eq in E; subst k'.
      intros k0 vs0 v0 [E0|Hin] Hv.
      * inversion E0; subst. apply in_app_or in Hv as [Hv|[<-|[]]]; [|exact Hq].
        apply (Hm k0 vs'); [left; reflexivity|exact Hv].
      * apply (Hm k0 vs0); [right; exact Hin|exact Hv].
    + intros k0 vs0 v0 [E0|Hin] Hv.
      * inversion E0; subst. apply (Hm k0 vs0); [left; reflexivity|exact Hv].
      * assert (Hm' : all_values Q m) by (intros a b c Ha Hb; apply (Hm a b c); [right; exact Ha|exact Hb]).
        apply (IH Hm' Hq k0 vs0 v0 Hin Hv).
Qed.

Lemma fold_insert_decoded_all Q kvs : forall acc,
  all_values Q acc -> (forall k v, In (k, v) kvs -> Q k v) ->
  all_values Q (fold_left (fun m kv => insert_decoded m (fst kv) (snd kv)) kvs acc).
Proof.
  induction kvs as [|[k v] kvs IH]; intros acc Ha Hq; [exact Ha|].
  cbn [fold_left fst snd]. apply IH.
  - apply insert_decoded_all; [exact Ha|apply Hq; left; reflexivity].
  - intros k0 v0 Hin. apply Hq. right; exact Hin.
Qed.

Lemma fold_insert_all Q kvs : forall acc,
  all_values Q acc -> (forall k r, In (k, r) kvs -> Q k (unescape r)) ->
  all_values Q (fold_left (fun m kv => insert m (fst kv) (snd kv)) kvs acc).
Proof.
  induction kvs as [|[k v] kvs IH]; intros acc Ha Hq; [exact Ha|].
  cbn [fold_left fst snd]. apply IH.
  - unfold insert. apply insert_decoded_all; [exact Ha|apply Hq; left; reflexivity].
  - intros k0 v0 Hin. apply Hq. right; exact Hin.
Qed.

Lemma in_pairs_of m k v : In (k, v) (pairs_of m) -> exists vs, In (k, vs) m /\ In v vs.
Proof.
  unfold pairs_of. intros H. apply in_flat_map in H as [[k' vs] [Hin Hv]].
  cbn [fst snd] in Hv. apply in_map_iff in Hv as [v' [E Hv']]. inversion E; subst.
  exists vs. split; assumption.
Qed.

Theorem route_values_decoded_once raw :
  all_values (fun k v => exists r, In (k, r) raw /\ v = unescape r) (route_params raw).
Proof.
  unfold route_params, collect. apply fold_insert_all.
  - intros k vs v [].
  - intros k r Hin. exists r. split; [exact Hin|reflexivity].
Qed.

Theorem nested_values_decoded_once levels :
  all_values (fun k v => exists raw r, In raw levels /\ In (k, r) raw /\ v = unescape r)
             (params_including_parents levels).
Proof.
  unfold params_including_parents, collect_decoded. apply fold_insert_decoded_all.
  - intros k vs v [].
  - intros k v Hin. apply in_flat_map in Hin as [raw [Hraw Hin]].
    apply in_pairs_of in Hin as [vs [Hvs Hv]].
    destruct (route_values_decoded_once raw k vs v Hvs Hv) as [r [Hr E]].
    exists raw, r. split; [exact Hraw|split; assumption].
Qed.

(** ---- the reading API and ParamsMap::replace ---- *)
Lemma bytes_eqb_refl a : bytes_eqb a a = true.
Proof. apply bytes_eqb_eq. reflexivity. Qed.

Lemma last_opt_snoc vs v : last_opt (vs ++ [v]) = Some v.
Proof. unfold last_opt. rewrite rev_app_distr. reflexivity. Qed.

Lemma get_str_insert_decoded m k v : get_str (insert_decoded m k v) k = Some v.
Proof.
  induction m as [|[k' vs] m IH]; cbn [insert_decoded get_str].
  - rewrite bytes_eqb_refl. reflexivity.
  - destruct (bytes_eqb k' k) eqn:E; cbn [get_str]; rewrite E.
    + rewrite last_opt_snoc. reflexivity.
    + exact IH.
Qed.

Lemma get_replace_decoded m k v :
  get_str (replace_decoded m k v) k = Some v /\ get_all (replace_decoded m k v) k = Some [v].
Proof.
  induction m as [|[k' vs] m IH]; cbn [replace_decoded get_str get_all].
  - rewrite bytes_eqb_refl. split; reflexivity.
  - destruct (bytes_eqb k' k) eqn:E; cbn [get_str get_all]; rewrite E.
    + split; reflexivity.
    + exact IH.
Qed.

(** what [get] / [get_str] hand to the application after [insert(k, raw)] is the raw text
    decoded exactly once (the most recently added value) *)
Theorem insert_read_decoded_once m k v :
  str_ok v -> get_str (insert m k (escape v)) k = Some v.
Proof.
  intros [Hb Hu]. unfold insert. rewrite (unescape_escape v Hb Hu).
  apply get_str_insert_decoded.
Qed.

(** [replace(k, raw)] decodes once and leaves exactly that value under the key *)
Theorem replace_read_decoded_once m k v :
  str_ok v ->
  get_str (replace m k (escape v)) k = Some v /\ get_all (replace m k (escape v)) k = Some [v].
Proof.
  intros [Hb Hu]. unfold replace. rewrite (unescape_escape v Hb Hu).
  apply get_replace_decoded.
Qed.

Example replace_example :
  str_ok [37; 52; 49] /\
  get_all (replace (insert [] [113] [120]) [113] (escape [37; 52; 49])) [113] = Some [[37; 52; 49]].
Proof. vm_compute. repeat split; reflexivity. Qed.

(** ---- the nested router in general (Url.level_maps) ---- *)
Lemma in_to_params_levels own raw kr :
  In raw (to_params_levels own) -> In kr raw -> exists lvl, In lvl own /\ In kr lvl.
Proof.
  induction own as [|o rest IH]; cbn [to_params_levels]; intros Hraw Hkr.
  - destruct Hraw.
  - destruct Hraw as [E | Hraw].
    + subst raw. apply in_app_or in Hkr as [Ho | Hc].
      * exists o. split; [left; reflexivity | exact Ho].
      * apply in_concat in Hc as [lvl [Hl Hk]]. exists lvl. split; [right; exact Hl | exact Hk].
    + destruct (IH Hraw Hkr) as [lvl [Hl Hk]]. exists lvl. split; [right; exact Hl | exact Hk].
Qed.

Lemma in_firstn {A} (x : A) n : forall l, In x (firstn n l) -> In x l.
Proof.
  induction n as [|n IH]; intros [|y l] H; cbn [firstn] in H; try destruct H.
  - left; assumption.
  - right; apply IH; assumption.
Qed.

(** whatever a component at any depth of any chain of nested routes reads from its params
    map is the once-decoded text of a raw segment some route of the chain bound to that name *)
Theorem level_values_decoded_once own m k vs v :
  In m (level_maps own) -> In (k, vs) m -> In v vs ->
  exists lvl r, In lvl own /\ In (k, r) lvl /\ v = unescape r.
Proof.
  unfold level_maps. intros Hm Hk Hv.
  apply in_map_iff in Hm as [i [Em _]]. subst m.
  destruct (nested_values_decoded_once _ k vs v Hk Hv) as [raw [r [Hraw [Hr E]]]].
  apply in_firstn in Hraw.
  destruct (in_to_params_levels own raw (k, r) Hraw Hr) as [lvl [Hl Hin]].
  exists lvl, r. split; [exact Hl | split; [exact Hin | exact E]].
Qed.

Example level_maps_example :
  level_maps [[([97], [37; 52; 49])]; [([98], [37; 50; 53; 52; 49])]]
  = [ [([97], [[65]]); ([98], [[37; 52; 49]])];
      [([97], [[65]]); ([98], [[37; 52; 49]; [37; 52; 49]])] ].
Proof. vm_compute. reflexivity. Qed.
