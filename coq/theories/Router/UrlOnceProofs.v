(** C15, "exactly once" made explicit: text that was escaped TWICE comes out escaped once —
    never fully decoded — through every reading path (Url::unescape, ParamsMap::insert /
    replace, the query parser, flat and nested route parameters). A second decoding pass
    anywhere on those paths falsifies these statements on v = "%41". *)
From Coq Require Import List NArith Bool Lia.
From LV Require Import Base.Bytes Router.Url Router.UrlProofs.
Import ListNotations.
Open Scope N_scope.

(** a string of ASCII bytes is valid UTF-8 *)
Lemma ascii_valid l : (forall x, In x l -> x < 128) -> utf8_valid l = true.
Proof.
  unfold utf8_valid. induction l as [|b rest IH]; intros H; [reflexivity|].
  cbn [length valid_fuel]. unfold utf8_step.
  assert (Hb : b < 128) by (apply H; left; reflexivity).
  apply N.ltb_lt in Hb. rewrite Hb. cbn [andb skipn]. apply IH.
  intros x Hx. apply H. right. exact Hx.
Qed.

(** an escaped string consists of ASCII bytes: alphanumerics and '%' *)
Lemma escape_ascii s x : all_bytes s = true -> In x (escape s) -> x < 128.
Proof.
  intros Hs Hx. pose proof (escape_qsafe s Hs) as Hq.
  rewrite forallb_forall in Hq. specialize (Hq x Hx).
  unfold qsafe in Hq. apply orb_true_iff in Hq as [Ha|Ha].
  - apply alnum_not_special in Ha. lia.
  - apply N.eqb_eq in Ha. lia.
Qed.

(** so escaping preserves well-formedness: escaped text can itself be escaped and read back *)
Lemma str_ok_escape s : str_ok s -> str_ok (escape s).
Proof.
  intros [Hb Hu]. split.
  - unfold all_bytes. apply forallb_forall. intros x Hx.
    apply (escape_ascii s x Hb) in Hx. unfold is_byte. apply N.ltb_lt. lia.
  - apply ascii_valid. intros x Hx. exact (escape_ascii s x Hb Hx).
Qed.

(** Url::unescape removes exactly one layer of escaping *)
Theorem unescape_one_layer v : str_ok v -> unescape (escape (escape v)) = escape v.
Proof.
  intros Hv. destruct (str_ok_escape v Hv) as [Hb Hu]. exact (unescape_escape _ Hb Hu).
Qed.

(** ParamsMap::insert / replace / get_str: twice-escaped raw text reads back once-escaped *)
Theorem insert_read_one_layer m k v :
  str_ok v -> get_str (insert m k (escape (escape v))) k = Some (escape v).
Proof. intros Hv. apply insert_read_decoded_once. apply str_ok_escape. exact Hv. Qed.

Theorem replace_read_one_layer m k v :
  str_ok v -> get_all (replace m k (escape (escape v))) k = Some [escape v].
Proof.
  intros Hv. apply (replace_read_decoded_once m k (escape v)). apply str_ok_escape. exact Hv.
Qed.

(** the query parser, flat route parameters and nested route parameters *)
Theorem query_value_one_layer k v :
  str_ok k -> str_ok v ->
  parse_search_params ([47; 63] ++ escape k ++ [61] ++ escape (escape v)) = [(k, [escape v])].
Proof. intros Hk Hv. apply query_value_decoded_once; [exact Hk | apply str_ok_escape; exact Hv]. Qed.

Theorem route_param_one_layer k v :
  str_ok v -> route_params [(k, escape (escape v))] = [(k, [escape v])].
Proof. intros Hv. apply route_param_decoded_once. apply str_ok_escape. exact Hv. Qed.

Theorem nested_param_one_layer k v :
  str_ok v -> params_including_parents [[(k, escape (escape v))]] = [(k, [escape v])].
Proof. intros Hv. apply nested_param_decoded_once. apply str_ok_escape. exact Hv. Qed.

(** all five at once (the statement pinned in Properties_C15.v) *)
Theorem decoded_exactly_once_not_twice m k v :
  str_ok k -> str_ok v ->
  unescape (escape (escape v)) = escape v
  /\ get_str (insert m k (escape (escape v))) k = Some (escape v)
  /\ get_all (replace m k (escape (escape v))) k = Some [escape v]
  /\ parse_search_params ([47; 63] ++ escape k ++ [61] ++ escape (escape v)) = [(k, [escape v])]
  /\ route_params [(k, escape (escape v))] = [(k, [escape v])]
  /\ params_including_parents [[(k, escape (escape v))]] = [(k, [escape v])].
Proof.
  intros Hk Hv. repeat split.
  - apply unescape_one_layer; exact Hv.
  - apply insert_read_one_layer; exact Hv.
  - apply replace_read_one_layer; exact Hv.
  - apply query_value_one_layer; assumption.
  - apply route_param_one_layer; exact Hv.
  - apply nested_param_one_layer; exact Hv.
Qed.

(** non-vacuity, and the distinction matters: "%41" twice-escaped is "%252541",
    read back as "%2541" (= escape "%41"), which is neither "%41" nor "A" *)
Example one_layer_example :
  str_ok [37; 52; 49] /\
  escape (escape [37; 52; 49]) = [37; 50; 53; 50; 53; 52; 49] /\
  unescape (escape (escape [37; 52; 49])) = [37; 50; 53; 52; 49] /\
  unescape (escape (escape [37; 52; 49])) <> [37; 52; 49] /\
  unescape (escape (escape [37; 52; 49])) <> [65].
Proof. vm_compute. repeat split; try reflexivity; discriminate. Qed.
