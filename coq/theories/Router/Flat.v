(** C14 — the reference: what the server's route table says.

    A flat route is one element of [generate_routes()] (with [Static(base)] in front, the way
    the router registers it), with optional segments expanded.  Its meaning is the path
    pattern the server integrations build from it ([to_axum_path] / [to_actix_path]): every
    segment contributes "/"+text unless its raw text is empty or already starts with "/"; a
    param stands for one non-empty run of non-'/' bytes; a splat, which must come last,
    for the rest of the path (it may be absent altogether, together with its "/").
    A request path matches when the pattern consumes it exactly, or does so after ONE
    trailing "/" of the path is removed (the router's documented tolerance).

    This file also defines the decidable known-finding classes of the check
    (the same predicates as [classify] in gen/c14.py).  No proofs in this file. *)
From Coq Require Import List NArith Bool Arith.
From LV Require Import Base.Bytes Router.Match.
Import ListNotations.
Open Scope N_scope.

Inductive tok := TChr (c : N) | TPar (n : bytes) | TWild (n : bytes).

(** [!raw.is_empty() && !raw.starts_with('/')] *)
Definition needs_sep (raw : bytes) : bool :=
  match raw with [] => false | c :: _ => negb (c =? slash) end.
Definition sep (raw : bytes) : list tok := if needs_sep raw then [TChr slash] else [].

Definition seg_toks (p : pseg) : list tok :=
  match p with
  | PStatic s => sep s ++ map TChr s
  | PParam n => sep n ++ [TPar n]
  | PSplat n => sep n ++ [TWild n]
  | POpt n => sep n                 (* to_axum_path pushes nothing for an unexpanded optional *)
  | PUnit => []
  end.

Definition toks (l : list pseg) : list tok := flat_map seg_toks l.

(** [if path.is_empty() { "/" }] *)
Definition pattern (l : list pseg) : list tok :=
  match toks l with [] => [TChr slash] | t => t end.

(** consume the pattern from the front of the path: bindings and what is left *)
Fixpoint spre (ts : list tok) (p : bytes) : option (params * bytes) :=
  match ts with
  | [] => Some ([], p)
  | TChr c :: ts' =>
      match (if c =? slash then ts' else []) with
      | TWild n :: rest =>                       (* "/" + splat *)
          match rest with
          | [] => match p with
                  | [] => Some ([(n, [])], [])
                  | c' :: p' => if c' =? slash then Some ([(n, p')], []) else None
                  end
          | _ :: _ => None                       (* splat not last: not a registrable route *)
          end
      | _ =>
          match p with
          | c' :: p' => if c' =? c then spre ts' p' else None
          | [] => None
          end
      end
  | TPar n :: ts' =>
      let k := run_len p in
      match k with
      | O => None
      | S _ => match spre ts' (skipn k p) with
               | Some (b, r) => Some ((n, firstn k p) :: b, r)
               | None => None
               end
      end
  | TWild _ :: _ => None                         (* splat without its "/" *)
  end.

Definition strict (ts : list tok) (p : bytes) : option params :=
  match spre ts p with Some (b, []) => Some b | _ => None end.

Definition ends_with_slash (p : bytes) : bool :=
  match rev p with c :: _ => c =? slash | [] => false end.

Definition flat_match (l : list pseg) (p : bytes) : option params :=
  match strict (pattern l) p with
  | Some b => Some b
  | None => if ends_with_slash p then strict (pattern l) (removelast p) else None
  end.

Definition is_some {A} (o : option A) : bool := match o with Some _ => true | None => false end.

(** the table the router registers: [Static(base)] in front of every generated route *)
Definition table (base : option bytes) (flats : list (list pseg)) : list (list pseg) :=
  match base with
  | Some b => map (cons (PStatic b)) flats
  | None => flats
  end.

Definition route_matches_flat (f : list pseg) (p : bytes) : bool :=
  existsb (fun e => is_some (flat_match e p)) (expand_optionals f).

(** the path matches one of the flat routes the definitions generate *)
Definition flat_any (base : option bytes) (rs : list route) (p : bytes) : bool :=
  existsb (fun f => route_matches_flat f p) (table base (gen_routes rs)).

(** the router matches the path *)
Definition matches (base : option bytes) (rs : list route) (p : bytes) : bool :=
  match match_route base rs p with MYes _ _ => true | _ => false end.

(** ---- well-formedness assumed of route tables (documented requirements) ---- *)
Definition name_ok (n : bytes) : bool := needs_sep n.

Fixpoint wf_flat (l : list pseg) : bool :=
  match l with
  | [] => true
  | PParam n :: t | POpt n :: t => name_ok n && wf_flat t
  | PSplat n :: t => name_ok n && match t with [] => true | _ => false end
  | _ :: t => wf_flat t
  end.

Definition wf_routes (rs : list route) : bool := forallb wf_flat (gen_routes rs).

(** ---- known-finding classes (decidable, on (base, routes, path)) ---- *)
Definition static_core (t : bytes) : bytes :=
  match t with c :: t' => if c =? slash then t' else t | [] => [] end.

Definition has_slash (t : bytes) : bool := existsb (fun c => c =? slash) t.

Fixpoint split_comps_aux (cur : bytes) (p : bytes) : list bytes :=
  match p with
  | [] => [rev cur]
  | c :: p' => if c =? slash then rev cur :: split_comps_aux [] p' else split_comps_aux (c :: cur) p'
  end.
Definition split_comps (p : bytes) : list bytes := split_comps_aux [] p.

Definition is_prefix (s q : bytes) : bool := bytes_eqb (firstn (length s) q) s.

(** [core] is a proper prefix of the component that starts [q] *)
Definition bad_at (core q : bytes) : bool :=
  is_prefix core q &&
  match skipn (length core) q with c :: _ => negb (c =? slash) | [] => false end.

(** some core is a proper prefix of a component that starts right after a '/' of [p] *)
Fixpoint kb (cores : list bytes) (p : bytes) : bool :=
  match p with
  | [] => false
  | c :: p' => ((c =? slash) && existsb (fun s => bad_at s p') cores) || kb cores p'
  end.

Definition statics_of (l : list pseg) : list bytes :=
  flat_map (fun x => match x with PStatic t => [t] | _ => [] end) l.

Definition usable_core (c : bytes) : bool :=
  match c with [] => false | _ => negb (has_slash c) end.

Definition cores_of (base : option bytes) (rs : list route) : list bytes :=
  filter usable_core
         (map static_core (flat_map statics_of (gen_routes rs))
          ++ match base with Some b => split_comps b | None => [] end).

(** F-C14-a: a static text (or base component) is a proper prefix of a path component *)
Definition k_boundary (base : option bytes) (rs : list route) (p : bytes) : bool :=
  kb (cores_of base rs) p.

Definition trivial_pseg (x : pseg) : bool :=
  match x with PStatic [] => true | PUnit => true | _ => false end.

Fixpoint slash_static_flat (l : list pseg) : bool :=
  match l with
  | [] => false
  | PStatic t :: rest =>
      has_slash (tl t)
      || (bytes_eqb t [slash] && negb (forallb trivial_pseg rest))
      || slash_static_flat rest
  | _ :: rest => slash_static_flat rest
  end.

Definition has_dslash (p : bytes) : bool :=
  (fix go (p : bytes) : bool :=
     match p with
     | a :: ((b :: _) as p') => ((a =? slash) && (b =? slash)) || go p'
     | _ => false
     end) p.

(** the empty base is tame: it is what <Routes> / <FlatRoutes> pass to RouteDefs::new_with_base
    when <Router> has no base ([base.unwrap_or_default()]) *)
Definition base_untame (b : bytes) : bool :=
  match b with
  | [] => false
  | _ => negb (starts_with_slash b) || ends_with_slash b || has_dslash b
  end.

(** F-C14-b: static texts with a '/' after their first byte, a non-final StaticSegment("/"),
    or a non-empty base that is not of the form /x(/y)* *)
Definition k_slash_static (base : option bytes) (rs : list route) : bool :=
  existsb slash_static_flat (gen_routes rs)
  || match base with Some b => base_untame b | None => false end.

(** (coarse form, used by intermediate lemmas) the table contains an OptionalParamSegment *)
Definition k_optional_any (rs : list route) : bool :=
  existsb (existsb (fun x => match x with POpt _ => true | _ => false end)) (gen_routes rs).

(** F-C14-c: an OptionalParamSegment anywhere but in a top-level suffix of the segment tuple
    of a route without children: an optional followed by another segment in its tuple, an
    optional inside a nested tuple, or an optional in a route that has children *)
Definition is_sopt (s : seg) : bool := match s with SOpt _ => true | _ => false end.

(** [l = pre ++ tail] with [pre] free of optionals and [tail] made of OptionalParamSegments *)
Fixpoint opt_tail_list (l : list seg) : bool :=
  match l with
  | [] => true
  | x :: l' => if seg_optional x then forallb is_sopt (x :: l') else opt_tail_list l'
  end.
Definition opt_tail_seg (s : seg) : bool :=
  match s with STuple l => opt_tail_list l | _ => true end.

Fixpoint opt_ok_route (r : route) : bool :=
  match r with
  | Route s None => opt_tail_seg s
  | Route s (Some ks) => negb (seg_optional s) && forallb opt_ok_route ks
  end.
Definition k_optional (rs : list route) : bool := negb (forallb opt_ok_route rs).

(** F-C14-d: the path has an empty segment *)
Definition k_dslash (p : bytes) : bool := has_dslash p.

Definition known_class (base : option bytes) (rs : list route) (p : bytes) : bool :=
  k_boundary base rs p || k_slash_static base rs || k_optional rs || k_dslash p.

Definition known_class_coarse (base : option bytes) (rs : list route) (p : bytes) : bool :=
  k_boundary base rs p || k_slash_static base rs || k_optional_any rs || k_dslash p.
