(** C14 — executable transcription of leptos_router's path matcher
    (router/src/matching).  Strings are UTF-8 byte lists; every function says what the
    Rust code DOES, including the behaviour on remainders that do not start with '/',
    the char-boundary panics of [str::split_at] / slicing, the tuple macro's
    [include_optionals] back-off and the optional-parent fallback of
    [NestedRoute::match_nested].  No proofs in this file. *)
From Coq Require Import List NArith Bool Arith.
From LV Require Import Base.Bytes.
Import ListNotations.
Open Scope N_scope.

Definition slash : N := 47.
Definition params := list (bytes * bytes).

Fixpoint bytes_eqb (a b : bytes) : bool :=
  match a, b with
  | [], [] => true
  | x :: a, y :: b => (x =? y) && bytes_eqb a b
  | _, _ => false
  end.

Definition starts_with_slash (p : bytes) : bool :=
  match p with c :: _ => c =? slash | [] => false end.

(** [remaining.is_empty() || remaining == "/"] *)
Definition rem_ok (r : bytes) : bool :=
  match r with [] => true | [c] => c =? slash | _ => false end.

(** ---- route definitions ---- *)
Inductive seg :=
| SStatic (s : bytes)          (* StaticSegment(s) *)
| SParam (n : bytes)           (* ParamSegment(n) *)
| SOpt (n : bytes)             (* OptionalParamSegment(n) *)
| SWild (n : bytes)            (* WildcardSegment(n) *)
| SUnit                        (* () *)
| STuple (l : list seg).       (* (A,) (A, B) ... *)

(** NestedRoute { segments, children }; [kids = None] is a route without [.child(..)],
    [Some l] a route whose children are the tuple [l] *)
Inductive route := Route (s : seg) (kids : option (list route)).

Inductive pseg :=              (* PathSegment *)
| PStatic (s : bytes) | PParam (n : bytes) | POpt (n : bytes) | PSplat (n : bytes) | PUnit.

(** result of PossibleRouteMatch::test *)
Inductive tres :=
| TNone                                            (* None *)
| TPanic                                           (* the call panics *)
| TSome (matched remaining : bytes) (ps : params). (* Some(PartialPathMatch) *)

(** ---- PossibleRouteMatch::optional ---- *)
Fixpoint seg_optional (s : seg) : bool :=
  match s with
  | SOpt _ => true
  | STuple l => existsb seg_optional l
  | _ => false
  end.

(** ---- StaticSegment::test ----
    the [for char in test] loop; [None] = the function returned None inside the loop or
    in the [this.next().is_some()] check after it *)
Fixpoint static_loop (test this : bytes) (has : bool) (ml : nat) : option (bool * nat) :=
  match test with
  | [] => match this with [] => Some (has, ml) | _ :: _ => None end
  | c :: test' =>
      match this with
      | [] => Some (has, ml)                       (* n.is_none(): break (also when c = '/') *)
      | n :: this' =>
          if c =? slash then None                  (* closing '/', segment not finished *)
          else if c =? n then static_loop test' this' true (S ml)
          else None
      end
  end.

Definition static_test (s path : bytes) : tres :=
  let has0 := match s with [] => true | [c] => c =? slash | _ => false end in
  let lead := starts_with_slash path in
  let test := if lead then tl path else path in
  let ml0 := if lead then (match s with [] => 0%nat | _ => 1%nat end) else 0%nat in
  let this := if lead && (starts_with_slash s || match s with [] => true | _ => false end)
              then tl s else s in
  match static_loop test this has0 ml0 with
  | None => TNone
  | Some (has, ml) => if has then TSome (firstn ml path) (skipn ml path) [] else TNone
  end.

(** ---- ParamSegment / OptionalParamSegment / WildcardSegment ---- *)
(** UTF-8 width of the char that starts with this byte ([chars().next()] consumes it whole) *)
Definition char_width (b : N) : nat :=
  if b <? 128 then 1%nat else if b <? 224 then 2%nat else if b <? 240 then 3%nat else 4%nat.

(** number of bytes before the first '/' *)
Fixpoint run_len (l : bytes) : nat :=
  match l with
  | [] => 0%nat
  | c :: l' => if c =? slash then 0%nat else S (run_len l')
  end.

(** [str::is_char_boundary] for an index <= len *)
Definition is_boundary (p : bytes) (i : nat) : bool :=
  match nth_error p i with Some b => negb (is_cont b) | None => true end.

(** what [let mut test = path.chars(); if let Some('/') = test.next() {..}] leaves:
    (path starts with '/', the bytes still to be iterated) *)
Definition after_first (path : bytes) : bool * bytes :=
  match path with
  | [] => (false, [])
  | c :: rest => if c =? slash then (true, rest) else (false, skipn (char_width c - 1) rest)
  end.

Definition param_like (optional : bool) (name path : bytes) : tres :=
  let '(lead, body) := after_first path in
  let n := run_len body in
  let off := if lead then 1%nat else 0%nat in
  let ml := (off + n)%nat in
  if optional then
    let ml' := if Nat.eqb ml 1 && lead then 0%nat else ml in
    if Nat.eqb ml' 0 then TSome [] path []
    else if is_boundary path ml' && is_boundary path (off + n) then
      TSome (firstn ml' path) (skipn ml' path) [(name, firstn n (skipn off path))]
    else TPanic
  else
    if Nat.eqb ml 0 || (Nat.eqb ml 1 && lead) then TNone
    else if is_boundary path ml then
      TSome (firstn ml path) (skipn ml path) [(name, firstn n (skipn off path))]
    else TPanic.

Definition wild_test (name path : bytes) : tres :=
  let '(lead, body) := after_first path in
  let n := length body in
  let off := if lead then 1%nat else 0%nat in
  let ml := (off + n)%nat in
  if is_boundary path ml then
    TSome (firstn ml path) (skipn ml path) [(name, firstn n (skipn off path))]
  else TPanic.

(** ---- tuples (horizontal/tuples.rs) ----
    a field of the tuple: its [optional()] and its [test] *)
Definition tester := (bool * (bytes -> tres))%type.

Inductive pass :=
| PFail                     (* return None *)
| PPanic
| PRetry                    (* include_optionals -= 1; continue *)
| PDone (r : bytes) (mlen : nat) (ps : params).

(** the fields after the first, inside one iteration of [loop] *)
Fixpoint pass_rest (ts : list tester) (include nth : nat) (r : bytes) (mlen : nat)
         (ps : params) : pass :=
  match ts with
  | [] => PDone r mlen ps
  | (opt, test) :: ts' =>
      let nth' := if opt then S nth else nth in
      if negb opt || (nth' <=? include)%nat then
        match test r with
        | TNone => if opt then PFail else if Nat.eqb include 0 then PFail else PRetry
        | TPanic => PPanic
        | TSome m r' p => pass_rest ts' include nth' r' (mlen + length m)%nat (ps ++ p)
        end
      else pass_rest ts' include nth' r mlen ps
  end.

Definition pass_first (t : tester) (ts : list tester) (include : nat) (path : bytes) : pass :=
  let '(opt, test) := t in
  let nth := if opt then 1%nat else 0%nat in
  if negb opt || (nth <=? include)%nat then
    match test path with
    | TNone => PFail
    | TPanic => PPanic
    | TSome m r' p => pass_rest ts include nth r' (length m) p
    end
  else pass_rest ts include nth path 0%nat [].

(** the [loop]; structurally recursive on include_optionals *)
Fixpoint tuple_loop (t : tester) (ts : list tester) (include : nat) (path : bytes) : tres :=
  match pass_first t ts include path with
  | PFail => TNone
  | PPanic => TPanic
  | PDone r mlen ps => TSome (firstn mlen path) r ps
  | PRetry => match include with
              | O => TNone                     (* unreachable: PRetry needs include > 0 *)
              | S i => tuple_loop t ts i path
              end
  end.

Definition count_opt (ts : list tester) : nat := length (filter fst ts).

Fixpoint seg_test (s : seg) (path : bytes) {struct s} : tres :=
  match s with
  | SStatic t => static_test t path
  | SParam n => param_like false n path
  | SOpt n => param_like true n path
  | SWild n => wild_test n path
  | SUnit => TSome [] path []
  | STuple l =>
      match map (fun x => (seg_optional x, seg_test x)) l with
      | [] => TSome [] path []                                 (* no such tuple; as () *)
      | [(_, test)] =>                                          (* impl for (A,) *)
          match test path with
          | TSome m r p => TSome (firstn (length m) path) r p
          | other => other
          end
      | t :: ts => tuple_loop t ts (count_opt (t :: ts)) path
      end
  end.

(** ---- generate_path / generate_routes / expand_optionals ---- *)
Fixpoint gen_path (s : seg) : list pseg :=
  match s with
  | SStatic t => [PStatic t]
  | SParam n => [PParam n]
  | SOpt n => [POpt n]
  | SWild n => [PSplat n]
  | SUnit => []
  | STuple l => flat_map gen_path l
  end.

Fixpoint gen_route (r : route) : list (list pseg) :=
  match r with
  | Route s None => [gen_path s]
  | Route s (Some ks) => map (app (gen_path s)) (flat_map gen_route ks)
  end.

Definition gen_routes (rs : list route) : list (list pseg) := flat_map gen_route rs.

(** Vec<PathSegment>::expand_optionals: the stack-based loop visits the variant that keeps
    the first optional (as a Param) before the variant that drops it *)
Fixpoint expand_optionals (l : list pseg) : list (list pseg) :=
  match l with
  | [] => [[]]
  | POpt n :: t => map (cons (PParam n)) (expand_optionals t) ++ expand_optionals t
  | x :: t => map (cons x) (expand_optionals t)
  end.

(** ---- nested routes (nested/mod.rs, nested/tuples.rs) ---- *)
Fixpoint route_size (r : route) : nat :=
  match r with
  | Route _ None => 1%nat
  | Route _ (Some ks) => S (fold_right (fun c acc => (route_size c + acc)%nat) 0%nat ks)
  end.

(** result of MatchNestedRoutes::match_nested; on [NNo] the returned remaining is always
    the input path.  [chain] = (pre-order id, NestedMatch.matched) from this route down *)
Inductive nres :=
| NPanic
| NNo
| NYes (chain : list (nat * bytes)) (ps : params) (rem : bytes).

Definition strip_prefix (p s : bytes) : option bytes :=
  if bytes_eqb (firstn (length p) s) p then Some (skipn (length p) s) else None.

Fixpoint trim_start_rep (fuel : nat) (p s : bytes) : bytes :=
  match fuel with
  | O => s
  | S f => match strip_prefix p s with Some s' => trim_start_rep f p s' | None => s end
  end.

(** [s.trim_end_matches(pat)] for a string pattern: every repeated suffix removed; the
    empty pattern removes nothing *)
Definition trim_end_matches (s pat : bytes) : bytes :=
  match pat with
  | [] => s
  | _ => rev (trim_start_rep (length s) (rev pat) (rev s))
  end.

Fixpoint trim_start_slashes (s : bytes) : bytes :=
  match s with
  | c :: s' => if c =? slash then trim_start_slashes s' else s
  | [] => []
  end.

(** tuple of sibling routes: the first one that matches wins *)
Definition first_match (f : route -> nat -> bytes -> nres) : list route -> nat -> bytes -> nres :=
  fix go (ks : list route) (id : nat) (p : bytes) : nres :=
    match ks with
    | [] => NNo
    | c :: ks' =>
        match f c id p with
        | NNo => go ks' (id + route_size c)%nat p
        | r => r
        end
    end.

(** the tail of NestedRoute::match_nested once segments and children are matched *)
Definition nested_finish (id : nat) (matched : bytes) (ps : params)
           (inner_chain : list (nat * bytes)) (inner_ps : params) (rem : bytes) : nres :=
  if rem_ok rem then NYes ((id, matched) :: inner_chain) (ps ++ inner_ps) rem else NNo.

Definition nested_step (s : seg) (kids : option (list route))
           (mc : list route -> nat -> bytes -> nres) (id : nat) (path : bytes) : nres :=
  match seg_test s path with
  | TNone => NNo
  | TPanic => NPanic
  | TSome matched remaining ps =>
      match kids with
      | None => nested_finish id matched ps [] [] remaining
      | Some ks =>
          match mc ks (S id) remaining with
          | NPanic => NPanic
          | NYes ch ips rem => nested_finish id matched ps ch ips rem
          | NNo =>
              if seg_optional s then
                (* parent was optional: re-match the children against the full path *)
                match mc ks (S id) path with
                | NPanic => NPanic
                | NNo => NNo
                | NYes ch ips rem =>
                    let inner_matched := match ch with (_, m) :: _ => m | [] => [] end in
                    let rematch := trim_end_matches path (inner_matched ++ rem) in
                    match seg_test s rematch with
                    | TSome _ _ ps' => nested_finish id matched ps' ch ips rem
                    | _ => NPanic                     (* .unwrap() on None *)
                    end
                end
              else NNo
          end
      end
  end.

Fixpoint match_nested (r : route) (id : nat) (path : bytes) {struct r} : nres :=
  match r with
  | Route s kids => nested_step s kids (first_match match_nested) id path
  end.

Definition match_siblings : list route -> nat -> bytes -> nres := first_match match_nested.

(** RouteDefs::match_route *)
Definition strip_base (base : option bytes) (path : bytes) : option bytes :=
  match base with
  | None => Some path
  | Some b =>
      if starts_with_slash b
      then strip_prefix (trim_start_slashes b) (trim_start_slashes path)
      else strip_prefix b path
  end.

Inductive mres :=
| MPanic
| MNo
| MYes (chain : list (nat * bytes)) (ps : params).

Definition match_route (base : option bytes) (rs : list route) (path : bytes) : mres :=
  match strip_base base path with
  | None => MNo
  | Some p =>
      match match_siblings rs 0%nat p with
      | NPanic => MPanic
      | NNo => MNo
      | NYes ch ps rem => if rem_ok rem then MYes ch ps else MNo
      end
  end.
