(** Executable entry point of the C14 model for the correspondence check.
    case        : (0 base routes path)      — see harness/router/src/c14.rs
    observation : (base flat expanded match nested) *)
From Coq Require Import List ZArith NArith.
From LV Require Import Base.Sexp Base.Bytes Router.Match Router.Flat Router.Build.
Import ListNotations.

Fixpoint as_seg (fuel : nat) (s : sexp) : seg :=
  match fuel with
  | O => SUnit
  | S f =>
      match as_Z (nth_s 0 s) with
      | 0%Z => SStatic (as_bytes (nth_s 1 s))
      | 1%Z => SParam (as_bytes (nth_s 1 s))
      | 2%Z => SOpt (as_bytes (nth_s 1 s))
      | 3%Z => SWild (as_bytes (nth_s 1 s))
      | 5%Z => STuple (map (as_seg f) (as_list (nth_s 1 s)))
      | _ => SUnit
      end
  end.

Fixpoint as_route (fuel : nat) (r : sexp) : route :=
  match fuel with
  | O => Route SUnit None
  | S f =>
      Route (as_seg 64 (nth_s 0 r))
            (match as_Z (nth_s 1 r) with
             | 0%Z => None
             | _ => Some (map (as_route f) (as_list (nth_s 2 r)))
             end)
  end.

Definition s_pseg (p : pseg) : sexp :=
  match p with
  | PStatic s => Lst [Num 0; sbytes s]
  | PParam n => Lst [Num 1; sbytes n]
  | POpt n => Lst [Num 2; sbytes n]
  | PSplat n => Lst [Num 3; sbytes n]
  | PUnit => Lst [Num 4]
  end.
Definition s_flat (r : list pseg) : sexp := Lst (map s_pseg r).
Definition s_params (ps : params) : sexp :=
  Lst (map (fun kv => Lst [sbytes (fst kv); sbytes (snd kv)]) ps).
Definition s_chain (ch : list (nat * bytes)) : sexp :=
  Lst (map (fun im => Lst [snat (fst im); sbytes (snd im)]) ch).

Definition run_C14_main (c : sexp) : sexp :=
  let base := as_opt as_bytes (nth_s 1 c) in
  let rs := map (as_route 64) (as_list (nth_s 2 c)) in
  let path := as_bytes (nth_s 3 c) in
  let flat := gen_routes rs in
  Lst [ sopt sbytes base;
        Lst (map s_flat flat);
        Lst (map (fun r => Lst (map s_flat (expand_optionals r))) flat);
        match match_route base rs path with
        | MNo => Lst []
        | MPanic => Lst [Num (-1)]
        | MYes ch ps => Lst [Num 1; s_chain ch; s_params ps]
        end;
        match match_siblings rs 0 path with
        | NPanic => Lst [Num (-1)]
        | NNo => Lst [Num 0; sbytes path]
        | NYes ch ps rem => Lst [Num 1; sbytes rem; s_chain ch; s_params ps]
        end ].

(** op 1 (cross-check of the two formulations of the reference, not compared with the
    harness): (flat_any matches k_boundary k_slash_static k_optional k_dslash wf_routes) *)
Definition run_C14_ref (c : sexp) : sexp :=
  let base := as_opt as_bytes (nth_s 1 c) in
  let rs := map (as_route 64) (as_list (nth_s 2 c)) in
  let path := as_bytes (nth_s 3 c) in
  Lst [ sbool (flat_any base rs path); sbool (matches base rs path);
        sbool (k_boundary base rs path); sbool (k_slash_static base rs);
        sbool (k_optional rs); sbool (k_dslash path); sbool (wf_routes rs) ].

(** op 2: the real path builder driven on every generated flat route and each of its
    expansions; every built path fed back to match_route *)
Definition as_pmap (s : sexp) : pmap :=
  map (fun kv => (as_bytes (nth_s 0 kv), map as_bytes (as_list (nth_s 1 kv)))) (as_list s).

Definition s_mres (m : mres) : sexp :=
  match m with
  | MNo => Lst []
  | MPanic => Lst [Num (-1)]
  | MYes ch ps => Lst [Num 1; s_chain ch; s_params ps]
  end.

Definition has_flag (c : sexp) (bit : Z) : bool :=
  negb (Z.eqb (Z.land (as_Z (nth_s 4 c)) bit) 0).

(** flags: 32 = into_paths(None) (behaves like the empty map), 64 = the map is collected
    (FromIterator: duplicate names kept, the first one is found), otherwise inserted one by
    one (a later insert replaces); 128 = reached through RouteListing::into_static_paths
    (same function) *)
Definition run_C14_build (c : sexp) : sexp :=
  let base := as_opt as_bytes (nth_s 1 c) in
  let rs := map (as_route 64) (as_list (nth_s 2 c)) in
  let pm := if has_flag c 32 then []
            else if has_flag c 64 then as_pmap (nth_s 3 c)
            else pm_of_inserts (as_pmap (nth_s 3 c)) in
  let flat := gen_routes rs in
  let build (segs : list pseg) : sexp :=
    match into_paths (registered base segs) pm with
    | None => Lst [Num (-1)]
    | Some paths => Lst (map (fun p => Lst [sbytes p; s_mres (match_route base rs p)]) paths)
    end in
  Lst [ sopt sbytes base;
        Lst (map s_flat flat);
        Lst (map (fun r => Lst [build r; Lst (map (fun e => Lst [s_flat e; build e]) (expand_optionals r))])
                 flat) ].

(** op 3: PossibleRouteMatch::test on a segment value; is_complete = rem_ok remaining *)
Definition run_C14_test (c : sexp) : sexp :=
  match seg_test (as_seg 64 (nth_s 1 c)) (as_bytes (nth_s 2 c)) with
  | TNone => Lst []
  | TPanic => Lst [Num (-1)]
  | TSome m r ps => Lst [Num 1; sbytes m; sbytes r; s_params ps; sbool (rem_ok r)]
  end.

Definition run_C14 (c : sexp) : sexp :=
  match as_Z (nth_s 0 c) with
  | 1%Z => run_C14_ref c
  | 2%Z => run_C14_build c
  | 3%Z => run_C14_test c
  | _ => run_C14_main c
  end.
