(** C16 — proofs about the simulation (Store/Sim.v): along every history, every schedule
    and every visiting order, the subscriber sets and the source sets stay consistent, and
    therefore a write wakes exactly the effects whose last run read a related path. *)
From Coq Require Import List Arith Bool ZArith Lia Permutation.
From LV Require Import Base.Sexp Store.Paths Store.PathsProofs Store.Keyed Store.KeyedProofs Store.Sim.
Import ListNotations.

(** ---- association lists of the simulation ---- *)
Lemma trig_eqb_refl t : trig_eqb t t = true.
Proof. apply trig_eqb_eq. reflexivity. Qed.

Lemma subs_of_set t t' l m :
  subs_of t (subs_set t' l m) = if trig_eqb t t' then l else subs_of t m.
Proof.
  induction m as [|[t0 l0] m IH]; cbn [subs_set subs_of].
  - destruct (trig_eqb t t'); reflexivity.
  - destruct (trig_eqb t' t0) eqn:E0; cbn [subs_of].
    + apply trig_eqb_eq in E0. subst t0. destruct (trig_eqb t t'); reflexivity.
    + rewrite IH. destruct (trig_eqb t t0) eqn:E1; [|reflexivity].
      destruct (trig_eqb t t') eqn:E2; [|reflexivity].
      apply trig_eqb_eq in E1. apply trig_eqb_eq in E2. subst. rewrite trig_eqb_refl in E0. discriminate.
Qed.

Lemma srcs_of_set e e' l m :
  srcs_of e (srcs_set e' l m) = if Nat.eqb e e' then l else srcs_of e m.
Proof.
  induction m as [|[e0 l0] m IH]; cbn [srcs_set srcs_of].
  - destruct (Nat.eqb e e'); reflexivity.
  - destruct (Nat.eqb e' e0) eqn:E0; cbn [srcs_of].
    + apply Nat.eqb_eq in E0. subst e0. destruct (Nat.eqb e e'); reflexivity.
    + rewrite IH. destruct (Nat.eqb e e0) eqn:E1; [|reflexivity].
      destruct (Nat.eqb e e') eqn:E2; [|reflexivity].
      apply Nat.eqb_eq in E1. apply Nat.eqb_eq in E2. subst. rewrite Nat.eqb_refl in E0. discriminate.
Qed.

Lemma mem_nat_In e l : mem_nat e l = true <-> In e l.
Proof.
  unfold mem_nat. rewrite existsb_exists. split.
  - intros [x [Hin Hx]]. apply Nat.eqb_eq in Hx. subst. exact Hin.
  - intros Hin. exists e. split; [exact Hin | apply Nat.eqb_refl].
Qed.

Lemma remove_nat_In e x l : In x (remove_nat e l) <-> In x l /\ x <> e.
Proof.
  unfold remove_nat. rewrite filter_In. split; intros [H1 H2]; split; auto.
  - intros ->. rewrite Nat.eqb_refl in H2. discriminate.
  - apply negb_true_iff. apply Nat.eqb_neq. congruence.
Qed.

(** ---- membership views ---- *)
Definition sub_in (s : state) (e : nat) (t : trig) : Prop := In e (subs_of t (st_subs s)).
Definition src_in (s : state) (e : nat) (t : trig) : Prop := In t (srcs_of e (st_srcs s)).

(** the consistency invariant, for [n] effects:
    - whoever sits in a subscriber set has that trigger among its sources;
    - an effect that is not queued (not dirty) sits in the subscriber set of each of its sources;
    - the run queue has no duplicates; only effects 0..n-1 occur anywhere *)
Record consistent (n : nat) (s : state) : Prop := {
  c_sub_src : forall e t, sub_in s e t -> src_in s e t;
  c_src_sub : forall e t, ~ In e (st_queue s) -> src_in s e t -> sub_in s e t;
  c_queue_nodup : NoDup (st_queue s);
  c_queue_lt : forall e, In e (st_queue s) -> e < n;
  c_sub_lt : forall e t, sub_in s e t -> e < n;
}.

(** ---- wake / notify ---- *)
Lemma wake_subs s e : st_subs (wake s e) = st_subs s.
Proof. unfold wake. destruct (mem_nat e (st_queue s)); reflexivity. Qed.
Lemma wake_srcs s e : st_srcs (wake s e) = st_srcs s.
Proof. unfold wake. destruct (mem_nat e (st_queue s)); reflexivity. Qed.
Lemma wake_queue s e x : In x (st_queue (wake s e)) <-> In x (st_queue s) \/ x = e.
Proof.
  unfold wake. destruct (mem_nat e (st_queue s)) eqn:E; cbn [st_queue].
  - apply mem_nat_In in E. split; [auto | intros [H| ->]; assumption].
  - rewrite in_app_iff. cbn [In]. split; intros [H|H]; auto. destruct H as [<-|[]]. auto.
Qed.
Lemma wake_nodup s e : NoDup (st_queue s) -> NoDup (st_queue (wake s e)).
Proof.
  unfold wake. destruct (mem_nat e (st_queue s)) eqn:E; cbn [st_queue]; [auto|].
  intros H. apply NoDup_app_single; [exact H|]. intros Hin. apply mem_nat_In in Hin. congruence.
Qed.

Lemma fold_wake l : forall s,
  st_subs (fold_left wake l s) = st_subs s /\ st_srcs (fold_left wake l s) = st_srcs s /\
  (forall x, In x (st_queue (fold_left wake l s)) <-> In x (st_queue s) \/ In x l) /\
  (NoDup (st_queue s) -> NoDup (st_queue (fold_left wake l s))).
Proof.
  induction l as [|e l IH]; intros s; cbn [fold_left].
  - repeat split; auto. intros [H|[]]. exact H.
  - destruct (IH (wake s e)) as [A [B [Cq D]]]. rewrite A, B, wake_subs, wake_srcs.
    repeat split; auto.
    + intros H. apply Cq in H. rewrite wake_queue in H. cbn [In]. intuition.
    + intros H. apply Cq. rewrite wake_queue. cbn [In] in H. intuition.
    + intros H. apply D. apply wake_nodup. exact H.
Qed.

Lemma notify_trig_spec s t :
  st_srcs (notify_trig s t) = st_srcs s /\
  (forall t', subs_of t' (st_subs (notify_trig s t)) = if trig_eqb t' t then [] else subs_of t' (st_subs s)) /\
  (forall x, In x (st_queue (notify_trig s t)) <-> In x (st_queue s) \/ In x (subs_of t (st_subs s))) /\
  (NoDup (st_queue s) -> NoDup (st_queue (notify_trig s t))).
Proof.
  unfold notify_trig, notify_trig_g.
  set (s' := mkState _ _ _ _ _ _ _ _ _).
  destruct (fold_wake (subs_of t (st_subs s)) s') as [A [B [Cq D]]].
  subst s'. cbn [st_subs st_srcs st_queue] in *.
  split; [exact B|]. split; [intros t'; rewrite A; apply subs_of_set|].
  split; [exact Cq | exact D].
Qed.

Lemma notify_all_spec ts : forall s,
  st_srcs (notify_all s ts) = st_srcs s /\
  (forall t', subs_of t' (st_subs (notify_all s ts)) = if trig_in t' ts then [] else subs_of t' (st_subs s)) /\
  (forall x, In x (st_queue (notify_all s ts)) <->
             In x (st_queue s) \/ exists t, In t ts /\ In x (subs_of t (st_subs s))) /\
  (NoDup (st_queue s) -> NoDup (st_queue (notify_all s ts))).
Proof.
  unfold notify_all. induction ts as [|t0 ts IH]; intros s; cbn [fold_left].
  - repeat split; auto. intros [H|[t [[] _]]]. exact H.
  - destruct (notify_trig_spec s t0) as [A0 [B0 [C0 D0]]].
    destruct (IH (notify_trig s t0)) as [A [B [Cq D]]].
    split; [rewrite A; exact A0|]. split; [|split].
    + intros t'. rewrite B, B0. unfold trig_in. cbn [existsb].
      destruct (trig_eqb t' t0); cbn [orb]; [destruct (existsb (trig_eqb t') ts); reflexivity | reflexivity].
    + intros x. rewrite Cq, C0. split.
      * intros [[H|H]|[t [Ht Hx]]]; [left; exact H | right; exists t0; split; [left; reflexivity | exact H]|].
        rewrite B0 in Hx. destruct (trig_eqb t t0); [destruct Hx|]. right. exists t. split; [right; exact Ht | exact Hx].
      * intros [H|[t [[<-|Ht] Hx]]]; [left; left; exact H | left; right; exact Hx|].
        destruct (trig_eqb t t0) eqn:E.
        -- apply trig_eqb_eq in E. subst. left. right. exact Hx.
        -- right. exists t. split; [exact Ht|]. rewrite B0, E. exact Hx.
    + intros H. apply D, D0, H.
Qed.

(** a notification keeps the invariant *)
Lemma notify_all_consistent n s ts : consistent n s -> consistent n (notify_all s ts).
Proof.
  intros [Ia Ib Nd Ql Sl]. destruct (notify_all_spec ts s) as [A [B [Cq D]]].
  assert (Hsub : forall e t, sub_in (notify_all s ts) e t -> sub_in s e t).
  { unfold sub_in. intros e t. rewrite B. destruct (trig_in t ts); [intros []| auto]. }
  constructor.
  - intros e t H. unfold src_in. rewrite A. apply Ia, Hsub, H.
  - intros e t Hq Hs. unfold src_in in Hs. rewrite A in Hs. unfold sub_in. rewrite B.
    assert (Hq0 : ~ In e (st_queue s)) by (intros H; apply Hq, Cq; left; exact H).
    pose proof (Ib e t Hq0 Hs) as Hin.
    destruct (trig_in t ts) eqn:E; [|exact Hin].
    exfalso. apply Hq, Cq. right. exists t. split; [apply trig_in_In; exact E | exact Hin].
  - apply D, Nd.
  - intros e He. apply Cq in He. destruct He as [He|[t [_ He]]]; [apply Ql, He | apply (Sl e t), He].
  - intros e t H. apply (Sl e t), Hsub, H.
Qed.

(** who is woken: exactly the effects that have one of the notified triggers among their sources *)
Theorem notify_all_wakes n s ts e :
  consistent n s -> st_queue s = [] ->
  (In e (st_queue (notify_all s ts)) <-> exists t, In t ts /\ src_in s e t).
Proof.
  intros [Ia Ib _ _ _] Hq. destruct (notify_all_spec ts s) as [_ [_ [Cq _]]]. rewrite Cq, Hq. cbn [In]. split.
  - intros [[]|[t [Ht Hx]]]. exists t. split; [exact Ht | apply Ia; exact Hx].
  - intros [t [Ht Hs]]. right. exists t. split; [exact Ht|]. apply Ib; [rewrite Hq; intros []| exact Hs].
Qed.

(** ... in terms of paths: an effect whose last run read the fields [rs] is woken by the
    write guard of kind [k] at path [p] iff one of the [rs] is related to [p] *)
Definition reads (s : state) (e : nat) (rs : list path) : Prop :=
  forall t, src_in s e t <-> exists r, In r rs /\ In t (track_field r).

Theorem write_wakes_exactly_related n s k p e rs :
  consistent n s -> st_queue s = [] -> reads s e rs ->
  (In e (st_queue (notify_all s (notified k p))) <-> exists r, In r rs /\ wakes_k k p r = true).
Proof.
  intros Hc Hq Hr. rewrite (notify_all_wakes n s _ e Hc Hq). split.
  - intros [t [Ht Hs]]. apply Hr in Hs. destruct Hs as [r [Hin Htr]]. exists r. split; [exact Hin|].
    apply wakes_k_spec. exists t. split; assumption.
  - intros [r [Hin Hw]]. apply wakes_k_spec in Hw. destruct Hw as [t [Ht Htr]]. exists t. split; [exact Ht|].
    apply Hr. exists r. split; assumption.
Qed.

Corollary field_write_wakes_iff_prefix n s p e r :
  consistent n s -> st_queue s = [] -> reads s e [r] ->
  (In e (st_queue (notify_all s (notified WField p))) <-> (is_prefix p r = true \/ is_prefix r p = true)).
Proof.
  intros Hc Hq Hr. rewrite (write_wakes_exactly_related n s WField p e [r] Hc Hq Hr).
  rewrite <- notified_iff_related. unfold wakes. split.
  - intros [r' [[<-|[]] H]]. exact H.
  - intros H. exists r. split; [left; reflexivity | exact H].
Qed.

(** ---- an effect run: leave all subscriber sets, read, subscribe again ---- *)
Lemma unsub_fold e l : forall subs x t,
  In x (subs_of t (fold_left (unsubscribe e) l subs)) <-> In x (subs_of t subs) /\ ~ (x = e /\ In t l).
Proof.
  induction l as [|t0 l IH]; intros subs x t; cbn [fold_left].
  - cbn [In]. tauto.
  - rewrite IH. unfold unsubscribe. rewrite subs_of_set. cbn [In].
    destruct (trig_eqb t t0) eqn:E.
    + apply trig_eqb_eq in E. subst t0. rewrite remove_nat_In. tauto.
    + assert (t0 <> t) by (intros ->; rewrite trig_eqb_refl in E; discriminate). tauto.
Qed.

Lemma sub_fold e l : forall subs x t,
  In x (subs_of t (fold_left (subscribe e) l subs)) <-> In x (subs_of t subs) \/ (x = e /\ In t l).
Proof.
  induction l as [|t0 l IH]; intros subs x t; cbn [fold_left].
  - cbn [In]. tauto.
  - rewrite IH. cbn [In].
    assert (Hone : In x (subs_of t (subscribe e subs t0)) <-> In x (subs_of t subs) \/ (x = e /\ t0 = t)).
    { unfold subscribe. destruct (mem_nat e (subs_of t0 subs)) eqn:M.
      - apply mem_nat_In in M. split; [auto|]. intros [H|[-> <-]]; assumption.
      - rewrite subs_of_set. destruct (trig_eqb t t0) eqn:E.
        + apply trig_eqb_eq in E. subst t0. rewrite in_app_iff. cbn [In]. intuition.
        + assert (t0 <> t) by (intros ->; rewrite trig_eqb_refl in E; discriminate). tauto. }
    rewrite Hone. tauto.
Qed.

Lemma in_concat_map {A B} (g : A -> list B) l y :
  In y (concat (map g l)) <-> exists x, In x l /\ In y (g x).
Proof.
  rewrite in_concat. split.
  - intros [z [Hz Hy]]. apply in_map_iff in Hz. destruct Hz as [x [<- Hx]]. exists x. auto.
  - intros [x [Hx Hy]]. exists (g x). split; [apply in_map; exact Hx | exact Hy].
Qed.

(** the triggers an iterating reader tracks are the track_field sets of the collection and of its items *)
Lemma iterate_reads kc r v :
  exists rs, forall t, In t (fst (fst (iterate kc r v))) <-> exists r', In r' rs /\ In t (track_field r').
Proof.
  unfold iterate. destruct (r_sh r).
  - exists [r_segs r]. intros t. cbn [fst In]. split; [intros H; exists (r_segs r); auto | intros [r' [[<-|[]] H]]; exact H].
  - exists [r_segs r]. intros t. cbn [fst In]. split; [intros H; exists (r_segs r); auto | intros [r' [[<-|[]] H]]; exact H].
  - exists [r_segs r]. intros t. cbn [fst In]. split; [intros H; exists (r_segs r); auto | intros [r' [[<-|[]] H]]; exact H].
  - exists (r_segs r :: map (fun i => r_segs r ++ [i]) (seq 0 (length (as_list v)))).
    intros t. cbn [fst]. rewrite in_app_iff, in_concat_map. cbn [In]. split.
    + intros [H|[i [Hi H]]]; [exists (r_segs r); auto|].
      exists (r_segs r ++ [i]). split; [right; apply in_map_iff; exists i; split; [reflexivity | exact Hi] | exact H].
    + intros [r' [[<-|Hr] H]]; [left; exact H|]. apply in_map_iff in Hr. destruct Hr as [i [<- Hi]].
      right. exists i. auto.
  - set (km := km_update _ _ _ _ _).
    set (f := match km_find (r_segs r) km with Some f => f | None => fk_new [] end).
    set (pth := fun k => match fk_get k f with Some (seg, _) => r_segs r ++ [seg] | None => r_segs r end).
    exists (r_segs r :: map pth (keys_of v)).
    intros t. cbn [fst]. rewrite in_app_iff, map_map, in_concat_map. cbn [In].
    assert (Hg : forall k, fst (match fk_get k f with
                                | Some (seg, idx) => (track_field (r_segs r ++ [seg]), enc_read (nth_error (as_list v) idx))
                                | None => (track_field (r_segs r), enc_read None)
                                end) = track_field (pth k)).
    { intros k. unfold pth. destruct (fk_get k f) as [[seg idx]|]; reflexivity. }
    split.
    + intros [H|[k [Hk H]]]; [exists (r_segs r); auto|]. rewrite Hg in H.
      exists (pth k). split; [right; apply in_map_iff; exists k; split; [reflexivity | exact Hk] | exact H].
    + intros [r' [[<-|Hr] H]]; [left; exact H|]. apply in_map_iff in Hr. destruct Hr as [k [<- Hk]].
      right. exists k. split; [exact Hk | rewrite Hg; exact H].
  - exists [r_segs r]. intros t. cbn [fst In]. split; [intros H; exists (r_segs r); auto | intros [r' [[<-|[]] H]]; exact H].
  - exists [r_segs r]. intros t. cbn [fst In]. split; [intros H; exists (r_segs r); auto | intros [r' [[<-|[]] H]]; exact H].
Qed.

(** what one effect run does to the subscription state *)
Lemma run_effect_spec sh kc s e rd :
  let s' := run_effect sh kc s e rd in
  exists tr,
    st_queue s' = st_queue s /\
    (forall x, srcs_of x (st_srcs s') = if Nat.eqb x e then tr else srcs_of x (st_srcs s)) /\
    (forall x t, sub_in s' x t <-> (sub_in s x t /\ ~ (x = e /\ src_in s e t)) \/ (x = e /\ In t tr)) /\
    (exists rs, forall t, In t tr <-> exists r, In r rs /\ In t (track_field r)).
Proof.
  unfold run_effect. destruct (walk (root_reached sh s) (rd_chain rd) 0) as [r j].
  set (full := Nat.eqb j (length (rd_chain rd))).
  set (res := if full then _ else _).
  assert (Hres : exists rs, forall t, In t (fst (fst res)) <-> exists r', In r' rs /\ In t (track_field r')).
  { subst res. destruct full.
    - destruct (Nat.eqb (rd_how rd) 1); [destruct (r_val r) as [v|]|].
      + destruct (iterate_reads kc r v) as [rs Hrs]. exists rs. intros t.
        destruct (iterate kc r v) as [[tr0 val0] km0]. exact (Hrs t).
      + exists [r_segs r]. intros t. cbn [fst In]. split; [intros H; exists (r_segs r); auto | intros [r' [[<-|[]] H]]; exact H].
      + exists [r_segs r]. intros t. cbn [fst In]. split; [intros H; exists (r_segs r); auto | intros [r' [[<-|[]] H]]; exact H].
    - exists []. intros t. cbn [fst In]. split; [intros [] | intros [r' [[] _]]]. }
  destruct res as [[tr val] km]. cbn [fst] in Hres. cbn zeta. exists tr.
  cbn [st_queue st_srcs st_subs]. split; [reflexivity|]. split; [intros x; apply srcs_of_set|].
  split; [|exact Hres].
  intros x t. unfold sub_in, src_in. cbn [st_subs]. rewrite sub_fold, unsub_fold. tauto.
Qed.

(** ---- the invariant along a drain ---- *)
Lemma consistent_ext n s s' :
  st_subs s' = st_subs s -> st_srcs s' = st_srcs s -> st_queue s' = st_queue s ->
  consistent n s -> consistent n s'.
Proof.
  intros A B Cq [Ia Ib Nd Ql Sl]. constructor; unfold sub_in, src_in in *; rewrite ?A, ?B, ?Cq; auto.
Qed.

Lemma reads_ext s s' e rs : st_srcs s' = st_srcs s -> reads s e rs -> reads s' e rs.
Proof. unfold reads, src_in. intros ->. auto. Qed.

(** every effect's sources are the track_field sets of some fields *)
Definition all_read (s : state) : Prop := forall e, exists rs, reads s e rs.

Lemma run_effect_consistent n sh kc s e rd :
  (forall x t, sub_in s x t -> src_in s x t) ->
  (forall x t, x <> e -> ~ In x (st_queue s) -> src_in s x t -> sub_in s x t) ->
  NoDup (st_queue s) -> ~ In e (st_queue s) -> e < n ->
  (forall x, In x (st_queue s) -> x < n) -> (forall x t, sub_in s x t -> x < n) ->
  all_read s ->
  consistent n (run_effect sh kc s e rd) /\ all_read (run_effect sh kc s e rd).
Proof.
  intros Ia Ib Nd He Hn Ql Sl Hall.
  destruct (run_effect_spec sh kc s e rd) as [tr [Q [S [U [rs Hrs]]]]].
  set (s' := run_effect sh kc s e rd) in *.
  assert (Hsrc : forall x t, src_in s' x t <-> if Nat.eqb x e then In t tr else src_in s x t).
  { intros x t. unfold src_in. rewrite S. destruct (Nat.eqb x e); tauto. }
  split.
  - constructor.
    + intros x t H. apply U in H. apply Hsrc. destruct H as [[H Hne]|[-> H]].
      * destruct (Nat.eqb x e) eqn:E; [|apply Ia; exact H].
        apply Nat.eqb_eq in E. subst x. exfalso. apply Hne. split; [reflexivity | apply Ia; exact H].
      * rewrite Nat.eqb_refl. exact H.
    + intros x t Hq Hs. rewrite Q in Hq. apply Hsrc in Hs. apply U.
      destruct (Nat.eqb x e) eqn:E.
      * apply Nat.eqb_eq in E. subst x. right. auto.
      * apply Nat.eqb_neq in E. left. split; [apply Ib; assumption | intros [Hx _]; exact (E Hx)].
    + rewrite Q. exact Nd.
    + intros x Hx. rewrite Q in Hx. apply Ql, Hx.
    + intros x t H. apply U in H. destruct H as [[H _]|[-> _]]; [apply (Sl x t), H | exact Hn].
  - intros x. destruct (Nat.eqb x e) eqn:E.
    + apply Nat.eqb_eq in E. subst x. exists rs. intros t. rewrite Hsrc, Nat.eqb_refl. apply Hrs.
    + destruct (Hall x) as [rs' Hr']. exists rs'. intros t. rewrite Hsrc, E. apply Hr'.
Qed.

Lemma NoDup_lt_length n (l : list nat) : NoDup l -> (forall x, In x l -> x < n) -> length l <= n.
Proof.
  intros Nd Hlt. rewrite <- (seq_length n 0). apply NoDup_incl_length; [exact Nd|].
  intros x Hx. apply in_seq. specialize (Hlt x Hx). lia.
Qed.

Lemma drain_consistent n sh readers sched kc : n = length readers -> forall fuel s,
  consistent n s -> all_read s -> length (st_queue s) <= fuel ->
  consistent n (drain fuel sh readers sched kc s) /\ all_read (drain fuel sh readers sched kc s) /\
  st_queue (drain fuel sh readers sched kc s) = [].
Proof.
  intros Hn. induction fuel as [|fuel IH]; intros s Hc Hall Hlen.
  - cbn [drain]. destruct (st_queue s) eqn:Q; [auto | cbn [length] in Hlen; lia].
  - cbn [drain]. destruct (st_queue s) as [|e0 q0] eqn:Q; [auto|].
    set (pick := match sched with [] => (0, st_spos s) | _ :: _ => _ end).
    assert (Hk : fst pick < length (e0 :: q0)).
    { subst pick. destruct sched; cbn [fst]; [cbn [length]; lia|].
      apply Nat.mod_upper_bound. cbn [length]. lia. }
    destruct pick as [k spos]. cbn [fst] in Hk.
    destruct (take_nth_some k (e0 :: q0) Hk) as [e [q E]]. rewrite E.
    pose proof (take_nth_perm _ _ _ _ E) as Hp.
    destruct Hc as [Ia Ib Nd Ql Sl]. rewrite Q in *.
    assert (Nd' : NoDup (e :: q)) by (eapply Permutation_NoDup; [exact Hp | exact Nd]).
    inversion Nd' as [|? ? Heq Ndq]; subst.
    set (s1 := mkState _ _ _ _ q _ _ spos _).
    assert (Hen : e < length readers).
    { apply Ql. apply (Permutation_in _ (Permutation_sym Hp)). left. reflexivity. }
    apply Nat.ltb_lt in Hen. rewrite Hen. apply Nat.ltb_lt in Hen.
    assert (Hrun : consistent (length readers) (run_effect sh kc s1 e (nth e readers no_reader)) /\
                   all_read (run_effect sh kc s1 e (nth e readers no_reader))).
    { apply run_effect_consistent; subst s1; unfold sub_in, src_in in *; cbn [st_subs st_srcs st_queue] in *.
      - exact Ia.
      - intros x t Hne Hq Hs. apply Ib; [|exact Hs]. intros Hin.
        apply (Permutation_in _ Hp) in Hin. destruct Hin as [->|Hin]; [congruence | exact (Hq Hin)].
      - exact Ndq.
      - exact Heq.
      - exact Hen.
      - intros x Hx. apply Ql. apply (Permutation_in _ (Permutation_sym Hp)). right. exact Hx.
      - exact Sl.
      - exact Hall. }
    destruct Hrun as [Hc1 Ha1]. apply IH; [exact Hc1 | exact Ha1|].
    destruct (run_effect_spec sh kc s1 e (nth e readers no_reader)) as [tr [Qq _]].
    rewrite Qq. subst s1. cbn [st_queue]. apply Permutation_length in Hp. cbn [length] in *. lia.
Qed.

(** ---- along a whole history ---- *)
Definition quiescent (n : nat) (s : state) : Prop :=
  consistent n s /\ all_read s /\ st_queue s = [].

Lemma consistent_queue_length n s : consistent n s -> length (st_queue s) <= n.
Proof. intros [_ _ Nd Ql _]. apply NoDup_lt_length; assumption. Qed.

Lemma all_read_ext s s' : st_srcs s' = st_srcs s -> all_read s -> all_read s'.
Proof. intros E H e. destruct (H e) as [rs Hr]. exists rs. eapply reads_ext; eassumption. Qed.

Lemma report_quiescent n s extra : quiescent n s -> quiescent n (snd (report s extra)).
Proof.
  intros [Hc [Ha Hq]]. unfold report. cbn [snd]. split; [|split].
  - eapply consistent_ext; [| | |exact Hc]; reflexivity.
  - eapply all_read_ext; [|exact Ha]. reflexivity.
  - exact Hq.
Qed.

Lemma drain_quiescent sh readers sched kc s :
  consistent (length readers) s -> all_read s ->
  quiescent (length readers) (drain (length readers) sh readers sched kc s).
Proof.
  intros Hc Ha. apply drain_consistent; [reflexivity | exact Hc | exact Ha | apply consistent_queue_length; exact Hc].
Qed.

Lemma notify_all_g_wake s ts : notify_all_g wake s ts = notify_all s ts.
Proof. reflexivity. Qed.

(** the shape of a successful write: a change of value / KeyMap, then the notifications of its guard *)
Lemma do_set_true sh kc s chain new s1 :
  do_set sh kc s chain new = (s1, true) ->
  exists k p v' km, s1 = notify_all (with_val_keys s v' km) (notified k p).
Proof.
  unfold do_set, do_set_g. rewrite ?notify_all_g_wake. destruct (walk (root_reached sh s) chain 0) as [r j].
  destruct (negb (Nat.eqb j (length chain))); [intros H; inversion H|].
  destruct (r_val r); [|intros H; inversion H].
  intros H. inversion H. eauto.
Qed.

Lemma do_set_pre n sh kc s chain new :
  consistent n s -> all_read s ->
  consistent n (fst (do_set sh kc s chain new)) /\ all_read (fst (do_set sh kc s chain new)).
Proof.
  intros Hc Ha. unfold do_set, do_set_g. destruct (walk (root_reached sh s) chain 0) as [r j].
  rewrite ?notify_all_g_wake.
  destruct (negb (Nat.eqb j (length chain))); cbn [fst]; [auto|].
  destruct (r_val r); cbn [fst].
  - split.
    + apply notify_all_consistent. eapply consistent_ext; [| | |exact Hc]; reflexivity.
    + eapply all_read_ext; [|exact Ha]. destruct (notify_all_spec (notified (kind_of r) (r_segs r))
        (with_val_keys s (set_at (st_val s) (r_lens r) new)
           match kind_of r with
           | WKeyed => km_update (fst kc) (snd kc) (r_segs r) (keys_of new) (r_keys r)
           | _ => r_keys r
           end)) as [A _]. rewrite A. reflexivity.
  - split; [eapply consistent_ext; [| | |exact Hc]; reflexivity | eapply all_read_ext; [|exact Ha]; reflexivity].
Qed.

Lemma do_patch_pre n sh s chain new :
  consistent n s -> all_read s ->
  consistent n (fst (do_patch sh s chain new)) /\ all_read (fst (do_patch sh s chain new)).
Proof.
  intros Hc Ha. unfold do_patch, do_patch_g. destruct (walk (root_reached sh s) chain 0) as [r j].
  destruct (negb (Nat.eqb j (length chain))); cbn [fst]; [auto|].
  destruct (r_val r) as [old|]; cbn [fst].
  - destruct (patch_val (r_sh r) old new (r_segs r)) as [v ps]. cbn [fst]. rewrite ?notify_all_g_wake. split.
    + apply notify_all_consistent. eapply consistent_ext; [| | |exact Hc]; reflexivity.
    + eapply all_read_ext; [|exact Ha].
      destruct (notify_all_spec (concat (map triggers_for_path ps))
                  (with_val_keys s (set_at (st_val s) (r_lens r) v) (r_keys r))) as [A _]. rewrite A. reflexivity.
  - split; [eapply consistent_ext; [| | |exact Hc]; reflexivity | eapply all_read_ext; [|exact Ha]; reflexivity].
Qed.

Lemma wake_consistent n s e : e < n -> consistent n s -> consistent n (wake s e).
Proof.
  intros He [Ia Ib Nd Ql Sl]. constructor; unfold sub_in, src_in in *; rewrite ?wake_subs, ?wake_srcs; auto.
  - intros x t Hq. apply Ib. intros H. apply Hq, wake_queue. left. exact H.
  - apply wake_nodup, Nd.
  - intros x Hx. apply wake_queue in Hx. destruct Hx as [Hx| ->]; [apply Ql, Hx | exact He].
Qed.

Lemma do_set_u_pre n sh kc s chain new :
  consistent n s -> all_read s ->
  consistent n (fst (do_set_u sh kc s chain new)) /\ all_read (fst (do_set_u sh kc s chain new)).
Proof.
  intros Hc Ha. unfold do_set_u. destruct (walk (root_reached sh s) chain 0) as [r j].
  destruct (negb (Nat.eqb j (length chain))); cbn [fst]; [auto|].
  destruct (r_val r); cbn [fst];
    (split; [eapply consistent_ext; [| | |exact Hc]; reflexivity | eapply all_read_ext; [|exact Ha]; reflexivity]).
Qed.

Lemma do_update_keys_pre n sh kc s chain :
  consistent n s -> all_read s ->
  consistent n (fst (do_update_keys sh kc s chain)) /\ all_read (fst (do_update_keys sh kc s chain)).
Proof.
  intros Hc Ha. unfold do_update_keys. destruct (walk (root_reached sh s) chain 0) as [r j].
  destruct (negb (Nat.eqb j (length chain))); cbn [fst]; [auto|].
  destruct (r_sh r); try destruct (r_val r); cbn [fst];
    (split; [eapply consistent_ext; [| | |exact Hc]; reflexivity | eapply all_read_ext; [|exact Ha]; reflexivity]).
Qed.

Lemma do_step_quiescent sh readers sched kc s h :
  quiescent (length readers) s -> quiescent (length readers) (snd (do_step sh readers sched kc s h)).
Proof.
  intros Hq. pose proof Hq as [Hc [Ha Hq0]]. unfold do_step, do_step_g. change (do_set_g wake) with do_set. change (do_patch_g wake) with do_patch.
  destruct h as [chain v|chain v|chain|chain ks|e| |chain v|chain].
  - destruct (do_set_pre (length readers) sh kc s chain v Hc Ha) as [C1 A1].
    destruct (do_set sh kc s chain v) as [s1 ok]. cbn [fst] in *.
    apply report_quiescent, drain_quiescent; assumption.
  - destruct (do_patch_pre (length readers) sh s chain v Hc Ha) as [C1 A1].
    destruct (do_patch sh s chain v) as [s1 ok]. cbn [fst] in *.
    apply report_quiescent, drain_quiescent; assumption.
  - destruct (walk (root_reached sh s) chain 0) as [r j].
    destruct (Nat.eqb j (length chain)); apply report_quiescent; [|exact Hq].
    split; [eapply consistent_ext; [| | |exact Hc]; reflexivity|].
    split; [eapply all_read_ext; [|exact Ha]; reflexivity | exact Hq0].
  - destruct (walk (root_reached sh s) chain 0) as [r j].
    destruct (Nat.eqb j (length chain)); [|apply report_quiescent; exact Hq].
    destruct (r_sh r); try (apply report_quiescent; exact Hq).
    destruct (r_val r) as [v|]; [|apply report_quiescent; exact Hq].
    destruct (match keys_of v with [] => _ | _ :: _ => _ end) as [f km].
    apply report_quiescent.
    split; [eapply consistent_ext; [| | |exact Hc]; reflexivity|].
    split; [eapply all_read_ext; [|exact Ha]; reflexivity | exact Hq0].
  - destruct (Nat.ltb e (length readers)) eqn:E; [|apply report_quiescent; exact Hq].
    apply Nat.ltb_lt in E. apply report_quiescent, drain_quiescent.
    + apply wake_consistent; assumption.
    + eapply all_read_ext; [|exact Ha]. apply wake_srcs.
  - apply report_quiescent. exact Hq.
  - destruct (do_set_u_pre (length readers) sh kc s chain v Hc Ha) as [C1 A1].
    destruct (do_set_u sh kc s chain v) as [s1 ok]. cbn [fst] in *.
    apply report_quiescent, drain_quiescent; assumption.
  - destruct (do_update_keys_pre (length readers) sh kc s chain Hc Ha) as [C1 A1].
    destruct (do_update_keys sh kc s chain) as [s1 ok]. cbn [fst] in *.
    apply report_quiescent, drain_quiescent; assumption.
Qed.

Lemma do_steps_quiescent sh readers sched : forall hs kcs s,
  quiescent (length readers) s -> quiescent (length readers) (snd (do_steps sh readers sched kcs s hs)).
Proof.
  induction hs as [|h hs IH]; intros kcs s Hq; unfold do_steps; cbn [do_steps_g]; fold (do_steps sh readers sched); [exact Hq|].
  pose proof (do_step_quiescent sh readers sched (hd ([], []) kcs) s h Hq) as H1.
  change (do_step_g wake) with do_step.
  destruct (do_step sh readers sched (hd ([], []) kcs) s h) as [o s1]. cbn [snd] in H1.
  specialize (IH (tl kcs) s1 H1).
  destruct (do_steps sh readers sched (tl kcs) s1 hs) as [os s2]. exact IH.
Qed.

Lemma init_consistent v n : consistent n (init_state v n) /\ all_read (init_state v n).
Proof.
  split.
  - constructor; unfold sub_in, src_in, init_state; cbn [st_subs st_srcs st_queue subs_of srcs_of].
    + intros e t [].
    + intros e t _ [].
    + apply seq_NoDup.
    + intros e He. apply in_seq in He. lia.
    + intros e t [].
  - intros e. exists []. intros t. unfold src_in, init_state. cbn [st_srcs srcs_of]. split; [intros [] | intros [r [[] _]]].
Qed.

(** the state after the initial runs of all effects and an arbitrary history *)
Definition start (sh : shape) (readers : list reader) (sched : list nat) (v : sexp) : state :=
  snd (report (drain (length readers) sh readers sched ([], []) (init_state v (length readers))) []).

Definition after (sh : shape) (readers : list reader) (sched : list nat)
           (kcs : list (list nat * list nat)) (v : sexp) (hs : list hstep) : state :=
  snd (do_steps sh readers sched kcs (start sh readers sched v) hs).

Theorem reachable_quiescent sh readers sched kcs v hs :
  quiescent (length readers) (after sh readers sched kcs v hs).
Proof.
  unfold after. apply do_steps_quiescent. unfold start. apply report_quiescent.
  destruct (init_consistent v (length readers)) as [Hc Ha]. apply drain_quiescent; assumption.
Qed.

(** End to end, for every store shape, set of readers (plain or iterating), executor
    schedule, FieldKeys visiting orders and history of writes / patches / pokes: when a write
    guard is then obtained and dropped, the effects it wakes are exactly those whose last
    run read a field related (prefix either way) to the written path. *)
Theorem sim_write_wakes_exactly_related sh readers sched kcs v hs kc chain new s1 :
  let s := after sh readers sched kcs v hs in
  do_set sh kc s chain new = (s1, true) ->
  exists k p, forall e, exists rs,
    reads s e rs /\ (In e (st_queue s1) <-> exists r, In r rs /\ wakes_k k p r = true).
Proof.
  intros s Hset. destruct (reachable_quiescent sh readers sched kcs v hs) as [Hc [Ha Hq]]. fold s in Hc, Ha, Hq.
  destruct (do_set_true sh kc s chain new s1 Hset) as [k [p [v' [km ->]]]].
  exists k, p. intros e. destruct (Ha e) as [rs Hr]. exists rs. split; [exact Hr|].
  apply (write_wakes_exactly_related (length readers)).
  - eapply consistent_ext; [| | |exact Hc]; reflexivity.
  - exact Hq.
  - eapply reads_ext; [|exact Hr]. reflexivity.
Qed.

(** hypotheses satisfiable: a reachable state with non-trivial subscriptions, and a write that
    wakes some readers and not others *)
Example sim_nontrivial :
  let sh := SStruct [SInt; SStruct [SInt; SInt]] in
  let v := Lst [Num 1%Z; Lst [Num 2%Z; Num 3%Z]] in
  let readers := [mkReader 0 0 []; mkReader 0 0 [Fld 0]; mkReader 0 0 [Fld 1]; mkReader 0 0 [Fld 1; Fld 0]; mkReader 0 0 [Fld 1; Fld 1]] in
  let s := after sh readers [] [] v [HSet [Fld 0] (Num 5%Z)] in
  st_queue (fst (do_set sh ([], []) s [Fld 1; Fld 0] (Num 7%Z))) = [0; 2; 3].
Proof. vm_compute. reflexivity. Qed.

(** ---- order of the wake-ups ---- *)
Lemma wake_prefix s e : exists extra, st_queue (wake s e) = st_queue s ++ extra.
Proof.
  unfold wake. destruct (mem_nat e (st_queue s)); cbn [st_queue];
    [exists []; rewrite app_nil_r; reflexivity | exists [e]; reflexivity].
Qed.

Lemma fold_wake_prefix l : forall s, exists extra, st_queue (fold_left wake l s) = st_queue s ++ extra.
Proof.
  induction l as [|e l IH]; intros s; cbn [fold_left].
  - exists []. rewrite app_nil_r. reflexivity.
  - destruct (IH (wake s e)) as [x Hx]. destruct (wake_prefix s e) as [y Hy].
    exists (y ++ x). rewrite Hx, Hy, app_assoc. reflexivity.
Qed.

Lemma notify_all_prefix ts : forall s, exists extra, st_queue (notify_all s ts) = st_queue s ++ extra.
Proof.
  unfold notify_all. induction ts as [|t ts IH]; intros s; cbn [fold_left].
  - exists []. rewrite app_nil_r. reflexivity.
  - destruct (IH (notify_trig s t)) as [x Hx].
    assert (Hy : exists y, st_queue (notify_trig s t) = st_queue s ++ y).
    { unfold notify_trig, notify_trig_g.
      destruct (fold_wake_prefix (subs_of t (st_subs s))
                  (mkState (st_val s) (st_keys s) (subs_set t [] (st_subs s)) (st_srcs s) (st_queue s)
                           (st_wakes s) (st_runs s) (st_spos s) (st_last s))) as [y Hy].
      exists y. exact Hy. }
    destruct Hy as [y Hy]. exists (y ++ x). rewrite Hx, Hy, app_assoc. reflexivity.
Qed.

Lemma notify_all_app s ts1 ts2 : notify_all s (ts1 ++ ts2) = notify_all (notify_all s ts1) ts2.
Proof. unfold notify_all. apply fold_left_app. Qed.

Lemma nth_error_firstn_lt {A} (l : list A) : forall m j, j < m -> nth_error (firstn m l) j = nth_error l j.
Proof.
  induction l as [|x l IH]; intros m j Hj.
  - rewrite firstn_nil. reflexivity.
  - destruct m as [|m]; [lia|]. destruct j as [|j]; cbn [firstn nth_error]; [reflexivity|].
    apply IH. lia.
Qed.

(** if the first notified trigger that [e1] subscribes to comes strictly before the first one
    of [e2], then [e1] is queued before [e2] *)
Lemma notify_all_order n s ts e1 e2 i1 t1 :
  consistent n s -> st_queue s = [] ->
  nth_error ts i1 = Some t1 -> sub_in s e1 t1 ->
  (forall j t, j <= i1 -> nth_error ts j = Some t -> ~ sub_in s e2 t) ->
  In e2 (st_queue (notify_all s ts)) ->
  exists q1 q2, st_queue (notify_all s ts) = q1 ++ q2 /\ In e1 q1 /\ ~ In e2 q1 /\ In e2 q2.
Proof.
  intros Hc Hq Hn H1 H2 Hin.
  rewrite <- (firstn_skipn (S i1) ts) in Hin |- *. rewrite notify_all_app in Hin |- *.
  set (s1 := notify_all s (firstn (S i1) ts)) in *.
  destruct (notify_all_prefix (skipn (S i1) ts) s1) as [extra He]. rewrite He in Hin |- *.
  destruct (notify_all_spec (firstn (S i1) ts) s) as [_ [_ [Cq _]]].
  assert (In1 : In e1 (st_queue s1)).
  { apply Cq. right. exists t1. split; [|exact H1].
    apply (nth_error_In (firstn (S i1) ts) i1). rewrite nth_error_firstn_lt; [exact Hn | lia]. }
  assert (Nin2 : ~ In e2 (st_queue s1)).
  { intros H. apply Cq in H. rewrite Hq in H. destruct H as [[]|[t [Ht Hs]]].
    apply In_nth_error in Ht. destruct Ht as [j Hj].
    assert (j < S i1).
    { assert (Hl : j < length (firstn (S i1) ts)) by (apply nth_error_Some; congruence).
      rewrite firstn_length in Hl. lia. }
    rewrite nth_error_firstn_lt in Hj by lia. apply (H2 j t); [lia | exact Hj | exact Hs]. }
  exists (st_queue s1), extra. repeat split; auto.
  apply in_app_iff in Hin. destruct Hin as [Hin|Hin]; [contradiction | exact Hin].
Qed.

(** in terms of paths: a reader woken at an earlier position of the notification order
    (see [wake_pos_spec]) is queued — and, on a FIFO executor, run — before one woken later *)
Theorem earlier_position_queued_first n s k p e1 e2 r1 r2 i1 i2 :
  consistent n s -> st_queue s = [] -> reads s e1 [r1] -> reads s e2 [r2] ->
  wake_pos_k k p r1 = Some i1 -> wake_pos_k k p r2 = Some i2 -> i1 < i2 ->
  exists q1 q2, st_queue (notify_all s (notified k p)) = q1 ++ q2 /\ In e1 q1 /\ ~ In e2 q1 /\ In e2 q2.
Proof.
  intros Hc Hq R1 R2 P1 P2 Hlt. unfold wake_pos_k in *.
  apply first_hit_spec in P1. destruct P1 as [k1 [t1 [-> [N1 [T1 _]]]]].
  apply first_hit_spec in P2. destruct P2 as [k2 [t2 [-> [N2 [T2 M2]]]]].
  cbn [plus] in *.
  pose proof Hc as [Ia Ib _ _ _].
  assert (S1 : sub_in s e1 t1).
  { apply Ib; [rewrite Hq; intros []|]. apply R1. exists r1. split; [left; reflexivity | apply trig_in_In; exact T1]. }
  apply (notify_all_order n s (notified k p) e1 e2 k1 t1 Hc Hq N1 S1).
  - intros j t Hj Hn Hs. apply Ia in Hs. apply R2 in Hs. destruct Hs as [r [[<-|[]] Hin]].
    apply trig_in_In in Hin. rewrite (M2 j t ltac:(lia) Hn) in Hin. discriminate.
  - apply (notify_all_wakes n s _ e2 Hc Hq). exists t2. split; [eapply nth_error_In; exact N2|].
    apply R2. exists r2. split; [left; reflexivity | apply trig_in_In; exact T2].
Qed.

(** readers of (strict) ancestors of the written field are queued before readers of deeper fields *)
Theorem ancestor_reader_queued_first n s p e1 e2 r1 r2 :
  consistent n s -> st_queue s = [] -> reads s e1 [r1] -> reads s e2 [r2] ->
  is_prefix r1 p = true -> (is_prefix r2 p = true \/ is_prefix p r2 = true) -> length r1 < length r2 ->
  exists q1 q2, st_queue (notify_all s (notified WField p)) = q1 ++ q2 /\ In e1 q1 /\ ~ In e2 q1 /\ In e2 q2.
Proof.
  intros Hc Hq R1 R2 A1 A2 Hlen.
  assert (P1 : exists i1, wake_pos p r1 = Some i1).
  { apply wake_pos_some, notified_iff_related. right. exact A1. }
  assert (P2 : exists i2, wake_pos p r2 = Some i2).
  { apply wake_pos_some, notified_iff_related. destruct A2 as [A2|A2]; [right | left]; exact A2. }
  destruct P1 as [i1 P1]. destruct P2 as [i2 P2].
  destruct (ancestors_before_descendants p r1 r2 _ _ P1 P2 ltac:(lia)) as [_ Hs].
  apply (earlier_position_queued_first n s WField p e1 e2 r1 r2 i1 i2); auto.
Qed.

(** Patch::patch notifies triggers_for_path of every changed leaf: it wakes exactly the
    effects that read a field related to one of the changed paths *)
Theorem patch_wakes_exactly_related n s ps e rs :
  consistent n s -> st_queue s = [] -> reads s e rs ->
  (In e (st_queue (notify_all s (concat (map triggers_for_path ps)))) <->
   exists p r, In p ps /\ In r rs /\ wakes p r = true).
Proof.
  intros Hc Hq Hr. rewrite (notify_all_wakes n s _ e Hc Hq). split.
  - intros [t [Ht Hs]]. apply in_concat_map in Ht. destruct Ht as [p [Hp Ht]].
    apply Hr in Hs. destruct Hs as [r [Hin Htr]]. exists p, r. repeat split; auto.
    unfold wakes. apply wakes_k_spec. exists t. split; assumption.
  - intros [p [r [Hp [Hin Hw]]]]. unfold wakes in Hw. apply wakes_k_spec in Hw. destruct Hw as [t [Ht Htr]].
    exists t. split; [apply in_concat_map; exists p; split; assumption|].
    apply Hr. exists r. split; assumption.
Qed.

(** an effect whose last run read nothing from the store (chain cut short: a removed key, a
    None, a missing index) is woken by no write at all: it has been dropped *)
Corollary blocked_reader_never_woken n s k p e :
  consistent n s -> st_queue s = [] -> reads s e [] -> ~ In e (st_queue (notify_all s (notified k p))).
Proof.
  intros Hc Hq Hr H. apply (write_wakes_exactly_related n s k p e [] Hc Hq Hr) in H.
  destruct H as [r [[] _]].
Qed.

(** ---- keyed readers and the freshness of the keys (open finding F-C16-e) ---- *)

(** the recorded indices of a FieldKeys agree with the collection's current content *)
Definition keys_synced (f : fkeys) (v : sexp) : Prop :=
  forall k seg idx, fk_get k f = Some (seg, idx) ->
    exists it, nth_error (as_list v) idx = Some it /\ item_key it = k.

(** the KeyMap entry a keyed step at [p] will use is in sync with the collection [v]
    (an absent entry is created from [v] itself) *)
Definition entry_synced (km : keymap) (p : path) (v : sexp) : Prop :=
  match km_find p km with
  | Some f => keys_synced f v
  | None => NoDup (keys_of v)
  end.

Lemma fk_new_synced v : NoDup (keys_of v) -> keys_synced (fk_new (keys_of v)) v.
Proof.
  intros Hnd k seg idx Hg. unfold fk_get in Hg. rewrite (fk_new_keys _ Hnd) in Hg.
  apply assoc_In in Hg. apply in_map_iff in Hg. destruct Hg as [[k' i] [Heq Hin]].
  cbn [fst snd] in Heq. inversion Heq; subst.
  assert (Hn : nth_error (keys_of v) idx = Some k).
  { assert (G : forall l b, In (k, idx) (enumerate_from b l) -> b <= idx /\ nth_error l (idx - b) = Some k).
    { induction l as [|x l IH]; intros b H; cbn [enumerate_from In] in H; [destruct H|].
      destruct H as [H|H].
      - inversion H; subst. rewrite Nat.sub_diag. split; [lia | reflexivity].
      - destruct (IH (S b) H) as [Hle Hnth]. split; [lia|].
        replace (idx - b) with (S (idx - S b)) by lia. exact Hnth. }
    destruct (G _ _ Hin) as [_ Hn]. replace (idx - 0) with idx in Hn by lia. exact Hn. }
  unfold keys_of in Hn. rewrite nth_error_map in Hn.
  destruct (nth_error (as_list v) idx) as [it|]; [|discriminate].
  cbn [option_map] in Hn. inversion Hn. exists it. split; reflexivity.
Qed.

(** update_keys() (run by the keyed field's own write guard and by its iterator) restores the sync *)
Theorem update_restores_sync c1 c2 f v :
  fk_wf f -> NoDup (keys_of v) -> keys_synced (fk_update c1 c2 f (keys_of v)) v.
Proof.
  intros Hwf Hnd k seg idx Hg.
  pose proof (index_is_position c1 c2 f (keys_of v) Hwf Hnd k seg idx Hg) as Hn.
  unfold keys_of in Hn. rewrite nth_error_map in Hn.
  destruct (nth_error (as_list v) idx) as [it|]; [|discriminate].
  cbn [option_map] in Hn. inversion Hn. exists it. split; reflexivity.
Qed.

(** except in the known class (keys out of sync), a keyed step reaches the item that carries
    the reader's key *)
Theorem keyed_step_reads_own_key_except_known r v k s0 it :
  r_sh r = SKeyed s0 -> entry_synced (r_keys r) (r_segs r) v ->
  r_val (extend r v (Key k)) = Some it -> item_key it = k.
Proof.
  intros Hsh Hsync Hval. unfold extend in Hval. rewrite Hsh in Hval.
  unfold entry_synced in Hsync. unfold km_entry in Hval.
  destruct (km_find (r_segs r) (r_keys r)) as [f|] eqn:E.
  - destruct (fk_get k f) as [[seg idx]|] eqn:G; cbn [r_val] in Hval; [|discriminate].
    destruct (Hsync k seg idx G) as [it' [Hn Hk]]. rewrite Hn in Hval. inversion Hval as [Heq]. rewrite <- Heq. exact Hk.
  - destruct (fk_get k (fk_new (keys_of v))) as [[seg idx]|] eqn:G; cbn [r_val] in Hval; [|discriminate].
    destruct (fk_new_synced v Hsync k seg idx G) as [it' [Hn Hk]]. rewrite Hn in Hval. inversion Hval as [Heq]. rewrite <- Heq. exact Hk.
Qed.

(** a keyed field nested below an item that was removed from the enclosing keyed collection
    (through that collection's own guard) is not in the known class when its path segment is
    taken over by a new item: its stale FieldKeys are gone (repair of F-C16-l), the next keyed
    step creates them from the collection it finds *)
Theorem recycled_slot_starts_fresh c1 c2 p latest m f seg q v :
  km_find p m = Some f -> In seg (fk_removed f latest) -> starts_with (p ++ [seg]) q = true ->
  NoDup (keys_of v) -> entry_synced (km_update c1 c2 p latest m) q v.
Proof.
  intros Hf Hin Hs Hnd. unfold entry_synced.
  rewrite (update_keys_forgets_below_removed c1 c2 p latest m f seg q Hf Hin Hs). exact Hnd.
Qed.

(** the known class is inhabited: after `store.set(...)` reordered the keyed collection
    [7; 8; 9] into [9; 8; 7] (no update_keys), the reader of key 7 reaches the item of key 9 *)
Example keyed_reader_follows_key_refuted :
  let sh := SStruct [SKeyed (SStruct [SInt; SInt])] in
  let it k n := Lst [Num k; Num n] in
  let v := Lst [Lst [it 7%Z 70%Z; it 8%Z 80%Z; it 9%Z 90%Z]] in
  let v' := Lst [Lst [it 9%Z 90%Z; it 8%Z 80%Z; it 7%Z 70%Z]] in
  let s := after sh [mkReader 0 0 [Fld 0; Key 7%Z]] [] [] v [HSet [] v'] in
  r_val (fst (walk (root_reached sh s) [Fld 0; Key 7%Z] 0)) = Some (it 9%Z 90%Z).
Proof. vm_compute. reflexivity. Qed.

(** ---- Patch of a keyed collection (open finding F-C16-n) ----
    PatchField for Vec names a changed item by its INDEX (path p ++ [idx]); a reader of a keyed
    item subscribes by the path segment of its KEY (p ++ [seg]).  The two agree as long as the
    FieldKeys of the collection are aligned (every key's segment is its index), which is the
    case until the collection is reordered / items are inserted before others. *)
Definition keys_aligned (f : fkeys) : Prop :=
  forall k seg idx, fk_get k f = Some (seg, idx) -> seg = idx.

(** except in the known class (KnownClass = the key map entry is not aligned), the path a keyed
    step gives the item of key k is the path Patch notifies for the index of that item *)
Theorem keyed_path_is_index_path_except_known r v k s0 f :
  r_sh r = SKeyed s0 -> km_find (r_segs r) (r_keys r) = Some f -> keys_aligned f ->
  forall seg idx, fk_get k f = Some (seg, idx) ->
    r_segs (extend r v (Key k)) = r_segs r ++ [idx].
Proof.
  intros Hsh Hf Hal seg idx Hg. unfold extend. rewrite Hsh. unfold km_entry. rewrite Hf, Hg.
  cbn [r_segs]. rewrite (Hal k seg idx Hg). reflexivity.
Qed.

(** a freshly created FieldKeys is aligned *)
Lemma fk_new_aligned ks : NoDup ks -> keys_aligned (fk_new ks).
Proof.
  intros Hnd k seg idx Hg. unfold fk_get in Hg. rewrite (fk_new_keys _ Hnd) in Hg.
  apply assoc_In in Hg. apply in_map_iff in Hg. destruct Hg as [[k' i] [Heq _]].
  cbn [fst snd] in Heq. inversion Heq; subst. reflexivity.
Qed.

(** the known class is inhabited: the keyed collection [7; 8] is reordered into [8; 7] through
    its own guard; patching it with a new `n` for the item of key 7 (now at index 1) re-runs the
    reader of key 8 (reader 1, whose key has segment 1), not the reader of key 7 (reader 0) *)
Example patch_keyed_item_refuted :
  let sh := SStruct [SKeyed (SStruct [SInt; SInt])] in
  let it k n := Lst [Num k; Num n] in
  let v := Lst [Lst [it 7%Z 1%Z; it 8%Z 2%Z]] in
  let readers := [mkReader 0 0 [Fld 0; Key 7%Z; Fld 1]; mkReader 0 0 [Fld 0; Key 8%Z; Fld 1]] in
  let s := after sh readers [] [] v [HSet [Fld 0] (Lst [it 8%Z 2%Z; it 7%Z 1%Z])] in
  st_queue (fst (do_patch sh s [Fld 0] (Lst [it 8%Z 2%Z; it 7%Z 5%Z]))) = [1].
Proof. vm_compute. reflexivity. Qed.

(** ---- order among readers of which one is an ancestor of the other (open finding F-C16-g) ---- *)

Lemma proper_prefix_length r1 r2 : is_prefix r1 r2 = true -> r1 <> r2 -> length r1 < length r2.
Proof.
  intros H Hne. apply is_prefix_exists in H as [c ->]. rewrite app_length.
  destruct c; [rewrite app_nil_r in Hne; congruence | cbn [length]; lia].
Qed.

(** except in the known class (KnownClass: the written field is a proper ancestor of both
    readers), the reader of the ancestor is queued before the reader of the descendant *)
Theorem ancestor_first_except_known n s p e1 e2 r1 r2 :
  consistent n s -> st_queue s = [] -> reads s e1 [r1] -> reads s e2 [r2] ->
  is_prefix r1 r2 = true -> r1 <> r2 -> wakes p r1 = true -> wakes p r2 = true ->
  ~ (is_prefix p r1 = true /\ p <> r1) ->
  exists q1 q2, st_queue (notify_all s (notified WField p)) = q1 ++ q2 /\ In e1 q1 /\ ~ In e2 q1 /\ In e2 q2.
Proof.
  intros Hc Hq R1 R2 Hpre Hne W1 W2 Hknown.
  assert (A1 : is_prefix r1 p = true).
  { apply notified_iff_related in W1. destruct W1 as [W1|W1]; [|exact W1].
    destruct (list_eq_dec Nat.eq_dec p r1) as [->|Hd]; [apply is_prefix_refl|].
    exfalso. apply Hknown. split; assumption. }
  apply (ancestor_reader_queued_first n s p e1 e2 r1 r2 Hc Hq R1 R2 A1).
  - apply notified_iff_related in W2. destruct W2 as [W2|W2]; [right | left]; exact W2.
  - apply proper_prefix_length; assumption.
Qed.

(** the store's own guard (children, children, this): readers of the store first *)
Lemma wake_pos_store r : wake_pos_k WRoot [] r = match r with [] => Some 0 | _ :: _ => Some 2 end.
Proof.
  unfold wake_pos_k. cbn [notified]. change (triggers_for_path []) with [Children []; Children []; This []].
  destruct r as [|x r]; [reflexivity|].
  cbn [first_hit].
  assert (H1 : trig_in (Children []) (track_field (x :: r)) = false).
  { apply not_true_is_false. intros H. apply trig_in_In, in_track_field in H.
    destruct H as [[q [H _]]|H]; discriminate. }
  assert (H2 : trig_in (This []) (track_field (x :: r)) = true).
  { apply trig_in_In, in_track_field. left. exists []. split; reflexivity. }
  rewrite H1, H2. reflexivity.
Qed.

Theorem store_reader_queued_first n s e1 e2 r2 :
  consistent n s -> st_queue s = [] -> reads s e1 [[]] -> reads s e2 [r2] -> r2 <> [] ->
  exists q1 q2, st_queue (notify_all s (notified WRoot [])) = q1 ++ q2 /\ In e1 q1 /\ ~ In e2 q1 /\ In e2 q2.
Proof.
  intros Hc Hq R1 R2 Hne.
  apply (earlier_position_queued_first n s WRoot [] e1 e2 [] r2 0 2 Hc Hq R1 R2).
  - apply wake_pos_store.
  - rewrite wake_pos_store. destruct r2; [congruence | reflexivity].
  - lia.
Qed.

(** the known class is inhabited: readers created in the order [store.m.x; store.m]; writing
    the store queues the reader of the descendant store.m.x (0) before the reader of store.m (1) *)
Example ancestor_first_refuted :
  let sh := SStruct [SInt; SStruct [SInt; SInt]] in
  let v := Lst [Num 1%Z; Lst [Num 2%Z; Num 3%Z]] in
  let readers := [mkReader 0 0 [Fld 1; Fld 0]; mkReader 0 0 [Fld 1]] in
  let s := after sh readers [] [] v [] in
  st_queue (fst (do_set sh ([], []) s [] (Lst [Num 4%Z; Lst [Num 5%Z; Num 6%Z]]))) = [0; 1].
Proof. vm_compute. reflexivity. Qed.

(** ---- the general simulation (all subscriber kinds) and the scheduled-effects one ---- *)

(** every reader is an executor-scheduled effect whose first run is scheduled too (Effect::new,
    a Memo read by an Effect, Effect::new_isomorphic): no ImmediateEffect, no RenderEffect *)
Definition plain_readers (readers : list reader) : Prop :=
  Forall (fun rd => rd_kind rd <> 1 /\ rd_kind rd <> 2) readers.

Lemma plain_nth readers e :
  plain_readers readers -> rd_kind (nth e readers no_reader) <> 1 /\ rd_kind (nth e readers no_reader) <> 2.
Proof.
  intros H. revert e. induction H as [|rd l Hrd Hl IH]; intros e.
  - destruct e; cbn; split; discriminate.
  - destruct e as [|e]; cbn [nth]; [exact Hrd | apply IH].
Qed.

Lemma mark_dirty_plain sh readers kc s e :
  plain_readers readers -> mark_dirty sh readers kc s e = wake s e.
Proof.
  intros H. unfold mark_dirty. destruct (plain_nth readers e H) as [H1 _].
  apply Nat.eqb_neq in H1. rewrite H1. reflexivity.
Qed.

Lemma fold_left_ext {A B} (f g : A -> B -> A) l : (forall a b, f a b = g a b) ->
  forall a, fold_left f l a = fold_left g l a.
Proof.
  intros H. induction l as [|b l IH]; intros a; cbn [fold_left]; [reflexivity|]. rewrite H. apply IH.
Qed.

Lemma notify_all_g_ext md md' : (forall s e, md s e = md' s e) ->
  forall s ts, notify_all_g md s ts = notify_all_g md' s ts.
Proof.
  intros H s ts. unfold notify_all_g. apply fold_left_ext. intros a t. unfold notify_trig_g.
  apply fold_left_ext. exact H.
Qed.

Lemma do_step_g_ext md md' sh readers sched kc s h : (forall s e, md s e = md' s e) ->
  do_step_g md sh readers sched kc s h = do_step_g md' sh readers sched kc s h.
Proof.
  intros H. unfold do_step_g, do_set_g, do_patch_g.
  destruct h as [chain v|chain v|chain|chain ks|e| |chain v|chain]; try reflexivity.
  - destruct (walk (root_reached sh s) chain 0) as [r j].
    destruct (negb (Nat.eqb j (length chain))); [reflexivity|].
    destruct (r_val r); [|reflexivity]. rewrite (notify_all_g_ext md md' H). reflexivity.
  - destruct (walk (root_reached sh s) chain 0) as [r j].
    destruct (negb (Nat.eqb j (length chain))); [reflexivity|].
    destruct (r_val r) as [old|]; [|reflexivity].
    destruct (patch_val (r_sh r) old v (r_segs r)) as [v0 ps]. rewrite (notify_all_g_ext md md' H). reflexivity.
  - rewrite H. reflexivity.
Qed.

Lemma do_steps_g_ext mdf mdf' sh readers sched : (forall kc s e, mdf kc s e = mdf' kc s e) ->
  forall hs kcs s, do_steps_g mdf sh readers sched kcs s hs = do_steps_g mdf' sh readers sched kcs s hs.
Proof.
  intros H. induction hs as [|h hs IH]; intros kcs s; cbn [do_steps_g]; [reflexivity|].
  rewrite (do_step_g_ext (mdf (hd ([], []) kcs)) (mdf' (hd ([], []) kcs))) by (apply H).
  destruct (do_step_g (mdf' (hd ([], []) kcs)) sh readers sched (hd ([], []) kcs) s h) as [o s1].
  rewrite IH. reflexivity.
Qed.

Lemma fold_enqueue m : forall a s,
  fold_left enqueue (seq a m) s =
  mkState (st_val s) (st_keys s) (st_subs s) (st_srcs s) (st_queue s ++ seq a m) (st_wakes s)
          (st_runs s) (st_spos s) (st_last s).
Proof.
  induction m as [|m IH]; intros a s; cbn [seq fold_left].
  - rewrite app_nil_r. destruct s; reflexivity.
  - rewrite IH. unfold enqueue. cbn [st_val st_keys st_subs st_srcs st_queue st_wakes st_runs st_spos st_last].
    rewrite <- app_assoc. reflexivity.
Qed.

Lemma init_general_plain sh readers v :
  plain_readers readers -> init_general sh readers v = init_state v (length readers).
Proof.
  intros H. unfold init_general, init_state.
  rewrite (fold_left_ext (create sh readers) enqueue).
  - rewrite fold_enqueue. reflexivity.
  - intros s e. unfold create. destruct (plain_nth readers e H) as [H1 H2].
    apply Nat.eqb_neq in H1. apply Nat.eqb_neq in H2. rewrite H1, H2. reflexivity.
Qed.

(** for such readers the simulation that is run against the implementation IS the one the
    theorems above are about ([after] is its final state) *)
Theorem simulate_plain_eq sh v readers hs sched kcs :
  plain_readers readers -> simulate sh v readers hs sched kcs = simulate_plain sh v readers hs sched kcs.
Proof.
  intros H. unfold simulate, simulate_plain. rewrite (init_general_plain sh readers v H).
  destruct (report (drain (length readers) sh readers sched ([], []) (init_state v (length readers))) []) as [o0 s1].
  unfold do_steps.
  rewrite (do_steps_g_ext (mark_dirty sh readers) (fun _ => wake) sh readers sched)
    by (intros kc s e; apply mark_dirty_plain; exact H).
  reflexivity.
Qed.

Lemma simulate_plain_after sh v readers hs sched kcs :
  last (simulate_plain sh v readers hs sched kcs) (Lst []) = st_val (after sh readers sched kcs v hs).
Proof.
  unfold simulate_plain, after, start.
  destruct (report (drain (length readers) sh readers sched ([], []) (init_state v (length readers))) []) as [o0 s1].
  cbn [snd]. destruct (do_steps sh readers sched kcs s1 hs) as [os s2]. cbn [snd].
  change (o0 :: os ++ [st_val s2]) with ((o0 :: os) ++ [st_val s2]). apply last_last.
Qed.
