(** Executable entry point of the C16 model for the correspondence check.
    case = (0 init readers steps sched kcs hows kinds)
      init    : value of the Root store (see harness/stores: Root/Mid/Sub/Item/Leaf)
      readers : list of accessor chains; chain = list of (kind arg): 0 field, 1 unwrap ((1 1): via
                map_untracked), 2 at_unkeyed, 3 keyed item, 4 hand on type-erased: (4 0) ArcField,
                (4 1) Field, (4 2) ArcStore root, 5 deref_field, (6 10*a+i) field i of enum variant a
      steps   : list of (op chain value): 0 set, 1 patch, 2 report path(),
                3 (chain-to-keyed-field keys): which live keys share a segment; which of
                [keys] kept the segment of the previous report,
                4 (reader): re-run that reader (its private trigger is notified),
                5 untracked set, 6 (chain-to-keyed-field): update_keys();
                a 4th element of a step selects the write entry point in the harness (Set /
                Update / maybe_update / raw writer / the untracked variants): same model
      sched   : executor choices ([] = FIFO)
      hows    : per reader, the read entry point: 1 = iterate over the collection the chain
                addresses (iter_unkeyed / keyed into_iter); 0 try_read, 2 try_get, 3 try_with,
                4 track + untracked read, 5 track_field + reader, 6 / 7 OptionStoreExt::map / invert,
                8 Signal::from(subfield), 9 / 10 iterate in reverse / from both ends (reported in
                collection order: as 1), 11 / 12 / 13 the enum's bool accessor of variant 0 / 1 / 2
      kinds   : per reader, the subscriber: 0 Effect, 1 ImmediateEffect, 2 RenderEffect,
                3 Memo read by an Effect, 4 Effect::new_isomorphic
      kcs     : per step, the two visiting orders of FieldKeys::update (hash order in the
                implementation; the observation must not depend on them) *)
From Coq Require Import List ZArith.
From LV Require Import Base.Sexp Store.Paths Store.Keyed Store.Sim.
Import ListNotations.

(** a field with #[store(skip)] (type `()`, value `()`) keeps its declaration index: both
    derive(Store) and derive(Patch) number the fields of a struct by declaration index.
    Leaf(i64, #[store(skip)] (), i64); Sub { #[store(skip)] z: (), x, l, v, b, t, e } *)
Definition ShUnit := SStruct [].
Definition ShLeaf := SStruct [SInt; ShUnit; SInt].
Definition ShTag := SStruct [SInt; SInt].
Definition ShItem := SStruct [SInt; SInt; ShLeaf; SKeyed ShTag].
Definition ShChoice := SEnum [[]; [SInt; ShLeaf]; [SInt; SInt]].
Definition ShSub := SStruct [ShUnit; SInt; ShLeaf; SVec SInt; SBox ShLeaf; SStruct [SInt; SInt]; ShChoice].
Definition ShMid := SStruct [SInt; ShLeaf; SOpt ShLeaf; SKeyed ShItem].
Definition ShRoot := SStruct [SInt; ShMid; SOpt ShSub; SVec ShSub; SKeyed ShItem; ShChoice].

Definition as_step (s : sexp) : step :=
  match as_Z (nth_s 0 s) with
  | 0%Z => Fld (as_nat (nth_s 1 s))
  | 1%Z => Unw
  | 2%Z => Idx (as_nat (nth_s 1 s))
  | 3%Z => Key (as_Z (nth_s 1 s))
  | 4%Z => Era (as_nat (nth_s 1 s))
  | 6%Z => Var (as_nat (nth_s 1 s) / 10) (as_nat (nth_s 1 s) mod 10)
  | _ => Drf
  end.
Definition as_chain (s : sexp) : list step := map as_step (as_list s).

Definition as_hstep (s : sexp) : hstep :=
  match as_Z (nth_s 0 s) with
  | 0%Z => HSet (as_chain (nth_s 1 s)) (nth_s 2 s)
  | 1%Z => HPatch (as_chain (nth_s 1 s)) (nth_s 2 s)
  | 2%Z => HPath (as_chain (nth_s 1 s))
  | 3%Z => HSegs (as_chain (nth_s 1 s)) (as_Zs (nth_s 2 s))
  | 4%Z => match nth_s 1 s with
           | Num z => if Z.ltb z 0 then HNop else HPoke (Z.to_nat z)
           | Lst _ => HPoke 0
           end
  | 5%Z => HSetU (as_chain (nth_s 1 s)) (nth_s 2 s)
  | 6%Z => HUpdKeys (as_chain (nth_s 1 s))
  | _ => HNop
  end.

Definition abs_nat (s : sexp) : nat := Z.abs_nat (as_Z s).

(** read entry points 9 (`.rev()`) and 10 (alternately from both ends) iterate like 1; the
    harness reports the items in collection order *)
Definition iter_how (h : nat) : nat := if orb (Nat.eqb h 9) (Nat.eqb h 10) then 1 else h.

Definition run_C16 (c : sexp) : sexp :=
  match as_Z (nth_s 0 c) with
  | 0%Z =>
      let hows := as_list (nth_s 6 c) in
      let kinds := as_list (nth_s 7 c) in
      let chains := map as_chain (as_list (nth_s 2 c)) in
      Lst (simulate ShRoot (nth_s 1 c)
             (map (fun ic => mkReader (as_nat (nth (fst ic) kinds (Num 0%Z)))
                                      (iter_how (as_nat (nth (fst ic) hows (Num 0%Z)))) (snd ic))
                  (combine (seq 0 (length chains)) chains))
             (map as_hstep (as_list (nth_s 3 c)))
             (map abs_nat (as_list (nth_s 4 c)))
             (map (fun p => (map abs_nat (as_list (nth_s 0 p)), map abs_nat (as_list (nth_s 1 p))))
                  (as_list (nth_s 5 c))))
  | _ => Lst []
  end.
