(** C16 — executable simulation of a store with one effect per reader on a queue executor:
    the store value (a tree, shape-directed), the KeyMap, the TriggerMap with the ordered
    subscriber set of every trigger (reactive_graph SubscriberSet = Vec, notified front to
    back, emptied by a notification), the source set of every effect, the executor's run queue.

    Transcribes, on top of Paths.v / Keyed.v:
      reactive_stores   field accessors (Subfield, OptionStoreExt::unwrap, AtIndex, KeyedSubfield,
                        AtKeyed, ArcField / Field): path(), reader(), writer(), Write,
                        Patch/PatchField, iter_unkeyed, the keyed iterator
      reactive_graph    ArcTrigger::{track, notify} (subscriber_traits.rs mark_subscribers_check),
                        Effect::new (clear_sources, re-run, re-subscribe), channel wake-ups
      harness/stores    the executor (wake = enqueue unless queued, drain by schedule) and the
                        reader body (read — or iterate over — the addressed field; nothing if
                        the chain is cut short)
    No proofs in this file. *)
From Coq Require Import List Arith Bool ZArith.
From LV Require Import Base.Sexp Store.Paths Store.Keyed.
Import ListNotations.

(** shapes of store values; a value is a [sexp]: integer = Num, struct = list of fields,
    None = (), Some x = (x), Vec = list of items; items of a keyed Vec are structs whose
    field 0 is the key *)
Inductive shape :=
| SInt
| SStruct (fs : list shape)
| SOpt (s : shape)
| SVec (s : shape)
| SKeyed (s : shape)
| SBox (s : shape)       (* Box<T>: same encoding as T; patched as a whole (harness impl) *)
| SEnum (vs : list (list shape)).
                         (* enum with #[derive(Store)]: one list of field shapes per variant; value =
                            (tag field..); patched as a whole (derive(Patch) does not support enums) *)

(** one accessor of a chain: .field_i(), .unwrap(), .at_unkeyed(i), AtKeyed::new(.., k), and
    [Era 0]: hand the field on as a type-erased ArcField (`ArcField::from(field)`: same path,
    same reader, the field's writer, tracking delegated to the wrapped field's track_field);
    [Era 1]: as an arena-allocated Field (`Field::from(ArcField::from(field))`, which delegates
    everything to that ArcField); [Era 2] (first step only): start from the ArcStore handle of
    the store instead of the arena-allocated Store; [Drf]: `.deref_field()` of a Box field
    (DerefedField: same path, the boxed value); [Var a i]: field i of variant a of an enum,
    through the generated accessor `fn <variant>_<field>(self) -> Option<Subfield>` (called
    untracked by the harness): `Subfield::new(self, i.into(), ..)` when the value is of
    that variant (segment = index of the field in its variant, since the repair of F-C16-j) *)
Inductive step := Fld (i : nat) | Unw | Idx (i : nat) | Key (k : Z) | Era (kind : nat) | Drf
                | Var (a i : nat).

Definition enum_tag (v : sexp) : nat := Z.to_nat (as_Z (nth_s 0 v)).

Definition item_key (it : sexp) : Z := as_Z (nth_s 0 it).
Definition keys_of (v : sexp) : list Z := map item_key (as_list v).

(** what following a chain has reached *)
Record reached := mkReached {
  r_era : option nat;       (* the accessor is a handle: Some 0 ArcField, Some 1 Field, Some 2 ArcStore *)
  r_sh : shape;
  r_val : option sexp;      (* what reader() gives: None = no guard (key unknown to FieldKeys;
                               a stale index beyond the end, where the code panics, also ends here) *)
  r_segs : path;            (* path() *)
  r_lens : list nat;        (* positions in the value tree (a keyed step uses FieldKeys' index) *)
  r_keys : keymap;
}.

(** untracked look at the current value: is the child addressed by [st] there? *)
Definition has_child (r : reached) (v : sexp) (st : step) : bool :=
  match r_sh r, st with
  | _, Era 2 => match r_segs r, r_era r with [], None => true | _, _ => false end
  | SKeyed _, Era _ => false     (* there is no From<KeyedSubfield> for ArcField *)
  | _, Era _ => match r_era r with Some 1 => false | _ => true end
                                 (* ... and none from Field (the harness does not unwrap it) *)
  | SStruct fs, Fld i => Nat.ltb i (length fs)
  | SOpt _, Unw => match as_list v with [_] => true | _ => false end
  | SVec _, Idx i => Nat.ltb i (length (as_list v))
  | SKeyed _, Idx i => Nat.ltb i (length (as_list v))
  | SKeyed _, Key k => existsb (Z.eqb k) (keys_of v)
  | SBox _, Drf => true
  | SEnum vs, Var a i => Nat.eqb (enum_tag v) a && Nat.ltb i (length (nth a vs []))
  | _, _ => false
  end.

(** the accessor for one more step *)
Definition extend (r : reached) (v : sexp) (st : step) : reached :=
  match r_sh r, st with
  | _, Era a => mkReached (Some a) (r_sh r) (r_val r) (r_segs r) (r_lens r) (r_keys r)
  | SBox s, Drf => mkReached None s (r_val r) (r_segs r) (r_lens r) (r_keys r)
  | SStruct fs, Fld i =>
      mkReached None (nth i fs SInt) (nth_error (as_list v) i) (r_segs r ++ [i]) (r_lens r ++ [i]) (r_keys r)
  | SOpt s, Unw =>
      mkReached None s (nth_error (as_list v) 0) (r_segs r ++ [0]) (r_lens r ++ [0]) (r_keys r)
  | SVec s, Idx i | SKeyed s, Idx i =>
      mkReached None s (nth_error (as_list v) i) (r_segs r ++ [i]) (r_lens r ++ [i]) (r_keys r)
  | SKeyed s, Key k =>
      let '(f, km) := km_entry (r_segs r) (keys_of v) (r_keys r) in
      match fk_get k f with
      | Some (seg, idx) =>
          mkReached None s (nth_error (as_list v) idx) (r_segs r ++ [seg]) (r_lens r ++ [idx]) km
      | None => mkReached None s None (r_segs r) (r_lens r) km
      end
  | SEnum vs, Var a i =>
      mkReached None (nth i (nth a vs []) SInt) (nth_error (as_list v) (S i)) (r_segs r ++ [i])
                (r_lens r ++ [S i]) (r_keys r)
  | _, _ => mkReached None SInt None (r_segs r) (r_lens r) (r_keys r)
  end.

(** follow the chain as far as the current value allows; returns the number of steps taken *)
Fixpoint walk (r : reached) (chain : list step) (j : nat) : reached * nat :=
  match chain with
  | [] => (r, j)
  | st :: chain =>
      match r_val r with
      | Some v => if has_child r v st then walk (extend r v st) chain (S j) else (r, j)
      | None => (r, j)
      end
  end.

Fixpoint get_at (v : sexp) (lens : list nat) : option sexp :=
  match lens with
  | [] => Some v
  | i :: lens => match nth_error (as_list v) i with Some x => get_at x lens | None => None end
  end.

Fixpoint replace_nth {A} (i : nat) (x : A) (l : list A) : list A :=
  match l, i with
  | [], _ => []
  | _ :: l, 0 => x :: l
  | y :: l, S i => y :: replace_nth i x l
  end.

Fixpoint set_at (v : sexp) (lens : list nat) (new : sexp) : sexp :=
  match lens with
  | [] => new
  | i :: lens =>
      match nth_error (as_list v) i with
      | Some x => Lst (replace_nth i (set_at x lens new) (as_list v))
      | None => v
      end
  end.

(** PatchField::patch_field: the new value and the paths handed to `notify`, in order *)
Fixpoint patch_val (sh : shape) (old new : sexp) (p : path) {struct sh} : sexp * list path :=
  match sh with
  | SInt | SBox _ | SEnum _ => if sexp_eqb old new then (old, []) else (new, [p])
  | SStruct fs =>
      let fix go (fs : list shape) (os ns : list sexp) (i : nat) {struct fs} : list sexp * list path :=
        match fs, os, ns with
        | f :: fs, o :: os, n :: ns =>
            let '(v, l) := patch_val f o n (p ++ [i]) in
            let '(vs, ls) := go fs os ns (S i) in (v :: vs, l ++ ls)
        | _, _, _ => ([], [])
        end in
      let '(vs, ls) := go fs (as_list old) (as_list new) 0 in (Lst vs, ls)
  | SOpt s =>
      match as_list old, as_list new with
      | [], [] => (old, [])
      | _ :: _, [] => (Lst [], [p])
      | [], _ :: _ => (new, [p])
      | o :: _, n :: _ => let '(v, l) := patch_val s o n (p ++ [0]) in (Lst [v], l)
      end
  | SVec s | SKeyed s =>
      let os := as_list old in
      let ns := as_list new in
      match os, ns with
      | [], [] => (old, [])
      | _, [] => (Lst [], [p])
      | [], _ => (new, [p])
      | _, _ =>
          let fix go (os ns : list sexp) (i : nat) {struct os} : list sexp * list path :=
            match os, ns with
            | o :: os, n :: ns =>
                let '(v, l) := patch_val s o n (p ++ [i]) in
                let '(vs, ls) := go os ns (S i) in (v :: vs, l ++ ls)
            | [], ns => (ns, [])
            | _ :: _, [] => ([], [])
            end in
          let '(vs, ls) := go os ns 0 in
          (Lst vs, ls ++ (if Nat.eqb (length os) (length ns) then [] else [p]))
      end
  end.

(** ---- triggers, effects, executor ---- *)
Record state := mkState {
  st_val : sexp;
  st_keys : keymap;
  st_subs : list (trig * list nat);   (* TriggerMap entry -> SubscriberSet, in subscription order *)
  st_srcs : list (nat * list trig);   (* effect -> its sources *)
  st_queue : list nat;                (* executor: queued tasks, front first *)
  st_wakes : list nat;                (* wake-ups since the last report *)
  st_runs : list sexp;                (* effect runs since the last report *)
  st_spos : nat;                      (* position in the schedule *)
  st_last : list (list nat * list (Z * option nat));
                                      (* harness bookkeeping of the segment reports (op 3) *)
}.

Fixpoint subs_of (t : trig) (m : list (trig * list nat)) : list nat :=
  match m with
  | [] => []
  | (t', l) :: m => if trig_eqb t t' then l else subs_of t m
  end.

Fixpoint subs_set (t : trig) (l : list nat) (m : list (trig * list nat)) : list (trig * list nat) :=
  match m with
  | [] => [(t, l)]
  | (t', l') :: m => if trig_eqb t t' then (t', l) :: m else (t', l') :: subs_set t l m
  end.

Definition mem_nat (e : nat) (l : list nat) : bool := existsb (Nat.eqb e) l.

Fixpoint srcs_of (e : nat) (m : list (nat * list trig)) : list trig :=
  match m with
  | [] => []
  | (e', l) :: m => if Nat.eqb e e' then l else srcs_of e m
  end.

Fixpoint srcs_set (e : nat) (l : list trig) (m : list (nat * list trig)) : list (nat * list trig) :=
  match m with
  | [] => [(e, l)]
  | (e', l') :: m => if Nat.eqb e e' then (e', l) :: m else (e', l') :: srcs_set e l m
  end.

(** executor wake: enqueue unless already queued *)
Definition wake (s : state) (e : nat) : state :=
  if mem_nat e (st_queue s) then s
  else mkState (st_val s) (st_keys s) (st_subs s) (st_srcs s) (st_queue s ++ [e])
               (st_wakes s ++ [e]) (st_runs s) (st_spos s) (st_last s).

(** ArcTrigger::notify -> mark_subscribers_check: take the subscribers, mark each dirty.
    What mark_dirty does depends on the kind of subscriber ([md]): an effect task is woken
    ([wake]); an ImmediateEffect runs at once ([mark_dirty] below). *)
Definition notify_trig_g (md : state -> nat -> state) (s : state) (t : trig) : state :=
  let l := subs_of t (st_subs s) in
  let s' := mkState (st_val s) (st_keys s) (subs_set t [] (st_subs s)) (st_srcs s) (st_queue s)
                    (st_wakes s) (st_runs s) (st_spos s) (st_last s) in
  fold_left md l s'.

Definition notify_all_g (md : state -> nat -> state) (s : state) (ts : list trig) : state :=
  fold_left (notify_trig_g md) ts s.

(** ... when every subscriber is an executor-scheduled effect *)
Definition notify_trig (s : state) (t : trig) : state := notify_trig_g wake s t.
Definition notify_all (s : state) (ts : list trig) : state := fold_left notify_trig ts s.

(** ArcTrigger::track under observer [e] *)
Definition subscribe (e : nat) (subs : list (trig * list nat)) (t : trig) : list (trig * list nat) :=
  let l := subs_of t subs in
  if mem_nat e l then subs else subs_set t (l ++ [e]) subs.

Definition remove_nat (e : nat) (l : list nat) : list nat := filter (fun x => negb (Nat.eqb e x)) l.

(** Subscriber::clear_sources: leave the subscriber set of every source (order of the others kept) *)
Definition unsubscribe (e : nat) (subs : list (trig * list nat)) (t : trig) : list (trig * list nat) :=
  subs_set t (remove_nat e (subs_of t subs)) subs.

Definition enc_read (v : option sexp) : sexp :=
  match v with Some x => x | None => Lst [Num (-1)%Z] end.

Definition root_reached (sh : shape) (s : state) : reached :=
  mkReached None sh (Some (st_val s)) [] [] (st_keys s).

(** a reader: the kind of subscriber (0 Effect::new, 1 ImmediateEffect, 2 RenderEffect,
    3 Memo read by an Effect, 4 Effect::new_isomorphic), the read entry point (1 = iterate over
    the collection; 0 try_read, 2 try_get, 3 try_with, 4 track + untracked read,
    5 track_field + reader, 6 / 7 OptionStoreExt::map / invert with a closure that reads the
    inner value untracked: all of these track track_field of the addressed field and
    read its value), and the accessor chain *)
Record reader := mkReader { rd_kind : nat; rd_how : nat; rd_chain : list step }.
Definition no_reader : reader := mkReader 0 0 [].

(** what an iterating reader does on a collection field it has reached:
    Vec: `for item in field.iter_unkeyed() { item.try_read() }` — iter_unkeyed tracks the
         field and takes its length, every AtIndex item is tracked and read;
    keyed Vec: `for item in field { item.try_read() }` — into_iter calls update_keys() and
         tracks the field, every AtKeyed item is tracked (segment of its key) and read
         (index of its key).
    Returns the triggers tracked, the values read and the KeyMap. *)
Definition iterate (kc : list nat * list nat) (r : reached) (v : sexp) : list trig * sexp * keymap :=
  match r_sh r with
  | SVec _ =>
      let items := as_list v in
      (track_field (r_segs r)
         ++ concat (map (fun i => track_field (r_segs r ++ [i])) (seq 0 (length items))),
       Lst items, r_keys r)
  | SKeyed _ =>
      let km := km_update (fst kc) (snd kc) (r_segs r) (keys_of v) (r_keys r) in
      let f := match km_find (r_segs r) km with Some f => f | None => fk_new [] end in
      let per := map (fun k => match fk_get k f with
                               | Some (seg, idx) => (track_field (r_segs r ++ [seg]),
                                                     enc_read (nth_error (as_list v) idx))
                               | None => (track_field (r_segs r), enc_read None)
                               end) (keys_of v) in
      (track_field (r_segs r) ++ concat (map fst per), Lst (map snd per), km)
  | _ => (track_field (r_segs r), v, r_keys r)
  end.

(** one run of reader effect [e]: it reads (tracked) the field its chain addresses; if the
    chain is cut short it reads nothing from the store.
    (Every run also tracks the reader's private `poke` trigger of the harness, which has no
    other subscriber: notifying it is [wake], see [HPoke].) *)
Definition run_effect (sh : shape) (kc : list nat * list nat) (s : state) (e : nat) (rd : reader) : state :=
  let chain := rd_chain rd in
  let subs1 := fold_left (unsubscribe e) (srcs_of e (st_srcs s)) (st_subs s) in
  let '(r, j) := walk (root_reached sh s) chain 0 in
  let full := Nat.eqb j (length chain) in
  let '(tr, val, km) :=
    if full then
      match Nat.eqb (rd_how rd) 1, r_val r with
      | true, Some v => let '(tr, val, km) := iterate kc r v in (tr, [val], km)
      | _, _ => (track_field (r_segs r), [enc_read (r_val r)], r_keys r)
      end
    else ([], [], r_keys r) in
  let subs2 := fold_left (subscribe e) tr subs1 in
  let obs := Lst [snat e; Lst (snat j :: val)] in
  mkState (st_val s) km subs2 (srcs_set e tr (st_srcs s)) (st_queue s) (st_wakes s)
          (st_runs s ++ [obs]) (st_spos s) (st_last s).

(** drain the run queue; [sched] = [] is FIFO, otherwise the next choice picks the task *)
Fixpoint drain (fuel : nat) (sh : shape) (readers : list reader) (sched : list nat)
         (kc : list nat * list nat) (s : state) : state :=
  match fuel with
  | 0 => s
  | S fuel =>
      match st_queue s with
      | [] => s
      | _ :: _ =>
          let '(k, spos) :=
            match sched with
            | [] => (0, st_spos s)
            | _ :: _ => (nth (st_spos s mod length sched) sched 0 mod length (st_queue s), S (st_spos s))
            end in
          match take_nth k (st_queue s) with
          | Some (e, q) =>
              let s1 := mkState (st_val s) (st_keys s) (st_subs s) (st_srcs s) q (st_wakes s)
                                (st_runs s) spos (st_last s) in
              (* a task number >= the number of readers stands for the freshly spawned task of a
                 RenderEffect: its first poll finds no notification and does nothing *)
              if Nat.ltb e (length readers)
              then drain fuel sh readers sched kc (run_effect sh kc s1 e (nth e readers no_reader))
              else drain fuel sh readers sched kc s1
          | None => s
          end
      end
  end.

Definition with_val_keys (s : state) (v : sexp) (km : keymap) : state :=
  mkState v km (st_subs s) (st_srcs s) (st_queue s) (st_wakes s) (st_runs s) (st_spos s) (st_last s).

(** which write guard a field hands out: the store itself its own (WRoot) — but a
    type-erased handle of the store one like a Subfield's (ArcField::from(store), repaired in
    306fca7/f31c725) — a keyed collection field WKeyed, everything else WField *)
Definition kind_of (r : reached) : wkind :=
  match r_segs r, r_era r, r_sh r with
  | [], None, _ | [], Some 2, _ => WRoot
  | _, _, SKeyed _ => WKeyed
  | _, _, _ => WField
  end.

(** what mark_dirty does to subscriber [e]: an ImmediateEffect re-runs synchronously, every
    other kind of reader is an effect task that is woken *)
Definition mark_dirty (sh : shape) (readers : list reader) (kc : list nat * list nat)
           (s : state) (e : nat) : state :=
  let rd := nth e readers no_reader in
  if Nat.eqb (rd_kind rd) 1 then run_effect sh kc s e rd else wake s e.

(** `*field.write() = new` (op 0) and `field.patch(new)` (op 1); [kc] = the visiting orders
    of FieldKeys::update.  Returns the state after the guard is dropped and whether a
    guard was obtained.  The value is in place, the lock released and (for a keyed field,
    since 4d4a6ab) the keys refreshed before anything is notified; Patch notifies the
    changed paths after releasing the lock (since 71fff6e). *)
Definition do_set_g (md : state -> nat -> state) (sh : shape) (kc : list nat * list nat) (s : state)
           (chain : list step) (new : sexp) : state * bool :=
  let '(r, j) := walk (root_reached sh s) chain 0 in
  if negb (Nat.eqb j (length chain)) then (s, false) else
  match r_val r with
  | None => (with_val_keys s (st_val s) (r_keys r), false)
  | Some _ =>
      let v' := set_at (st_val s) (r_lens r) new in
      let k := kind_of r in
      let km :=
        match k with
        | WKeyed => km_update (fst kc) (snd kc) (r_segs r) (keys_of new) (r_keys r)
        | _ => r_keys r
        end in
      (notify_all_g md (with_val_keys s v' km) (notified k (r_segs r)), true)
  end.

Definition do_patch_g (md : state -> nat -> state) (sh : shape) (s : state) (chain : list step)
           (new : sexp) : state * bool :=
  let '(r, j) := walk (root_reached sh s) chain 0 in
  if negb (Nat.eqb j (length chain)) then (s, false) else
  match r_val r with
  | Some old =>
      let '(v, ps) := patch_val (r_sh r) old new (r_segs r) in
      let v' := set_at (st_val s) (r_lens r) v in
      (notify_all_g md (with_val_keys s v' (r_keys r)) (concat (map triggers_for_path ps)), true)
  | None => (with_val_keys s (st_val s) (r_keys r), true)
  end.

Definition do_set := do_set_g wake.
Definition do_patch := do_patch_g wake.

(** an untracked write (`try_write_untracked`, `try_update_untracked`, `try_maybe_update` whose
    closure reports "unchanged"): the value is replaced, a keyed collection field refreshes
    its keys when the guard is dropped, nobody is notified *)
Definition do_set_u (sh : shape) (kc : list nat * list nat) (s : state)
           (chain : list step) (new : sexp) : state * bool :=
  let '(r, j) := walk (root_reached sh s) chain 0 in
  if negb (Nat.eqb j (length chain)) then (s, false) else
  match r_val r with
  | None => (with_val_keys s (st_val s) (r_keys r), false)
  | Some _ =>
      let v' := set_at (st_val s) (r_lens r) new in
      let km :=
        match kind_of r with
        | WKeyed => km_update (fst kc) (snd kc) (r_segs r) (keys_of new) (r_keys r)
        | _ => r_keys r
        end in
      (with_val_keys s v' km, true)
  end.

(** `keyed_field.update_keys()` called by the user *)
Definition do_update_keys (sh : shape) (kc : list nat * list nat) (s : state) (chain : list step)
  : state * bool :=
  let '(r, j) := walk (root_reached sh s) chain 0 in
  if negb (Nat.eqb j (length chain)) then (s, false) else
  match r_sh r, r_val r with
  | SKeyed _, Some v =>
      (with_val_keys s (st_val s) (km_update (fst kc) (snd kc) (r_segs r) (keys_of v) (r_keys r)), true)
  | _, _ => (with_val_keys s (st_val s) (r_keys r), false)
  end.

(** report and reset the logs *)
Definition report (s : state) (extra : list sexp) : sexp * state :=
  (Lst ([snats (st_wakes s); Lst (st_runs s)] ++ extra),
   mkState (st_val s) (st_keys s) (st_subs s) (st_srcs s) (st_queue s) [] [] (st_spos s) (st_last s)).

Definition init_state (v : sexp) (n_readers : nat) : state :=
  mkState v [] [] [] (seq 0 n_readers) [] [] 0 [].

(** creation of the readers, in order: an ImmediateEffect and a RenderEffect run once at
    creation, every other kind spawns a task (queued, first polled by the first drain) *)
Definition enqueue (s : state) (e : nat) : state :=
  mkState (st_val s) (st_keys s) (st_subs s) (st_srcs s) (st_queue s ++ [e]) (st_wakes s)
          (st_runs s) (st_spos s) (st_last s).

Definition create (sh : shape) (readers : list reader) (s : state) (e : nat) : state :=
  let rd := nth e readers no_reader in
  if Nat.eqb (rd_kind rd) 1 then run_effect sh ([], []) s e rd
  else if Nat.eqb (rd_kind rd) 2
       then enqueue (run_effect sh ([], []) s e rd) (length readers + e)   (* see [drain] *)
       else enqueue s e.

Definition init_general (sh : shape) (readers : list reader) (v : sexp) : state :=
  fold_left (create sh readers) (seq 0 (length readers)) (mkState v [] [] [] [] [] [] 0 []).

(** bookkeeping for the segment reports *)
Definition oeqb (a b : option nat) : bool :=
  match a, b with
  | Some x, Some y => Nat.eqb x y
  | None, None => true
  | _, _ => false
  end.
Fixpoint first_same (x : option nat) (l : list (Z * option nat)) (i : nat) : nat :=
  match l with
  | [] => i
  | (_, y) :: l => if oeqb x y then i else first_same x l (S i)
  end.
Fixpoint zassoc {B} (k : Z) (l : list (Z * B)) : option B :=
  match l with
  | [] => None
  | (k', b) :: l => if Z.eqb k k' then Some b else zassoc k l
  end.
(** a chain as a list of numbers (only used as a map key) *)
Definition chain_id (c : list step) : list nat :=
  concat (map (fun st => match st with
                         | Fld i => [0; i] | Unw => [1; 0] | Idx i => [2; i]
                         | Key k => [3; Z.to_nat k] | Era a => [4; a] | Drf => [5; 0]
                         | Var a i => [6; 10 * a + i] end) c).
Fixpoint last_of (c : list nat) (m : list (list nat * list (Z * option nat))) : list (Z * option nat) :=
  match m with
  | [] => []
  | (c', l) :: m => if list_eq_dec Nat.eq_dec c c' then l else last_of c m
  end.
Definition last_set (c : list nat) (l : list (Z * option nat)) (m : list (list nat * list (Z * option nat)))
  : list (list nat * list (Z * option nat)) := (c, l) :: m.

(** one step of a history: (op chain value) *)
Inductive hstep := HSet (chain : list step) (v : sexp) | HPatch (chain : list step) (v : sexp)
                 | HPath (chain : list step) | HSegs (chain : list step) (ks : list Z)
                 | HPoke (e : nat) | HNop
                 | HSetU (chain : list step) (v : sexp)     (* untracked write *)
                 | HUpdKeys (chain : list step).            (* KeyedSubfield::update_keys() *)

Definition do_step_g (md : state -> nat -> state) (sh : shape) (readers : list reader)
           (sched : list nat) (kc : list nat * list nat) (s : state) (h : hstep) : sexp * state :=
  let n := length readers in
  match h with
  | HSet chain v =>
      let '(s1, ok) := do_set_g md sh kc s chain v in
      report (drain n sh readers sched kc s1) [sbool ok]
  | HPatch chain v =>
      let '(s1, ok) := do_patch_g md sh s chain v in
      report (drain n sh readers sched kc s1) [sbool ok]
  | HPath chain =>
      let '(r, j) := walk (root_reached sh s) chain 0 in
      if Nat.eqb j (length chain)
      then report (with_val_keys s (st_val s) (r_keys r)) [snats (r_segs r)]
      else report s [sbool false]
  | HSegs chain ks =>
      let '(r, j) := walk (root_reached sh s) chain 0 in
      match Nat.eqb j (length chain), r_sh r, r_val r with
      | true, SKeyed _, Some v =>
          (* the harness asks AtKeyed::path() of every live key: no key, no access to the KeyMap *)
          let '(f, km) := match keys_of v with
                          | [] => (fk_new [], r_keys r)
                          | _ :: _ => km_entry (r_segs r) (keys_of v) (r_keys r)
                          end in
          let now := map (fun k => (k, option_map fst (fk_get k f))) (keys_of v) in
          let pattern := map (fun e => first_same (snd e) now 0) now in
          let prev := last_of (chain_id chain) (st_last s) in
          let same := map (fun k => match zassoc k now, zassoc k prev with
                                    | Some a, Some b => if oeqb a b then 1%Z else 0%Z
                                    | _, _ => 2%Z
                                    end) ks in
          let s1 := mkState (st_val s) km (st_subs s) (st_srcs s) (st_queue s) (st_wakes s)
                            (st_runs s) (st_spos s) (last_set (chain_id chain) now (st_last s)) in
          report s1 [Lst [snats pattern; sZs same]]
      | _, _, _ => report s [sbool false]
      end
  | HPoke e =>
      if Nat.ltb e n then report (drain n sh readers sched kc (md s e)) [sbool true]
      else report s [sbool false]
  | HNop => report s [sbool false]
  | HSetU chain v =>
      let '(s1, ok) := do_set_u sh kc s chain v in
      report (drain n sh readers sched kc s1) [sbool ok]
  | HUpdKeys chain =>
      let '(s1, ok) := do_update_keys sh kc s chain in
      report (drain n sh readers sched kc s1) [sbool ok]
  end.

Fixpoint do_steps_g (mdf : list nat * list nat -> state -> nat -> state) (sh : shape)
         (readers : list reader) (sched : list nat)
         (kcs : list (list nat * list nat)) (s : state) (hs : list hstep) : list sexp * state :=
  match hs with
  | [] => ([], s)
  | h :: hs =>
      let kc := hd ([], []) kcs in
      let '(o, s1) := do_step_g (mdf kc) sh readers sched kc s h in
      let '(os, s2) := do_steps_g mdf sh readers sched (tl kcs) s1 hs in
      (o :: os, s2)
  end.

(** a whole case: creation (and initial runs) of all readers, then the history *)
Definition simulate (sh : shape) (v : sexp) (readers : list reader) (hs : list hstep)
           (sched : list nat) (kcs : list (list nat * list nat)) : list sexp :=
  let n := length readers in
  let s0 := drain n sh readers sched ([], []) (init_general sh readers v) in
  let '(o0, s1) := report s0 [] in
  let '(os, s2) := do_steps_g (mark_dirty sh readers) sh readers sched kcs s1 hs in
  o0 :: os ++ [st_val s2].

(** the same when every reader is an executor-scheduled effect (kinds 0, 3, 4): mark_dirty is
    [wake], all tasks are queued at creation *)
Definition do_step := do_step_g wake.
Definition do_steps := do_steps_g (fun _ => wake).

Definition simulate_plain (sh : shape) (v : sexp) (readers : list reader) (hs : list hstep)
           (sched : list nat) (kcs : list (list nat * list nat)) : list sexp :=
  let n := length readers in
  let s0 := drain n sh readers sched ([], []) (init_state v n) in
  let '(o0, s1) := report s0 [] in
  let '(os, s2) := do_steps sh readers sched kcs s1 hs in
  o0 :: os ++ [st_val s2].
