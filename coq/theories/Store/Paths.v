(** C16 — reactive_stores: which triggers a write through a store field notifies, which
    triggers a read of a store field tracks.  Executable transcription of

      reactive_stores/src/store_field.rs   StoreField::triggers_for_path, ::track_field,
                                           ArcStore::writer
      reactive_stores/src/lib.rs           TriggerMap (StorePath -> {this, children}),
                                           Write for Store (root write), Notify for ArcStore
      reactive_stores/src/subfield.rs      Subfield::writer
      reactive_stores/src/iter.rs          AtIndex::writer
      reactive_stores/src/keyed.rs         KeyedSubfield::writer, KeyedSubfieldWriteGuard::drop,
                                           AtKeyed::writer
      reactive_stores/src/patch.rs         Patch::patch (one triggers_for_path per changed leaf)

    No proofs in this file. *)
From Coq Require Import List Arith Bool.
Import ListNotations.

(** StorePath: a vector of segments; struct field = its index, Option::unwrap = 0,
    at_unkeyed(i) = i, keyed item = the segment FieldKeys assigned to its key (Keyed.v) *)
Definition path := list nat.

(** the TriggerMap holds two ArcTriggers per path: StoreFieldTrigger { this, children } *)
Inductive trig := This (p : path) | Children (p : path).

Definition path_eqb (a b : path) : bool :=
  if list_eq_dec Nat.eq_dec a b then true else false.

Definition trig_eqb (a b : trig) : bool :=
  match a, b with
  | This p, This q => path_eqb p q
  | Children p, Children q => path_eqb p q
  | _, _ => false
  end.

Definition trig_in (t : trig) (l : list trig) : bool := existsb (trig_eqb t) l.

(** all prefixes of [p], the empty path (the root) first, [p] itself last *)
Fixpoint prefixes (p : path) : list path :=
  [] :: match p with [] => [] | x :: t => map (cons x) (prefixes t) end.

(** root first, parent last; empty for the root *)
Definition proper_prefixes (p : path) : list path := removelast (prefixes p).

Fixpoint is_prefix (a b : path) : bool :=
  match a, b with
  | [], _ => true
  | x :: a, y :: b => Nat.eqb x y && is_prefix a b
  | _ :: _, [] => false
  end.

Definition related (p r : path) : bool := is_prefix p r || is_prefix r p.

(** [triggers_for_path]: the code pushes  this(p), children(p), then children of the parent,
    of the grand-parent, ... of the root (popping one segment per iteration), and finally
    reverses the vector: "notifying from the root down".  [Notify for Vec<ArcTrigger>] then
    notifies front to back.  [parents_up]: the paths the loop visits. *)
Definition parents_up (p : path) : list path :=
  match p with
  | [] => [[]]          (* `pop` on the empty path is a no-op: the root is visited (again) *)
  | _ :: _ => rev (proper_prefixes p)
  end.

Definition triggers_for_path (p : path) : list trig :=
  rev ([This p; Children p] ++ map Children (parents_up p)).

(** [track_field] (the trait default after the repair 4f634fd, formerly Subfield's own):
    `this` of the full path, of the parent, ... of the root, then `this` and `children` of
    the field itself *)
Definition track_field (r : path) : list trig :=
  map This (rev (prefixes r)) ++ [This r; Children r].

(** the kinds of write guard a store hands out *)
Inductive wkind :=
| WRoot    (* Store::write / ArcStore::write on the store itself *)
| WField   (* Subfield, AtIndex, AtKeyed, ArcField::from(store):
              WriteGuard(triggers_for_current_path, untracked parent) *)
| WKeyed.  (* KeyedSubfield::write: update_keys() first, then the same triggers (since 4d4a6ab;
              before: the triggers, update_keys(), then this and children of the field again) *)

(** The triggers notified when the guard is dropped, in order.
    Root: like every other field, WriteGuard(triggers_for_current_path, untracked raw writer),
    i.e. children, children, this of the root path.  (Before the repair of F-C16-m the raw
    writer stayed tracked -- children -- and the guard notified this and children through Notify
    for ArcStore: [notified_root_prefix]; `untrack()` of that guard left the raw writer's
    notification in place.) *)
Definition notified_root_prefix : list trig := [Children []; This []; Children []].

Definition notified (k : wkind) (p : path) : list trig :=
  match k with
  | WRoot => triggers_for_path []
  | WField => triggers_for_path p
  | WKeyed => triggers_for_path p
  end.

(** does a write wake a reader of field [r] (an effect whose last run tracked [r])? *)
Definition wakes_k (k : wkind) (p r : path) : bool :=
  existsb (fun t => trig_in t (track_field r)) (notified k p).

Definition wakes (p r : path) : bool := wakes_k WField p r.

(** position (in the notification order) of the first notified trigger the reader tracks;
    [None] if it tracks none of them *)
Fixpoint first_hit (l : list trig) (tr : list trig) (i : nat) : option nat :=
  match l with
  | [] => None
  | t :: l => if trig_in t tr then Some i else first_hit l tr (S i)
  end.

Definition wake_pos_k (k : wkind) (p r : path) : option nat :=
  first_hit (notified k p) (track_field r) 0.

Definition wake_pos (p r : path) : option nat := wake_pos_k WField p r.

(** ---- the code before the repairs (kept to state what was refuted) ---- *)

(** before 4f634fd: AtIndex / AtKeyed used the old trait default (own triggers only),
    KeyedSubfield tracked its direct parent only *)
Definition track_field_own_prefix (r : path) : list trig := [This r; Children r].
Definition track_field_keyed_prefix (r : path) : list trig :=
  [This (removelast r); This r; Children r].

(** before 92b94d7: AtIndex::writer = WriteGuard(children(p), <parent's tracked writer>):
    the parent's notifications first, then children(p); this(p) never *)
Definition notified_atindex_prefix (p : path) : list trig :=
  triggers_for_path (removelast p) ++ [Children p].
