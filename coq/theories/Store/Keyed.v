(** C16 — reactive_stores keyed collections: FieldKeys / KeyMap, the assignment of a stable
    path segment to every key of a `#[store(key: K = ...)]` field.  Executable transcription of
    reactive_stores/src/lib.rs  FieldKeys::{new, get, next_key, update},  KeyMap::with_field_keys
    (after the repair 8ee08c9 of FieldKeys::new; the code before it is kept as [fk_new_prefix]).

    FieldKeys.keys is an FxHashMap: the two loops of [update] visit it (and the freshly
    collected `new_keys` map) in hash order.  That order is a parameter here (a list of
    choices, see [permute]); every theorem quantifies over it.  No proofs in this file. *)
From Coq Require Import List Arith Bool ZArith.
Import ListNotations.

Definition key := Z.

(** keys: K -> (StorePathSegment, usize index in the collection) *)
Record fkeys := mkFk {
  fk_spare : list nat;                      (* spare_keys: a Vec used as a stack, head = top *)
  fk_cur : nat;                             (* current_key *)
  fk_keys : list (key * (nat * nat));       (* the map, in some (hash) order *)
}.

Fixpoint assoc {B} (k : key) (l : list (key * B)) : option B :=
  match l with
  | [] => None
  | (k', b) :: l => if Z.eqb k k' then Some b else assoc k l
  end.

(** HashMap::insert: overwrite in place or append *)
Fixpoint assoc_set {B} (k : key) (b : B) (l : list (key * B)) : list (key * B) :=
  match l with
  | [] => [(k, b)]
  | (k', b') :: l => if Z.eqb k k' then (k, b) :: l else (k', b') :: assoc_set k b l
  end.

Fixpoint enumerate_from {A} (i : nat) (l : list A) : list (A * nat) :=
  match l with [] => [] | x :: l => (x, i) :: enumerate_from (S i) l end.

(** `iter.enumerate().map(|(idx, key)| (key, idx)).collect::<FxHashMap<K, usize>>()` *)
Definition collect_indexed (ks : list key) : list (key * nat) :=
  fold_left (fun m ki => assoc_set (fst ki) (snd ki) m) (enumerate_from 0 ks) [].

(** FieldKeys::new (repaired): initial keys get the segments 0..n-1, the counter continues
    after them *)
Definition fk_new (ks : list key) : fkeys :=
  mkFk [] (pred (length ks))
       (fold_left (fun m ki => assoc_set (fst ki) (snd ki, snd ki) m) (enumerate_from 0 ks) []).

(** FieldKeys::new before 8ee08c9: `current_key: 0` *)
Definition fk_new_prefix (ks : list key) : fkeys :=
  mkFk [] 0
       (fold_left (fun m ki => assoc_set (fst ki) (snd ki, snd ki) m) (enumerate_from 0 ks) []).

Definition fk_get (k : key) (f : fkeys) : option (nat * nat) := assoc k (fk_keys f).

(** next_key: pop a spare segment, else `current_key += 1; current_key` *)
Definition fk_next (spare : list nat) (cur : nat) : nat * (list nat * nat) :=
  match spare with
  | s :: spare => (s, (spare, cur))
  | [] => (S cur, ([], S cur))
  end.

(** an arbitrary iteration order: repeatedly take the element at position (choice mod length) *)
Fixpoint take_nth {A} (n : nat) (l : list A) : option (A * list A) :=
  match l with
  | [] => None
  | x :: l => match n with
              | 0 => Some (x, l)
              | S n => match take_nth n l with
                       | Some (y, r) => Some (y, x :: r)
                       | None => None
                       end
              end
  end.

Fixpoint pick_order {A} (fuel : nat) (cs : list nat) (l : list A) : list A :=
  match fuel with
  | 0 => []
  | S fuel =>
      match l with
      | [] => []
      | _ :: _ =>
          match take_nth (hd 0 cs mod length l) l with
          | Some (x, r) => x :: pick_order fuel (tl cs) r
          | None => []
          end
      end
  end.

Definition permute {A} (cs : list nat) (l : list A) : list A := pick_order (length l) cs l.

(** first loop of [update]: `self.keys.retain(...)`, visiting the entries in the order [l];
    entries whose key is still present get their new index, the others give their segment
    back (`spare_keys.push`) *)
Fixpoint fk_retain (nk : list (key * nat)) (l : list (key * (nat * nat))) (spare : list nat)
  : list (key * (nat * nat)) * list nat :=
  match l with
  | [] => ([], spare)
  | (k, (seg, idx)) :: l =>
      match assoc k nk with
      | Some i => let '(kept, sp) := fk_retain nk l spare in ((k, (seg, i)) :: kept, sp)
      | None => fk_retain nk l (seg :: spare)
      end
  end.

(** second loop: `for (key, idx) in new_keys`, visiting [l] *)
Fixpoint fk_add (l : list (key * nat)) (keys : list (key * (nat * nat))) (spare : list nat) (cur : nat)
  : list (key * (nat * nat)) * (list nat * nat) :=
  match l with
  | [] => (keys, (spare, cur))
  | (k, idx) :: l =>
      match assoc k keys with
      | Some _ => fk_add l keys spare cur
      | None => let '(seg, (spare', cur')) := fk_next spare cur in
                fk_add l (keys ++ [(k, (seg, idx))]) spare' cur'
      end
  end.

(** FieldKeys::update with the two visiting orders given explicitly *)
Definition fk_update_ord (o1 : list (key * (nat * nat))) (o2 : list (key * nat)) (f : fkeys)
  : fkeys :=
  let '(kept, spare) := fk_retain o2 o1 (fk_spare f) in
  let '(keys, (spare', cur')) := fk_add o2 kept spare (fk_cur f) in
  mkFk spare' cur' keys.

(** ... and with the orders derived from two lists of choices *)
Definition fk_update (c1 c2 : list nat) (f : fkeys) (latest : list key) : fkeys :=
  fk_update_ord (permute c1 (fk_keys f)) (permute c2 (collect_indexed latest)) f.

(** the segments of the live keys *)
Definition fk_segments (f : fkeys) : list nat := map (fun e => fst (snd e)) (fk_keys f).

(** KeyMap: StorePath (of the keyed field) -> FieldKeys, created on first use from the
    collection's current keys *)
Definition keymap := list (list nat * fkeys).

Fixpoint km_find (p : list nat) (m : keymap) : option fkeys :=
  match m with
  | [] => None
  | (q, f) :: m => if list_eq_dec Nat.eq_dec p q then Some f else km_find p m
  end.

Fixpoint km_set (p : list nat) (f : fkeys) (m : keymap) : keymap :=
  match m with
  | [] => [(p, f)]
  | (q, g) :: m => if list_eq_dec Nat.eq_dec p q then (q, f) :: m else (q, g) :: km_set p f m
  end.

(** with_field_keys(path, fun, initialize): `entry(path).or_insert_with(|| FieldKeys::new(initialize()))` *)
Definition km_entry (p : list nat) (init : list key) (m : keymap) : fkeys * keymap :=
  match km_find p m with
  | Some f => (f, m)
  | None => let f := fk_new init in (f, km_set p f m)
  end.

(** the segments FieldKeys::update hands back: those of the keys that are no longer present *)
Definition fk_removed (f : fkeys) (latest : list key) : list nat :=
  map (fun e => fst (snd e))
      (filter (fun e => negb (existsb (Z.eqb (fst e)) latest)) (fk_keys f)).

Fixpoint starts_with (p q : list nat) : bool :=     (* q.starts_with(p) *)
  match p, q with
  | [], _ => true
  | x :: p, y :: q => Nat.eqb x y && starts_with p q
  | _ :: _, [] => false
  end.

(** KeyMap::remove_below: forget the FieldKeys of every keyed field at or below [p] *)
Definition km_remove_below (p : list nat) (m : keymap) : keymap :=
  filter (fun e => negb (starts_with p (fst e))) m.

(** KeyedSubfield::update_keys: update the FieldKeys of the field at [p], then forget the keys
    of the keyed fields nested in the removed items (their path segments are recycled) *)
Definition km_update (c1 c2 : list nat) (p : list nat) (latest : list key) (m : keymap) : keymap :=
  let '(f, m') := km_entry p latest m in
  fold_left (fun m seg => km_remove_below (p ++ [seg]) m) (fk_removed f latest)
            (km_set p (fk_update c1 c2 f latest) m').

(** a whole history of contents of one keyed field: created from the first, then one
    update_keys per later content *)
Fixpoint fk_history (cs : list (list nat * list nat)) (f : fkeys) (h : list (list key)) : fkeys :=
  match h with
  | [] => f
  | latest :: h =>
      let '(c1, c2) := hd ([], []) cs in
      fk_history (tl cs) (fk_update c1 c2 f latest) h
  end.
