(** C16 — proofs about Store/Paths.v: which readers a write wakes (any depth), and in which
    order. *)
From Coq Require Import List Arith Bool Lia.
From LV Require Import Store.Paths.
Import ListNotations.

(** ---- basic facts ---- *)
Lemma path_eqb_eq a b : path_eqb a b = true <-> a = b.
Proof. unfold path_eqb. destruct (list_eq_dec Nat.eq_dec a b); split; congruence. Qed.

Lemma path_eqb_refl a : path_eqb a a = true.
Proof. apply path_eqb_eq; reflexivity. Qed.

Lemma trig_eqb_eq a b : trig_eqb a b = true <-> a = b.
Proof.
  destruct a as [p|p], b as [q|q]; cbn [trig_eqb]; rewrite ?path_eqb_eq; split; intros H;
    try congruence; try discriminate.
Qed.

Lemma trig_in_In t l : trig_in t l = true <-> In t l.
Proof.
  unfold trig_in. rewrite existsb_exists. split.
  - intros [x [Hin Heq]]. apply trig_eqb_eq in Heq. subst. exact Hin.
  - intros Hin. exists t. split; [exact Hin | apply trig_eqb_eq; reflexivity].
Qed.

Lemma is_prefix_refl p : is_prefix p p = true.
Proof. induction p as [|x p IH]; cbn [is_prefix]; [reflexivity|]. rewrite Nat.eqb_refl. exact IH. Qed.

Lemma is_prefix_app a b : is_prefix a (a ++ b) = true.
Proof. induction a as [|x a IH]; cbn [is_prefix app]; [reflexivity|]. rewrite Nat.eqb_refl. exact IH. Qed.

Lemma is_prefix_exists a b : is_prefix a b = true <-> exists c, b = a ++ c.
Proof.
  revert b. induction a as [|x a IH]; intros b; cbn [is_prefix].
  - split; [intros _; exists b; reflexivity | reflexivity].
  - destruct b as [|y b].
    + split; [discriminate | intros [c Hc]; discriminate].
    + rewrite andb_true_iff, Nat.eqb_eq, IH. split.
      * intros [-> [c ->]]. exists c. reflexivity.
      * intros [c Hc]. cbn [app] in Hc. inversion Hc; subst. split; [reflexivity | exists c; reflexivity].
Qed.

Lemma is_prefix_length a b : is_prefix a b = true -> length a <= length b.
Proof. intros H. apply is_prefix_exists in H as [c ->]. rewrite app_length. lia. Qed.

Lemma is_prefix_antisym a b : is_prefix a b = true -> is_prefix b a = true -> a = b.
Proof.
  intros H1 H2. apply is_prefix_exists in H1 as [c ->]. apply is_prefix_length in H2.
  rewrite app_length in H2. destruct c; [rewrite app_nil_r; reflexivity | cbn [length] in H2; lia].
Qed.

Lemma is_prefix_trans a b c : is_prefix a b = true -> is_prefix b c = true -> is_prefix a c = true.
Proof.
  intros H1 H2. apply is_prefix_exists in H1 as [x ->]. apply is_prefix_exists in H2 as [y ->].
  rewrite <- app_assoc. apply is_prefix_app.
Qed.

Lemma in_prefixes a b : In a (prefixes b) <-> is_prefix a b = true.
Proof.
  revert a; induction b as [|y b IH]; intros a; cbn [prefixes is_prefix].
  - destruct a; cbn [In is_prefix]; split; intros H; auto; try discriminate.
    destruct H as [H|[]]; discriminate.
  - destruct a as [|x a]; cbn [In is_prefix].
    + split; auto.
    + rewrite in_map_iff. split.
      * intros [H|[c [Hc Hin]]]; [discriminate|]. inversion Hc; subst. rewrite Nat.eqb_refl.
        cbn [andb]. apply IH; auto.
      * intros H. apply andb_true_iff in H as [Hx Ha]. apply Nat.eqb_eq in Hx; subst. right.
        exists a; split; auto. apply IH; auto.
Qed.

Lemma prefixes_last p :
  exists l, prefixes p = l ++ [p] /\ forall q, In q l <-> (is_prefix q p = true /\ q <> p).
Proof.
  induction p as [|x p [l [Hl Hin]]]; cbn [prefixes].
  - exists []; split; auto. intros q; cbn [In]; split; [tauto|]. intros [H1 H2].
    destruct q; [congruence|discriminate].
  - exists ([] :: map (cons x) l). split.
    + rewrite Hl. rewrite map_app. reflexivity.
    + intros q. cbn [In]. rewrite in_map_iff. split.
      * intros [<-|[c [<- Hc]]]; [split; [reflexivity|discriminate]|].
        apply Hin in Hc as [H1 H2]. cbn [is_prefix]. rewrite Nat.eqb_refl, H1. split; auto. congruence.
      * intros [H1 H2]. destruct q as [|y q]; auto. right. cbn [is_prefix] in H1.
        apply andb_true_iff in H1 as [Hy Hq]. apply Nat.eqb_eq in Hy; subst. exists q; split; auto.
        apply Hin. split; auto. congruence.
Qed.

Lemma prefixes_split p : prefixes p = proper_prefixes p ++ [p].
Proof.
  unfold proper_prefixes. destruct (prefixes_last p) as [l [Hl _]]. rewrite Hl, removelast_last.
  reflexivity.
Qed.

Lemma in_proper a b : In a (proper_prefixes b) <-> (is_prefix a b = true /\ a <> b).
Proof.
  unfold proper_prefixes. destruct (prefixes_last b) as [l [Hl Hin]]. rewrite Hl, removelast_last.
  apply Hin.
Qed.

(** the transcription of the loop, in closed form: children of every proper prefix (root
    first), then children and this of the field; for the root itself, children twice *)
Lemma triggers_for_path_eq p :
  p <> [] -> triggers_for_path p = map Children (proper_prefixes p) ++ [Children p; This p].
Proof.
  intros Hp. unfold triggers_for_path, parents_up. destruct p as [|x p]; [congruence|].
  rewrite rev_app_distr, <- map_rev, rev_involutive. reflexivity.
Qed.

Lemma triggers_for_path_root : triggers_for_path [] = [Children []; Children []; This []].
Proof. reflexivity. Qed.

Lemma triggers_for_path_prefixes p :
  p <> [] -> triggers_for_path p = map Children (prefixes p) ++ [This p].
Proof.
  intros Hp. rewrite (triggers_for_path_eq p Hp), prefixes_split, map_app, <- app_assoc. reflexivity.
Qed.

Lemma in_track_field t r :
  In t (track_field r) <-> (exists q, t = This q /\ is_prefix q r = true) \/ t = Children r.
Proof.
  unfold track_field. rewrite in_app_iff, in_map_iff. cbn [In]. split.
  - intros [[q [<- Hq]]|[<-|[<-|[]]]].
    + left. exists q. split; [reflexivity|]. apply in_prefixes. apply in_rev. exact Hq.
    + left. exists r. split; [reflexivity | apply is_prefix_refl].
    + right. reflexivity.
  - intros [[q [-> Hq]]| ->].
    + left. exists q. split; [reflexivity|]. apply in_rev. rewrite rev_involutive. apply in_prefixes. exact Hq.
    + right. right. left. reflexivity.
Qed.

Lemma in_notified_field t p :
  In t (notified WField p) <-> (exists q, t = Children q /\ is_prefix q p = true) \/ t = This p.
Proof.
  cbn [notified]. destruct p as [|x p].
  - rewrite triggers_for_path_root. cbn [In]. split.
    + intros [<-|[<-|[<-|[]]]]; [left; exists []; auto | left; exists []; auto | right; reflexivity].
    + intros [[q [-> Hq]]| ->]; [|auto]. destruct q; [auto | discriminate].
  - rewrite triggers_for_path_prefixes by discriminate. rewrite in_app_iff, in_map_iff. cbn [In]. split.
    + intros [[q [<- Hq]]|[<-|[]]]; [left; exists q; split; [reflexivity | apply in_prefixes; exact Hq] | right; reflexivity].
    + intros [[q [-> Hq]]| ->]; [left; exists q; split; [reflexivity | apply in_prefixes; exact Hq] | right; left; reflexivity].
Qed.

Lemma wakes_k_spec k p r :
  wakes_k k p r = true <-> exists t, In t (notified k p) /\ In t (track_field r).
Proof.
  unfold wakes_k. rewrite existsb_exists. split; intros [t [H1 H2]]; exists t; split; auto;
    apply trig_in_In; exact H2.
Qed.

(** ---- headline: a write at [p] wakes a reader of [r] iff one path is a prefix of the other ---- *)
Theorem notified_iff_related p r :
  wakes p r = true <-> (is_prefix p r = true \/ is_prefix r p = true).
Proof.
  unfold wakes. rewrite wakes_k_spec. split.
  - intros [t [Hn Ht]]. apply in_notified_field in Hn. apply in_track_field in Ht.
    destruct Hn as [[q [-> Hq]]| ->]; destruct Ht as [[q' [Ht Hq']]|Ht]; try discriminate.
    + inversion Ht; subst. right. exact Hq.
    + inversion Ht; subst. left. exact Hq'.
  - intros [H|H].
    + exists (This p). split; [apply in_notified_field; right; reflexivity|].
      apply in_track_field. left. exists p. split; [reflexivity | exact H].
    + exists (Children r). split; [apply in_notified_field; left; exists r; split; [reflexivity | exact H]|].
      apply in_track_field. right. reflexivity.
Qed.

Corollary wakes_related p r : wakes p r = related p r.
Proof.
  unfold related. destruct (wakes p r) eqn:E.
  - apply notified_iff_related in E. symmetry. apply orb_true_iff. destruct E; [left|right]; assumption.
  - symmetry. apply not_true_is_false. intros H. apply orb_true_iff in H.
    assert (wakes p r = true) by (apply notified_iff_related; destruct H; [left|right]; assumption).
    congruence.
Qed.

(** writing the store itself wakes every reader *)
Theorem root_write_wakes_all r : wakes_k WRoot [] r = true.
Proof.
  apply wakes_k_spec. exists (This []). split; [cbn [notified]; change (triggers_for_path []) with [Children []; Children []; This []]; cbn [In]; auto|].
  apply in_track_field. left. exists []. split; reflexivity.
Qed.

(** the guard of a keyed collection field notifies the same triggers as a plain field
    (after refreshing the keys) *)
Theorem keyed_write_wakes_same p r : wakes_k WKeyed p r = wakes p r.
Proof. reflexivity. Qed.

(** siblings and cousins: two fields that part ways at some segment never wake each other *)
Lemma diverged_not_prefix p x y t1 t2 :
  x <> y -> is_prefix (p ++ x :: t1) (p ++ y :: t2) = false.
Proof.
  intros Hxy. induction p as [|z p IH]; cbn [app is_prefix].
  - apply Nat.eqb_neq in Hxy. rewrite Hxy. reflexivity.
  - rewrite Nat.eqb_refl. exact IH.
Qed.

Theorem sibling_never p a b s1 s2 :
  a <> b -> wakes (p ++ a :: s1) (p ++ b :: s2) = false.
Proof.
  intros Hab. apply not_true_is_false. intros H. apply notified_iff_related in H.
  destruct H as [H|H]; rewrite diverged_not_prefix in H; try discriminate; auto.
Qed.

Example sibling_never_nontrivial :
  wakes [0; 1; 4] [0; 2] = false /\ wakes [0; 1] [0; 1; 4] = true /\ wakes [0; 1; 4] [0] = true.
Proof. repeat split; reflexivity. Qed.

(** ---- order of notification ---- *)
Lemma prefixes_length p : length (prefixes p) = S (length p).
Proof.
  induction p as [|x p IH]; [reflexivity|].
  change (prefixes (x :: p)) with ([] :: map (cons x) (prefixes p)).
  cbn [length]. rewrite map_length. f_equal. exact IH.
Qed.

Lemma nth_prefixes p k : k <= length p -> nth_error (prefixes p) k = Some (firstn k p).
Proof.
  revert k. induction p as [|x p IH]; intros k Hk.
  - cbn [length] in Hk. assert (k = 0) by lia. subst. reflexivity.
  - change (prefixes (x :: p)) with ([] :: map (cons x) (prefixes p)).
    destruct k as [|k]; [reflexivity|]. cbn [nth_error firstn length] in *.
    rewrite nth_error_map, IH by lia. reflexivity.
Qed.

Lemma firstn_prefix k p : is_prefix (firstn k p) p = true.
Proof.
  apply is_prefix_exists. exists (skipn k p). symmetry. apply firstn_skipn.
Qed.

Lemma prefix_firstn r p : is_prefix r p = true -> firstn (length r) p = r.
Proof.
  intros H. apply is_prefix_exists in H as [c ->]. rewrite firstn_app, Nat.sub_diag, firstn_all.
  cbn [firstn]. apply app_nil_r.
Qed.

Lemma first_hit_spec l tr i n :
  first_hit l tr i = Some n <->
  exists k t, n = i + k /\ nth_error l k = Some t /\ trig_in t tr = true /\
              forall k' t', k' < k -> nth_error l k' = Some t' -> trig_in t' tr = false.
Proof.
  revert i. induction l as [|t l IH]; intros i; cbn [first_hit].
  - split; [discriminate|]. intros [k [t [_ [H _]]]]. destruct k; discriminate.
  - destruct (trig_in t tr) eqn:E.
    + split.
      * intros H. inversion H; subst. exists 0, t. repeat split; [lia | exact E | intros; lia].
      * intros [k [t0 [-> [Hk [Ht Hmin]]]]]. destruct k as [|k]; [f_equal; lia|].
        exfalso. specialize (Hmin 0 t ltac:(lia) eq_refl). congruence.
    + rewrite IH. split.
      * intros [k [t0 [-> [Hk [Ht Hmin]]]]]. exists (S k), t0. repeat split; [lia | exact Hk | exact Ht|].
        intros k' t' Hlt Hn. destruct k' as [|k']; [cbn in Hn; inversion Hn; subst; exact E|].
        apply (Hmin k' t'); [lia | exact Hn].
      * intros [k [t0 [-> [Hk [Ht Hmin]]]]]. destruct k as [|k].
        { cbn in Hk. inversion Hk; subst. congruence. }
        exists k, t0. repeat split; [lia | exact Hk | exact Ht|].
        intros k' t' Hlt Hn. apply (Hmin (S k') t'); [lia | exact Hn].
Qed.

Lemma first_hit_none l tr i :
  first_hit l tr i = None <-> forall t, In t l -> trig_in t tr = false.
Proof.
  revert i. induction l as [|t l IH]; intros i; cbn [first_hit].
  - split; [intros _ t []|reflexivity].
  - destruct (trig_in t tr) eqn:E.
    + split; [discriminate|]. intros H. specialize (H t (or_introl eq_refl)). congruence.
    + rewrite IH. split.
      * intros H t0 [<-|Hin]; [exact E | apply H; exact Hin].
      * intros H t0 Hin. apply H. right. exact Hin.
Qed.

(** position at which a reader of [r] is woken by a write at [p]: a reader of an ancestor
    (or of the field itself) at its own depth, a reader of a proper descendant last *)
Theorem wake_pos_spec p r :
  p <> [] ->
  wake_pos p r =
    if is_prefix r p then Some (length r)
    else if is_prefix p r then Some (S (length p))
    else None.
Proof.
  intros Hp. unfold wake_pos, wake_pos_k. cbn [notified]. rewrite (triggers_for_path_prefixes p Hp).
  destruct (is_prefix r p) eqn:Hrp.
  - (* Children r, at index length r *)
    apply first_hit_spec. exists (length r), (Children r).
    pose proof (is_prefix_length _ _ Hrp) as Hlen.
    repeat split.
    + rewrite nth_error_app1 by (rewrite map_length, prefixes_length; lia).
      rewrite nth_error_map, nth_prefixes by lia. rewrite prefix_firstn by exact Hrp. reflexivity.
    + apply trig_in_In, in_track_field. right. reflexivity.
    + intros k' t' Hlt Hn.
      rewrite nth_error_app1 in Hn by (rewrite map_length, prefixes_length; lia).
      rewrite nth_error_map, nth_prefixes in Hn by lia. cbn [option_map] in Hn. inversion Hn; subst.
      apply not_true_is_false. intros Hin. apply trig_in_In, in_track_field in Hin.
      destruct Hin as [[q [Hq _]]|Hq]; [discriminate|]. inversion Hq as [Heq].
      assert (length (firstn k' p) = length r) by (rewrite Heq; reflexivity).
      rewrite firstn_length in H. lia.
  - destruct (is_prefix p r) eqn:Hpr.
    + apply first_hit_spec. exists (S (length p)), (This p).
      assert (Hlen : length (map Children (prefixes p)) = S (length p))
        by (rewrite map_length, prefixes_length; reflexivity).
      repeat split.
      * rewrite nth_error_app2 by lia. rewrite Hlen, Nat.sub_diag. reflexivity.
      * apply trig_in_In, in_track_field. left. exists p. split; [reflexivity | exact Hpr].
      * intros k' t' Hlt Hn. rewrite nth_error_app1 in Hn by lia.
        rewrite nth_error_map, nth_prefixes in Hn by lia. cbn [option_map] in Hn. inversion Hn; subst.
        apply not_true_is_false. intros Hin. apply trig_in_In, in_track_field in Hin.
        destruct Hin as [[q [Hq _]]|Hq]; [discriminate|]. inversion Hq as [Heq].
        rewrite <- Heq, firstn_prefix in Hrp. discriminate.
    + apply first_hit_none. intros t Hin. apply not_true_is_false. intros Ht.
      apply trig_in_In in Ht.
      assert (Hw : wakes p r = true).
      { unfold wakes. apply wakes_k_spec. exists t. split; [|exact Ht]. cbn [notified].
        rewrite (triggers_for_path_prefixes p Hp). exact Hin. }
      apply notified_iff_related in Hw. destruct Hw; congruence.
Qed.

(** readers of ancestors of the written field are woken before readers of the field, and
    those before readers of its descendants; among ancestors, the shallower one first *)
(** for the root's own path (a type-erased handle of the store): children, children, this *)
Lemma wake_pos_root r : wake_pos [] r = match r with [] => Some 0 | _ :: _ => Some 2 end.
Proof.
  unfold wake_pos, wake_pos_k. cbn [notified]. rewrite triggers_for_path_root.
  destruct r as [|x r]; [reflexivity|].
  cbn [first_hit].
  assert (H1 : trig_in (Children []) (track_field (x :: r)) = false).
  { apply not_true_is_false. intros H. apply trig_in_In, in_track_field in H.
    destruct H as [[q [H _]]|H]; discriminate. }
  assert (H2 : trig_in (This []) (track_field (x :: r)) = true).
  { apply trig_in_In, in_track_field. left. exists []. split; reflexivity. }
  rewrite H1, H2. reflexivity.
Qed.

Theorem ancestors_before_descendants p r1 r2 i1 i2 :
  wake_pos p r1 = Some i1 -> wake_pos p r2 = Some i2 ->
  length r1 <= length r2 ->
  i1 <= i2 /\ (is_prefix r1 p = true -> length r1 < length r2 -> i1 < i2).
Proof.
  destruct p as [|x0 p0].
  { rewrite !wake_pos_root. intros H1 H2 Hlen.
    destruct r1 as [|a r1]; destruct r2 as [|b r2]; inversion H1; inversion H2; subst;
      cbn [length] in *; split; try lia; intros Hp; try discriminate; lia. }
  remember (x0 :: p0) as p eqn:Heqp.
  assert (Hp : p <> []) by (rewrite Heqp; discriminate). clear Heqp x0 p0.
  rewrite !(wake_pos_spec p _ Hp). intros H1 H2 Hlen.
  destruct (is_prefix r1 p) eqn:A1; destruct (is_prefix r2 p) eqn:A2.
  - inversion H1; inversion H2; subst. split; [lia | intros _ ?; lia].
  - destruct (is_prefix p r2) eqn:B2; [|discriminate].
    inversion H1; inversion H2; subst. pose proof (is_prefix_length _ _ A1).
    split; [lia | intros _ ?; lia].
  - destruct (is_prefix p r1) eqn:B1; [|discriminate].
    exfalso. pose proof (is_prefix_length _ _ A2) as L2.
    apply is_prefix_exists in B1 as [c ->]. rewrite app_length in Hlen.
    destruct c as [|z c]; [|cbn [length] in Hlen; lia].
    rewrite app_nil_r, is_prefix_refl in A1. discriminate.
  - destruct (is_prefix p r1) eqn:B1; [|discriminate].
    destruct (is_prefix p r2) eqn:B2; [|discriminate].
    inversion H1; inversion H2; subst. split; [lia | intros ?; discriminate].
Qed.

(** a reader is woken at some position iff it is related to the written path *)
Lemma wake_pos_some p r : (exists i, wake_pos p r = Some i) <-> wakes p r = true.
Proof.
  unfold wake_pos, wake_pos_k, wakes, wakes_k. split.
  - intros [i H]. apply first_hit_spec in H. destruct H as [k [t [_ [Hn [Ht _]]]]].
    apply existsb_exists. exists t. split; [eapply nth_error_In; exact Hn | exact Ht].
  - intros H. destruct (first_hit (notified WField p) (track_field r) 0) as [i|] eqn:E; [eauto|].
    exfalso. apply existsb_exists in H. destruct H as [t [Hin Ht]].
    rewrite (proj1 (first_hit_none _ _ _) E t Hin) in Ht. discriminate.
Qed.

Example ancestors_before_descendants_nontrivial :
  wake_pos [1; 2] [] = Some 0 /\ wake_pos [1; 2] [1] = Some 1 /\ wake_pos [1; 2] [1; 2] = Some 2 /\
  wake_pos [1; 2] [1; 2; 0; 5] = Some 3 /\ wake_pos [1; 2] [1; 3] = None.
Proof. repeat split; reflexivity. Qed.

(** ---- what was refuted before the repairs ---- *)

(** before 4f634fd a reader of `v.at_unkeyed(0)` (own triggers only) slept through a write to `v` *)
Example atindex_reader_missed_parent_write_prefix_refuted :
  existsb (fun t => trig_in t (track_field_own_prefix [3; 0])) (notified WField [3]) = false
  /\ wakes [3] [3; 0] = true.
Proof. split; reflexivity. Qed.

(** ... and a reader of a keyed field two levels deep slept through a write to the store *)
Example keyed_reader_missed_root_write_prefix_refuted :
  existsb (fun t => trig_in t (track_field_keyed_prefix [1; 3])) (notified WRoot []) = false
  /\ wakes_k WRoot [] [1; 3] = true.
Proof. split; reflexivity. Qed.

(** before 92b94d7 a write to `v[0]` woke the readers of `v[1].x` (through this([v])) *)
Example atindex_write_woke_sibling_prefix_refuted :
  existsb (fun t => trig_in t (track_field [3; 1; 0])) (notified_atindex_prefix [3; 0]) = true
  /\ wakes [3; 0] [3; 1; 0] = false.
Proof. split; reflexivity. Qed.
