(** C16 — proofs about Store/Keyed.v (FieldKeys): for every history of contents of a keyed
    collection and every visiting order of the hash maps, live keys have pairwise distinct
    path segments, a key keeps its segment while it stays in the collection, loses it when it
    is removed, and its recorded index is its position in the latest content. *)
From Coq Require Import List Arith Bool ZArith Lia Permutation.
From LV Require Import Store.Paths Store.PathsProofs Store.Keyed.
Import ListNotations.

Definition seg_of (e : key * (nat * nat)) : nat := fst (snd e).
Definition segs (l : list (key * (nat * nat))) : list nat := map seg_of l.

Lemma NoDup_app_single {A} (l : list A) x : NoDup l -> ~ In x l -> NoDup (l ++ [x]).
Proof.
  intros Hnd Hx. eapply Permutation_NoDup; [apply Permutation_cons_append|]. constructor; assumption.
Qed.

Lemma NoDup_app_l {A} (a b : list A) : NoDup (a ++ b) -> NoDup a.
Proof.
  induction a as [|x a IH]; cbn [app]; intros H; [constructor|].
  inversion H as [|? ? Hnot Hnd]; subst. constructor; [|apply IH; exact Hnd].
  intros Hin. apply Hnot. apply in_or_app. left. exact Hin.
Qed.

(** ---- association lists ---- *)
Lemma assoc_In {B} k (b : B) l : assoc k l = Some b -> In (k, b) l.
Proof.
  induction l as [|[k' b'] l IH]; cbn [assoc]; [discriminate|].
  destruct (Z.eqb k k') eqn:E.
  - intros H. inversion H; subst. apply Z.eqb_eq in E. subst. left. reflexivity.
  - intros H. right. apply IH. exact H.
Qed.

Lemma assoc_None {B} k (l : list (key * B)) : assoc k l = None <-> ~ In k (map fst l).
Proof.
  induction l as [|[k' b'] l IH]; cbn [assoc map In fst].
  - split; [intros _ [] | reflexivity].
  - destruct (Z.eqb k k') eqn:E.
    + apply Z.eqb_eq in E. subst. split; [discriminate | intros H; exfalso; apply H; left; reflexivity].
    + apply Z.eqb_neq in E. rewrite IH. split; [intros H [H1|H1]; [congruence | exact (H H1)] | intros H H1; apply H; right; exact H1].
Qed.

Lemma assoc_Some_In_fst {B} k (b : B) l : assoc k l = Some b -> In k (map fst l).
Proof. intros H. apply assoc_In in H. apply (in_map fst) in H. exact H. Qed.

Lemma assoc_NoDup_In {B} k (b : B) l : NoDup (map fst l) -> In (k, b) l -> assoc k l = Some b.
Proof.
  induction l as [|[k' b'] l IH]; cbn [assoc map In fst]; [intros _ []|].
  intros Hnd [H|H].
  - inversion H; subst. rewrite Z.eqb_refl. reflexivity.
  - inversion Hnd as [|? ? Hnot Hnd']; subst. destruct (Z.eqb k k') eqn:E.
    + apply Z.eqb_eq in E. subst. exfalso. apply Hnot. apply (in_map fst) in H. exact H.
    + apply IH; assumption.
Qed.

Lemma assoc_perm {B} k (l l' : list (key * B)) :
  Permutation l l' -> NoDup (map fst l) -> assoc k l = assoc k l'.
Proof.
  intros Hp Hnd.
  assert (Hnd' : NoDup (map fst l')) by (eapply Permutation_NoDup; [apply Permutation_map; exact Hp | exact Hnd]).
  destruct (assoc k l) as [b|] eqn:E.
  - symmetry. apply assoc_NoDup_In; [exact Hnd'|]. eapply Permutation_in; [exact Hp|]. apply assoc_In. exact E.
  - symmetry. apply assoc_None. apply assoc_None in E. intros H. apply E.
    eapply Permutation_in; [apply Permutation_sym, Permutation_map; exact Hp | exact H].
Qed.

Lemma assoc_app_single {B} k k0 (b : B) l :
  assoc k (l ++ [(k0, b)]) =
    match assoc k l with Some x => Some x | None => if Z.eqb k k0 then Some b else None end.
Proof.
  induction l as [|[k' b'] l IH]; cbn [assoc app]; [reflexivity|].
  destruct (Z.eqb k k'); [reflexivity | exact IH].
Qed.

Lemma assoc_set_fresh {B} k (b : B) l : ~ In k (map fst l) -> assoc_set k b l = l ++ [(k, b)].
Proof.
  induction l as [|[k' b'] l IH]; cbn [assoc_set map In fst app]; [reflexivity|].
  intros H. destruct (Z.eqb k k') eqn:E.
  - apply Z.eqb_eq in E. subst. exfalso. apply H. left. reflexivity.
  - rewrite IH; [reflexivity|]. intros H1. apply H. right. exact H1.
Qed.

(** ---- enumerate / collect ---- *)
Lemma enumerate_fst {A} i (l : list A) : map fst (enumerate_from i l) = l.
Proof. revert i. induction l as [|x l IH]; intros i; cbn [enumerate_from map fst]; [reflexivity|]. rewrite IH. reflexivity. Qed.

Lemma enumerate_snd {A} i (l : list A) : map snd (enumerate_from i l) = seq i (length l).
Proof. revert i. induction l as [|x l IH]; intros i; cbn [enumerate_from map snd length seq]; [reflexivity|]. rewrite IH. reflexivity. Qed.

Lemma enumerate_nth {A} i (l : list A) j x :
  nth_error l j = Some x -> In (x, i + j) (enumerate_from i l).
Proof.
  revert i j. induction l as [|y l IH]; intros i j H; [destruct j; discriminate|].
  destruct j as [|j]; cbn [nth_error enumerate_from In] in *.
  - inversion H; subst. left. f_equal. lia.
  - right. replace (i + S j) with (S i + j) by lia. apply IH. exact H.
Qed.

Lemma fold_assoc_set_fresh {B} (g : nat -> B) ks : forall i acc,
  NoDup ks -> (forall k, In k ks -> ~ In k (map fst acc)) ->
  fold_left (fun m (ki : key * nat) => assoc_set (fst ki) (g (snd ki)) m) (enumerate_from i ks) acc
  = acc ++ map (fun ki : key * nat => (fst ki, g (snd ki))) (enumerate_from i ks).
Proof.
  induction ks as [|k ks IH]; intros i acc Hnd Hfresh; cbn [enumerate_from fold_left map fst snd].
  - rewrite app_nil_r. reflexivity.
  - inversion Hnd as [|? ? Hnot Hnd']; subst.
    rewrite assoc_set_fresh by (apply Hfresh; left; reflexivity).
    rewrite IH; [rewrite <- app_assoc; reflexivity | exact Hnd'|].
    intros k' Hk'. rewrite map_app, in_app_iff. cbn [map fst In].
    intros [H|[H|[]]]; [apply (Hfresh k'); [right; exact Hk' | exact H] | subst; exact (Hnot Hk')].
Qed.

Lemma collect_indexed_nodup ks : NoDup ks -> collect_indexed ks = enumerate_from 0 ks.
Proof.
  intros Hnd. unfold collect_indexed.
  rewrite (fold_assoc_set_fresh (fun i => i) ks 0 [] Hnd) by (intros ? _ []).
  cbn [app]. rewrite <- (map_id (enumerate_from 0 ks)) at 2. apply map_ext. intros [k i]. reflexivity.
Qed.

Lemma fk_new_keys ks :
  NoDup ks -> fk_keys (fk_new ks) = map (fun ki : key * nat => (fst ki, (snd ki, snd ki))) (enumerate_from 0 ks).
Proof.
  intros Hnd. unfold fk_new. cbn [fk_keys].
  rewrite (fold_assoc_set_fresh (fun i => (i, i)) ks 0 [] Hnd) by (intros ? _ []). reflexivity.
Qed.

(** ---- visiting orders are permutations ---- *)
Lemma take_nth_perm {A} n (l : list A) x r : take_nth n l = Some (x, r) -> Permutation l (x :: r).
Proof.
  revert n x r. induction l as [|y l IH]; intros n x r; [destruct n; discriminate|].
  destruct n as [|n]; cbn [take_nth].
  - intros H. inversion H; subst. apply Permutation_refl.
  - destruct (take_nth n l) as [[z r']|] eqn:E; [|discriminate].
    intros H. inversion H; subst. specialize (IH _ _ _ E).
    eapply Permutation_trans; [apply perm_skip; exact IH | apply perm_swap].
Qed.

Lemma take_nth_some {A} n (l : list A) : n < length l -> exists x r, take_nth n l = Some (x, r).
Proof.
  revert n. induction l as [|y l IH]; intros n Hn; cbn [length] in Hn; [lia|].
  destruct n as [|n]; cbn [take_nth]; [eauto|].
  destruct (IH n ltac:(lia)) as [x [r E]]. rewrite E. eauto.
Qed.

Lemma pick_order_perm {A} fuel : forall cs (l : list A),
  length l <= fuel -> Permutation (pick_order fuel cs l) l.
Proof.
  induction fuel as [|fuel IH]; intros cs l Hl.
  - destruct l; [apply Permutation_refl | cbn [length] in Hl; lia].
  - cbn [pick_order]. destruct l as [|y l]; [apply Permutation_refl|].
    assert (Hlt : hd 0 cs mod length (y :: l) < length (y :: l)) by (apply Nat.mod_upper_bound; cbn [length]; lia).
    destruct (take_nth_some _ _ Hlt) as [x [r E]]. rewrite E.
    pose proof (take_nth_perm _ _ _ _ E) as Hp.
    assert (length r <= fuel).
    { apply Permutation_length in Hp. cbn [length] in *. lia. }
    eapply Permutation_trans; [apply perm_skip; apply IH; assumption | apply Permutation_sym; exact Hp].
Qed.

Lemma permute_perm {A} cs (l : list A) : Permutation (permute cs l) l.
Proof. unfold permute. apply pick_order_perm. lia. Qed.

(** ---- the invariant ---- *)
Definition fk_wf (f : fkeys) : Prop :=
  NoDup (map fst (fk_keys f)) /\
  NoDup (segs (fk_keys f) ++ fk_spare f) /\
  (forall s, In s (segs (fk_keys f) ++ fk_spare f) -> s <= fk_cur f).

Lemma segs_app a b : segs (a ++ b) = segs a ++ segs b.
Proof. unfold segs. apply map_app. Qed.

(** first loop *)
Lemma fk_retain_spec nk : forall l spare kept sp,
  fk_retain nk l spare = (kept, sp) ->
  Permutation (segs kept ++ sp) (segs l ++ spare)
  /\ (forall k, assoc k kept =
        match assoc k l with
        | Some (s, _) => match assoc k nk with Some i => Some (s, i) | None => None end
        | None => None
        end)
  /\ (forall k, In k (map fst kept) -> In k (map fst l))
  /\ (NoDup (map fst l) -> NoDup (map fst kept)).
Proof.
  induction l as [|[k0 [seg idx]] l IH]; intros spare kept sp H; cbn [fk_retain] in H.
  - inversion H; subst. cbn [segs map app assoc]. repeat split; auto using Permutation_refl.
  - destruct (assoc k0 nk) as [i|] eqn:E.
    + destruct (fk_retain nk l spare) as [kept' sp'] eqn:R. inversion H; subst.
      destruct (IH _ _ _ R) as [P [A [S N]]]. repeat split.
      * cbn [segs map app seg_of fst snd]. apply perm_skip. exact P.
      * intros k. cbn [assoc]. destruct (Z.eqb k k0) eqn:Ek.
        { apply Z.eqb_eq in Ek. subst. rewrite E. reflexivity. }
        apply A.
      * intros k. cbn [map fst In]. intros [Hk|Hk]; [left; exact Hk | right; apply S; exact Hk].
      * intros Hnd. cbn [map fst] in *. inversion Hnd as [|? ? Hnot Hnd']; subst.
        constructor; [intros Hin; apply Hnot, S; exact Hin | apply N; exact Hnd'].
    + destruct (IH _ _ _ H) as [P [A [S N]]]. repeat split.
      * cbn [segs map app seg_of fst snd]. eapply Permutation_trans; [exact P|].
        apply Permutation_sym. apply Permutation_middle.
      * intros k. cbn [assoc]. destruct (Z.eqb k k0) eqn:Ek; [|apply A].
        apply Z.eqb_eq in Ek. subst. rewrite A, E. destruct (assoc k0 l) as [[s ?]|]; reflexivity.
      * intros k Hk. cbn [map fst In]. right. apply S. exact Hk.
      * intros Hnd. cbn [map fst] in Hnd. inversion Hnd; subst. apply N. assumption.
Qed.

(** second loop *)
Lemma fk_add_spec : forall o2 keys spare cur keys' spare' cur',
  fk_add o2 keys spare cur = (keys', (spare', cur')) ->
  NoDup (map fst keys) -> NoDup (segs keys ++ spare) ->
  (forall s, In s (segs keys ++ spare) -> s <= cur) ->
  NoDup (map fst keys') /\ NoDup (segs keys' ++ spare') /\
  (forall s, In s (segs keys' ++ spare') -> s <= cur') /\
  (forall k b, assoc k keys = Some b -> assoc k keys' = Some b) /\
  (forall k, In k (map fst keys') <-> In k (map fst keys) \/ In k (map fst o2)) /\
  (forall k i, assoc k keys = None -> assoc k o2 = Some i -> exists s, assoc k keys' = Some (s, i)).
Proof.
  induction o2 as [|[k0 i0] o2 IH]; intros keys spare cur keys' spare' cur' H Hk Hs Hb; cbn [fk_add] in H.
  - inversion H; subst.
    split; [exact Hk|]. split; [exact Hs|]. split; [exact Hb|].
    split; [intros k b Hkb; exact Hkb|].
    split; [intros k; split; [intros Hin; left; exact Hin | intros [Hin|[]]; exact Hin]|].
    intros k i _ Hd. discriminate.
  - destruct (assoc k0 keys) as [b0|] eqn:E.
    + destruct (IH _ _ _ _ _ _ H Hk Hs Hb) as [A [B [Cc [D [Ee G]]]]].
      split; [exact A|]. split; [exact B|]. split; [exact Cc|]. split; [exact D|].
      split.
      * intros k. split.
        -- intros Hin. apply Ee in Hin. destruct Hin as [Hin|Hin]; [left; exact Hin | right; right; exact Hin].
        -- intros Hin. apply Ee. destruct Hin as [Hin|Hin]; [left; exact Hin|].
           cbn [map fst In] in Hin. destruct Hin as [<-|Hin];
             [left; eapply assoc_Some_In_fst; exact E | right; exact Hin].
      * intros k i Hn Ho. cbn [assoc] in Ho. destruct (Z.eqb k k0) eqn:Ek.
        { apply Z.eqb_eq in Ek. subst. congruence. }
        apply G; assumption.
    + assert (Hfresh : ~ In k0 (map fst keys)) by (apply assoc_None; exact E).
      assert (Common : forall seg keys1 spare1 cur1,
                 keys1 = keys ++ [(k0, (seg, i0))] ->
                 fk_add o2 keys1 spare1 cur1 = (keys', (spare', cur')) ->
                 NoDup (segs keys1 ++ spare1) ->
                 (forall s, In s (segs keys1 ++ spare1) -> s <= cur1) ->
                 NoDup (map fst keys') /\ NoDup (segs keys' ++ spare') /\
                 (forall s, In s (segs keys' ++ spare') -> s <= cur') /\
                 (forall k b, assoc k keys = Some b -> assoc k keys' = Some b) /\
                 (forall k, In k (map fst keys') <-> In k (map fst keys) \/ In k (map fst ((k0, i0) :: o2))) /\
                 (forall k i, assoc k keys = None -> assoc k ((k0, i0) :: o2) = Some i ->
                              exists s, assoc k keys' = Some (s, i))).
      { intros seg keys1 spare1 cur1 -> H1 Hs1 Hb1.
        assert (Hk1 : NoDup (map fst (keys ++ [(k0, (seg, i0))]))).
        { rewrite map_app. cbn [map fst]. apply NoDup_app_single; assumption. }
        destruct (IH _ _ _ _ _ _ H1 Hk1 Hs1 Hb1) as [A [B [Cc [D [Ee G]]]]].
        split; [exact A|]. split; [exact B|]. split; [exact Cc|].
        split; [intros k b Hkb; apply D; rewrite assoc_app_single, Hkb; reflexivity|].
        split.
        - intros k. split.
          + intros Hin. apply Ee in Hin. rewrite map_app, in_app_iff in Hin. cbn [map fst In] in *.
            destruct Hin as [[Hin|[<-|[]]]|Hin]; [left; exact Hin | right; left; reflexivity | right; right; exact Hin].
          + intros Hin. apply Ee. rewrite map_app, in_app_iff. cbn [map fst In] in *.
            destruct Hin as [Hin|[<-|Hin]]; [left; left; exact Hin | left; right; left; reflexivity | right; exact Hin].
        - intros k i Hn Ho. cbn [assoc] in Ho. destruct (Z.eqb k k0) eqn:Ek.
          + apply Z.eqb_eq in Ek. subst. inversion Ho; subst. exists seg. apply D.
            rewrite assoc_app_single, E, Z.eqb_refl. reflexivity.
          + apply G; [|exact Ho]. rewrite assoc_app_single, Hn, Ek. reflexivity. }
      destruct spare as [|s0 spare]; cbn [fk_next] in H.
      * (* a fresh segment S cur *)
        apply (Common (S cur) _ [] (S cur) eq_refl H).
        { rewrite segs_app, app_nil_r. cbn [segs map seg_of fst snd]. rewrite app_nil_r in Hs.
          apply NoDup_app_single; [exact Hs|]. intros Hin. specialize (Hb (S cur)). rewrite app_nil_r in Hb.
          specialize (Hb Hin). lia. }
        { intros s. rewrite segs_app, app_nil_r, in_app_iff. cbn [segs map seg_of fst snd In].
          intros [Hin|[<-|[]]]; [|lia]. specialize (Hb s). rewrite app_nil_r in Hb. specialize (Hb Hin). lia. }
      * (* a recycled segment s0 *)
        assert (Hp : Permutation (segs (keys ++ [(k0, (s0, i0))]) ++ spare) (segs keys ++ s0 :: spare)).
        { rewrite segs_app. cbn [segs map seg_of fst snd]. rewrite <- app_assoc. cbn [app]. apply Permutation_refl. }
        apply (Common s0 _ spare cur eq_refl H).
        { eapply Permutation_NoDup; [apply Permutation_sym; exact Hp | exact Hs]. }
        { intros s Hin. apply Hb. eapply Permutation_in; [exact Hp | exact Hin]. }
Qed.

(** ---- FieldKeys::new ---- *)
Theorem fk_new_wf ks : NoDup ks -> fk_wf (fk_new ks).
Proof.
  intros Hnd. unfold fk_wf. rewrite (fk_new_keys ks Hnd). cbn [fk_new fk_spare fk_cur].
  assert (Hk : map fst (map (fun ki : key * nat => (fst ki, (snd ki, snd ki))) (enumerate_from 0 ks)) = ks).
  { rewrite map_map. cbn [fst]. apply enumerate_fst. }
  assert (Hs : segs (map (fun ki : key * nat => (fst ki, (snd ki, snd ki))) (enumerate_from 0 ks)) = seq 0 (length ks)).
  { unfold segs. rewrite map_map. unfold seg_of. cbn [fst snd]. apply enumerate_snd. }
  rewrite Hk, Hs, app_nil_r. split; [exact Hnd|]. split; [apply seq_NoDup|].
  intros s Hin. apply in_seq in Hin. lia.
Qed.

Lemma fk_new_get ks i k : NoDup ks -> nth_error ks i = Some k -> fk_get k (fk_new ks) = Some (i, i).
Proof.
  intros Hnd Hn. unfold fk_get. rewrite (fk_new_keys ks Hnd). apply assoc_NoDup_In.
  - rewrite map_map. cbn [fst]. rewrite enumerate_fst. exact Hnd.
  - apply in_map_iff. exists (k, i). split; [reflexivity|]. apply (enumerate_nth 0 ks i k Hn).
Qed.

(** ---- FieldKeys::update, for arbitrary visiting orders ---- *)
Lemma fk_update_ord_spec o1 o2 nk f :
  Permutation o1 (fk_keys f) -> Permutation o2 nk -> NoDup (map fst nk) -> fk_wf f ->
  let f' := fk_update_ord o1 o2 f in
  fk_wf f'
  /\ (forall k s i i', fk_get k f = Some (s, i) -> assoc k nk = Some i' -> fk_get k f' = Some (s, i'))
  /\ (forall k, assoc k nk = None -> fk_get k f' = None)
  /\ (forall k i', fk_get k f = None -> assoc k nk = Some i' -> exists s, fk_get k f' = Some (s, i')).
Proof.
  intros P1 P2 Hnk [Wk [Ws Wb]]. unfold fk_update_ord.
  destruct (fk_retain o2 o1 (fk_spare f)) as [kept spare1] eqn:R.
  destruct (fk_add o2 kept spare1 (fk_cur f)) as [keys' [spare' cur']] eqn:A.
  cbn zeta.
  assert (Hk1 : NoDup (map fst o1)).
  { eapply Permutation_NoDup; [apply Permutation_sym, Permutation_map; exact P1 | exact Wk]. }
  assert (Hnk2 : NoDup (map fst o2)).
  { eapply Permutation_NoDup; [apply Permutation_sym, Permutation_map; exact P2 | exact Hnk]. }
  assert (Ho1 : forall k, assoc k o1 = assoc k (fk_keys f)) by (intros k; apply assoc_perm; assumption).
  assert (Ho2 : forall k, assoc k o2 = assoc k nk) by (intros k; apply assoc_perm; assumption).
  destruct (fk_retain_spec o2 o1 (fk_spare f) kept spare1 R) as [RP [RA [RS RN]]].
  assert (Hseg : Permutation (segs kept ++ spare1) (segs (fk_keys f) ++ fk_spare f)).
  { eapply Permutation_trans; [exact RP|]. apply Permutation_app_tail. unfold segs. apply Permutation_map. exact P1. }
  assert (Hs1 : NoDup (segs kept ++ spare1)).
  { eapply Permutation_NoDup; [apply Permutation_sym; exact Hseg | exact Ws]. }
  assert (Hb1 : forall s, In s (segs kept ++ spare1) -> s <= fk_cur f).
  { intros s Hin. apply Wb. eapply Permutation_in; [exact Hseg | exact Hin]. }
  destruct (fk_add_spec o2 kept spare1 (fk_cur f) keys' spare' cur' A (RN Hk1) Hs1 Hb1)
    as [AK [AS [AB [AD [AE AG]]]]].
  split; [|split; [|split]].
  - unfold fk_wf. cbn [fk_keys fk_spare fk_cur]. auto.
  - intros k s i i' Hg Hn. unfold fk_get in *. cbn [fk_keys]. apply AD.
    rewrite RA, Ho1, Hg, Ho2, Hn. reflexivity.
  - intros k Hn. unfold fk_get. cbn [fk_keys]. apply assoc_None. intros Hin. apply AE in Hin.
    destruct Hin as [Hin|Hin].
    + assert (Hkk : assoc k kept = None).
      { rewrite RA, Ho2, Hn. destruct (assoc k o1) as [[s ?]|]; reflexivity. }
      apply assoc_None in Hkk. exact (Hkk Hin).
    + rewrite <- Ho2 in Hn. apply assoc_None in Hn. exact (Hn Hin).
  - intros k i' Hg Hn. unfold fk_get in *. cbn [fk_keys]. apply AG.
    + rewrite RA, Ho1, Hg. reflexivity.
    + rewrite Ho2. exact Hn.
Qed.

Lemma assoc_enumerate_some l i k :
  NoDup l -> nth_error l i = Some k -> assoc k (enumerate_from 0 l) = Some i.
Proof.
  intros Hnd Hn. apply assoc_NoDup_In; [rewrite enumerate_fst; exact Hnd|].
  apply (enumerate_nth 0 l i k Hn).
Qed.

Lemma assoc_enumerate_none l k : ~ In k l -> assoc k (enumerate_from 0 l) = None.
Proof. intros H. apply assoc_None. rewrite enumerate_fst. exact H. Qed.

Section Update.
  Variables (c1 c2 : list nat) (f : fkeys) (latest : list key).
  Hypothesis Hwf : fk_wf f.
  Hypothesis Hnd : NoDup latest.

  Let spec := fk_update_ord_spec (permute c1 (fk_keys f)) (permute c2 (collect_indexed latest))
                (collect_indexed latest) f (permute_perm c1 _) (permute_perm c2 _).

  Lemma nk_nodup : NoDup (map fst (collect_indexed latest)).
  Proof. rewrite (collect_indexed_nodup latest Hnd), enumerate_fst. exact Hnd. Qed.

  (** the invariant is preserved *)
  Theorem fk_update_wf : fk_wf (fk_update c1 c2 f latest).
  Proof. exact (proj1 (spec nk_nodup Hwf)). Qed.

  (** a key that stays in the collection keeps its segment; its index becomes its new position *)
  Theorem key_segment_stable k s i i' :
    fk_get k f = Some (s, i) -> nth_error latest i' = Some k ->
    fk_get k (fk_update c1 c2 f latest) = Some (s, i').
  Proof.
    intros Hg Hn. apply (proj1 (proj2 (spec nk_nodup Hwf)) k s i i' Hg).
    rewrite (collect_indexed_nodup latest Hnd). apply assoc_enumerate_some; assumption.
  Qed.

  (** a key that leaves the collection is dropped *)
  Theorem key_dropped k : ~ In k latest -> fk_get k (fk_update c1 c2 f latest) = None.
  Proof.
    intros Hn. apply (proj1 (proj2 (proj2 (spec nk_nodup Hwf))) k).
    rewrite (collect_indexed_nodup latest Hnd). apply assoc_enumerate_none. exact Hn.
  Qed.

  (** a key that enters the collection gets a segment and its position *)
  Theorem key_added k i' :
    fk_get k f = None -> nth_error latest i' = Some k ->
    exists s, fk_get k (fk_update c1 c2 f latest) = Some (s, i').
  Proof.
    intros Hg Hn. apply (proj2 (proj2 (proj2 (spec nk_nodup Hwf))) k i' Hg).
    rewrite (collect_indexed_nodup latest Hnd). apply assoc_enumerate_some; assumption.
  Qed.

  (** the recorded index of every live key is the position of that key in the collection:
      AtKeyed's reader and writer reach the item with the reader's key *)
  Theorem index_is_position k s i :
    fk_get k (fk_update c1 c2 f latest) = Some (s, i) -> nth_error latest i = Some k.
  Proof.
    intros Hg. destruct (in_dec Z.eq_dec k latest) as [Hin|Hnin].
    - destruct (In_nth_error _ _ Hin) as [i0 Hi0].
      destruct (fk_get k f) as [[s0 j0]|] eqn:E.
      + rewrite (key_segment_stable k s0 j0 i0 E Hi0) in Hg. inversion Hg; subst. exact Hi0.
      + destruct (key_added k i0 E Hi0) as [s1 H1]. rewrite H1 in Hg. inversion Hg; subst. exact Hi0.
    - rewrite (key_dropped k Hnin) in Hg. discriminate.
  Qed.
End Update.

(** ---- two live keys never share a path segment ---- *)
Lemma NoDup_map_eq {A B} (g : A -> B) (l : list A) x y :
  NoDup (map g l) -> In x l -> In y l -> g x = g y -> x = y.
Proof.
  induction l as [|z l IH]; cbn [map In]; [intros _ []|].
  intros Hnd Hx Hy Heq. inversion Hnd as [|? ? Hnot Hnd']; subst.
  destruct Hx as [->|Hx]; destruct Hy as [->|Hy]; auto.
  - exfalso. apply Hnot. rewrite Heq. apply in_map. exact Hy.
  - exfalso. apply Hnot. rewrite <- Heq. apply in_map. exact Hx.
Qed.

Theorem slots_injective f k1 k2 s i1 i2 :
  fk_wf f -> fk_get k1 f = Some (s, i1) -> fk_get k2 f = Some (s, i2) -> k1 = k2.
Proof.
  intros [Wk [Ws _]] H1 H2. unfold fk_get in *. apply assoc_In in H1. apply assoc_In in H2.
  apply NoDup_app_l in Ws.
  assert (E : (k1, (s, i1)) = (k2, (s, i2))).
  { apply (NoDup_map_eq seg_of (fk_keys f)); [exact Ws | exact H1 | exact H2 | reflexivity]. }
  inversion E. reflexivity.
Qed.

(** ... along every history of contents and all visiting orders *)
Theorem fk_history_wf h : forall cs f,
  fk_wf f -> Forall (@NoDup key) h -> fk_wf (fk_history cs f h).
Proof.
  induction h as [|latest h IH]; intros cs f Hwf Hall; cbn [fk_history]; [exact Hwf|].
  inversion Hall; subst. destruct (hd ([], []) cs) as [c1 c2]. apply IH; [|assumption].
  apply fk_update_wf; assumption.
Qed.

Theorem slots_injective_all_histories h0 h cs k1 k2 s i1 i2 :
  NoDup h0 -> Forall (@NoDup key) h ->
  fk_get k1 (fk_history cs (fk_new h0) h) = Some (s, i1) ->
  fk_get k2 (fk_history cs (fk_new h0) h) = Some (s, i2) ->
  k1 = k2.
Proof.
  intros H0 Hh. apply slots_injective. apply fk_history_wf; [apply fk_new_wf; exact H0 | exact Hh].
Qed.

(** hypotheses satisfiable by a non-trivial history: remove two keys, add three, reorder *)
Example slots_history_nontrivial :
  let f := fk_history [([1; 0], [2; 2]); ([3], [0; 1])] (fk_new [7; 8; 9]%Z)
             [[9; 20; 21; 22]%Z; [22; 9; 30; 20]%Z] in
  fk_get 9%Z f = Some (2, 1) /\ fk_get 7%Z f = None /\
  (exists s, fk_get 30%Z f = Some (s, 2) /\ s <> 2).
Proof. vm_compute. repeat split; try reflexivity. exists 0. split; [reflexivity | discriminate]. Qed.

(** items of two different live keys never wake each other's readers *)
Theorem keyed_items_independent f k1 k2 s1 s2 i1 i2 p t1 t2 :
  fk_wf f -> k1 <> k2 -> fk_get k1 f = Some (s1, i1) -> fk_get k2 f = Some (s2, i2) ->
  wakes (p ++ s1 :: t1) (p ++ s2 :: t2) = false.
Proof.
  intros Hwf Hne H1 H2. apply sibling_never. intros ->. apply Hne.
  exact (slots_injective f k1 k2 s2 i1 i2 Hwf H1 H2).
Qed.

(** ---- the code before the repair 8ee08c9: refuted ---- *)
Example slots_injective_prefix_refuted :
  let f := fk_update [] [] (fk_new_prefix [7; 8; 9]%Z) [7; 8; 9; 20]%Z in
  fk_get 8%Z f = Some (1, 1) /\ fk_get 20%Z f = Some (1, 3).
Proof. vm_compute. split; reflexivity. Qed.

(** ---- nested keyed fields: the FieldKeys below a removed item are forgotten (repair of
    F-C16-l), so the item that takes over the recycled segment starts with fresh keys ---- *)
Lemma starts_with_refl p : starts_with p p = true.
Proof. induction p as [|x p IH]; cbn [starts_with]; [reflexivity|]. rewrite Nat.eqb_refl. exact IH. Qed.

Lemma km_find_remove_below_hit p q m :
  starts_with p q = true -> km_find q (km_remove_below p m) = None.
Proof.
  intros H. unfold km_remove_below. induction m as [|[q' f] m IH]; cbn [filter km_find fst]; [reflexivity|].
  destruct (starts_with p q') eqn:E; cbn [negb km_find].
  - exact IH.
  - destruct (list_eq_dec Nat.eq_dec q q') as [->|Hne]; [congruence | exact IH].
Qed.

Lemma km_find_remove_below_none p q m :
  km_find q m = None -> km_find q (km_remove_below p m) = None.
Proof.
  unfold km_remove_below. induction m as [|[q' f] m IH]; cbn [filter km_find fst]; [reflexivity|].
  destruct (list_eq_dec Nat.eq_dec q q') as [->|Hne]; [discriminate|]. intros H.
  destruct (starts_with p q'); cbn [negb km_find]; [apply IH, H|].
  destruct (list_eq_dec Nat.eq_dec q q') as [->|_]; [congruence | apply IH, H].
Qed.

Lemma km_find_fold_remove_below_none p segs : forall m q,
  km_find q m = None ->
  km_find q (fold_left (fun m seg => km_remove_below (p ++ [seg]) m) segs m) = None.
Proof.
  induction segs as [|s segs IH]; intros m q H; cbn [fold_left]; [exact H|].
  apply IH, km_find_remove_below_none, H.
Qed.

Lemma km_find_fold_remove_below_hit p segs : forall m q seg,
  In seg segs -> starts_with (p ++ [seg]) q = true ->
  km_find q (fold_left (fun m seg => km_remove_below (p ++ [seg]) m) segs m) = None.
Proof.
  induction segs as [|s segs IH]; intros m q seg Hin Hs; cbn [fold_left]; [destruct Hin|].
  destruct Hin as [->|Hin].
  - apply km_find_fold_remove_below_none, km_find_remove_below_hit, Hs.
  - eapply IH; eassumption.
Qed.

(** after update_keys() of the keyed field at [p]: whatever keyed field lies at or below the
    item path [p ++ [seg]] of a key that was removed has no FieldKeys any more - the next
    access creates them afresh from the collection found there *)
Theorem update_keys_forgets_below_removed c1 c2 p latest m f seg q :
  km_find p m = Some f -> In seg (fk_removed f latest) -> starts_with (p ++ [seg]) q = true ->
  km_find q (km_update c1 c2 p latest m) = None.
Proof.
  intros Hf Hin Hs. unfold km_update, km_entry. rewrite Hf.
  eapply km_find_fold_remove_below_hit; eassumption.
Qed.

(** the hypotheses are satisfiable: keys [7; 8] at path [4], a nested keyed field of item 7 at
    [4; 0; 3]; removing key 7 forgets the nested keys, those of item 8 stay *)
Example update_keys_forgets_nontrivial :
  let m := [([4], fk_new [7; 8]%Z); ([4; 0; 3], fk_new [1; 2]%Z); ([4; 1; 3], fk_new [3]%Z)] in
  let m' := km_update [] [] [4] [8]%Z m in
  fk_removed (fk_new [7; 8]%Z) [8]%Z = [0] /\ km_find [4; 0; 3] m' = None /\
  km_find [4; 1; 3] m' = Some (fk_new [3]%Z).
Proof. vm_compute. repeat split; reflexivity. Qed.
