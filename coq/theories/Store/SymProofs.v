(** C16, two consequences of [notified_iff_related]: the wake relation is reflexive (a write
    always wakes the readers of the written field itself) and symmetric (a write at p wakes the
    readers of r exactly when a write at r wakes the readers of p). *)
From Coq Require Import List Arith Bool.
From LV Require Import Store.Paths Store.PathsProofs.
Import ListNotations.

Lemma is_prefix_refl p : is_prefix p p = true.
Proof. induction p as [|x p IH]; cbn [is_prefix]; [reflexivity|]. rewrite Nat.eqb_refl, IH. reflexivity. Qed.

Theorem wakes_self p : wakes p p = true.
Proof. apply notified_iff_related. left. apply is_prefix_refl. Qed.

Theorem wakes_sym p r : wakes p r = wakes r p.
Proof.
  apply Bool.eq_true_iff_eq. rewrite !notified_iff_related. tauto.
Qed.
