From Coq Require Import List Arith Bool Lia.
Import ListNotations.

(* reactive_stores: trigger ids *)
Definition path := list nat.
Inductive trig := This (p : path) | Children (p : path).

Fixpoint prefixes (p : path) : list path :=   (* all prefixes incl. [] and p, root first *)
  [] :: match p with [] => [] | x :: t => map (cons x) (prefixes t) end.
Definition proper_prefixes (p : path) : list path := removelast (prefixes p).

(* triggers_for_path p, in notification order (root first): children of every proper prefix, then children p, this p *)
Definition notified (p : path) : list trig :=
  map Children (proper_prefixes p) ++ [Children p; This p].
(* Subfield::track_field r : this of every prefix (incl. r and root), children r *)
Definition tracked (r : path) : list trig := map This (prefixes r) ++ [Children r].

Fixpoint is_prefix (a b : path) : bool :=
  match a, b with [], _ => true | x :: a, y :: b => Nat.eqb x y && is_prefix a b | _ :: _, [] => false end.

Definition trig_eq_dec : forall a b : trig, {a = b} + {a <> b}.
Proof. decide equality; apply (list_eq_dec Nat.eq_dec). Defined.
Definition wakes (p r : path) : bool := existsb (fun t => if in_dec trig_eq_dec t (tracked r) then true else false) (notified p).

Lemma in_prefixes a b : In a (prefixes b) <-> is_prefix a b = true.
Proof.
  revert a; induction b as [|y b IH]; intros a; simpl.
  - destruct a; simpl; split; intros H; auto; try discriminate. destruct H as [H|[]]; discriminate.
  - destruct a as [|x a]; simpl.
    + split; auto.
    + rewrite in_map_iff. split.
      * intros [H|[c [Hc Hin]]]; [discriminate|]. inversion Hc; subst. rewrite Nat.eqb_refl. simpl. apply IH; auto.
      * intros H. apply andb_true_iff in H as [Hx Ha]. apply Nat.eqb_eq in Hx; subst. right. exists a; split; auto. apply IH; auto.
Qed.
Lemma prefixes_last p : exists l, prefixes p = l ++ [p] /\ forall q, In q l <-> (is_prefix q p = true /\ q <> p).
Proof.
  induction p as [|x p [l [Hl Hin]]]; simpl.
  - exists []; split; auto. intros q; simpl; split; [tauto|]. intros [H1 H2]. destruct q; [congruence|discriminate].
  - exists ([] :: map (cons x) l). split.
    + rewrite Hl. rewrite map_app. reflexivity.
    + intros q. simpl. rewrite in_map_iff. split.
      * intros [<-|[c [<- Hc]]]; [split; [reflexivity|discriminate]|].
        apply Hin in Hc as [H1 H2]. simpl. rewrite Nat.eqb_refl, H1. split; auto. congruence.
      * intros [H1 H2]. destruct q as [|y q]; auto. right. simpl in H1. apply andb_true_iff in H1 as [Hy Hq].
        apply Nat.eqb_eq in Hy; subst. exists q; split; auto. apply Hin. split; auto. congruence.
Qed.
Lemma in_proper a b : In a (proper_prefixes b) <-> (is_prefix a b = true /\ a <> b).
Proof.
  unfold proper_prefixes. destruct (prefixes_last b) as [l [Hl Hin]]. rewrite Hl, removelast_last. apply Hin.
Qed.

Lemma is_prefix_refl p : is_prefix p p = true.
Proof. induction p; simpl; auto. rewrite Nat.eqb_refl; auto. Qed.

Theorem notified_iff_related p r :
  wakes p r = true <-> (is_prefix p r = true \/ is_prefix r p = true).
Proof.
  unfold wakes. rewrite existsb_exists. split.
  - intros [t [Hn Ht]]. destruct (in_dec trig_eq_dec t (tracked r)) as [Hr|]; [|discriminate]. clear Ht.
    unfold notified in Hn. unfold tracked in Hr. rewrite !in_app_iff in *. simpl in *.
    destruct Hn as [Hn|[<-|[<-|[]]]].
    + apply in_map_iff in Hn as [q [<- Hq]]. apply in_proper in Hq as [Hq _].
      destruct Hr as [Hr|[Hr|[]]]; [apply in_map_iff in Hr as [? [? ?]]; discriminate|]. inversion Hr; subst. right; auto.
    + destruct Hr as [Hr|[Hr|[]]]; [apply in_map_iff in Hr as [? [? ?]]; discriminate|]. inversion Hr; subst. left; apply is_prefix_refl.
    + destruct Hr as [Hr|[Hr|[]]]; [|discriminate]. apply in_map_iff in Hr as [q [Hq Hin]]. inversion Hq; subst. left. apply in_prefixes; auto.
  - intros [H|H].
    + exists (This p). split.
      * unfold notified. rewrite in_app_iff. right; simpl; auto.
      * destruct (in_dec trig_eq_dec (This p) (tracked r)) as [|n]; auto. exfalso; apply n.
        unfold tracked. rewrite in_app_iff. left. apply in_map. apply in_prefixes; auto.
    + destruct (list_eq_dec Nat.eq_dec r p) as [->|Hne].
      * exists (This p). split. { unfold notified. rewrite in_app_iff. right; simpl; auto. }
        destruct (in_dec trig_eq_dec (This p) (tracked p)) as [|n]; auto. exfalso; apply n.
        unfold tracked. rewrite in_app_iff. left. apply in_map. apply in_prefixes. apply is_prefix_refl.
      * exists (Children r). split.
        { unfold notified. rewrite in_app_iff. left. apply in_map. apply in_proper. split; auto. }
        destruct (in_dec trig_eq_dec (Children r) (tracked r)) as [|n]; auto. exfalso; apply n.
        unfold tracked. rewrite in_app_iff. right; simpl; auto.
Qed.
Print Assumptions notified_iff_related.
Example sibling_never : wakes [0;1] [0;2] = false. Proof. reflexivity. Qed.
Example ancestor : wakes [0;1;2] [0] = true /\ wakes [0] [0;1;2] = true. Proof. split; reflexivity. Qed.
