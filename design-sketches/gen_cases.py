#!/usr/bin/env python3
"""Emit cases.v: random reactive programs + histories for Graph_prototype_instrumented.v.
usage: gen_cases.py SEED N > cases.v"""
import random, sys
seed=int(sys.argv[1]) if len(sys.argv)>1 else 11
N=int(sys.argv[2]) if len(sys.argv)>2 else 3000
random.seed(seed)
cases=[]
for c in range(N):
    n=random.randint(4,9); nsig=random.randint(1,3)
    kinds=['S']*nsig+['M']*(n-nsig)
    k=random.randint(1,3)
    for i in range(n-k,n):
        if kinds[i]=='M': kinds[i]='E'
    readable=[i for i in range(n) if kinds[i]!='E']
    def ex(i,d):
        cand=[j for j in readable if j<i]
        r=random.random()
        if d==0 or r<0.35:
            if cand and random.random()<0.92:
                j=random.choice(cand)
                return f"(Rd {j})" if random.random()<0.85 else f"(RdU {j})"
            return f"(Const {random.randint(0,3)})"
        if r<0.65: return f"(Add {ex(i,d-1)} {ex(i,d-1)})"
        if r<0.85: return f"(Lt {ex(i,d-1)} {ex(i,d-1)})"
        return f"(Ite {ex(i,d-1)} {ex(i,d-1)} {ex(i,d-1)})"
    nodes=[]
    for i in range(n):
        if kinds[i]=='S': nodes.append(f"mk (KSig {'true' if random.random()<0.5 else 'false'})")
        elif kinds[i]=='M': nodes.append(f"mk (KMemo {ex(i,2)})")
        else: nodes.append(f"mk (KEff {ex(i,3)})")
    ops=[]
    for _ in range(random.randint(8,30)):
        r=random.random()
        if r<0.4: ops.append(f"W {random.randrange(nsig)} {random.randint(0,3)}")
        elif r<0.6: ops.append(f"R {random.choice(readable)}")
        else: ops.append(f"P {random.randrange(n-k,n)}")
    cases.append(("["+"; ".join(nodes)+"]","["+"; ".join(ops)+"]"))
print("Definition cases : list (G * list op) := [")
print(";\n".join(f"({g}, {o})" for g,o in cases)+"].")
