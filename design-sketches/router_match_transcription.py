import itertools, collections, sys
# segment: ('S', str) | ('P', name) | ('O', name) | ('W', name) | ('U',)
def test_static(s, path):
    matched_len=0
    test=list(path); ti=0
    this=list(s); thi=0
    has_matched = (s=="" or s=="/")
    if ti < len(test) and test[ti]=='/':
        ti+=1
        if s!="": matched_len+=1
        if s.startswith('/') or s=="": thi+=1
    while ti < len(test):
        ch=test[ti]; ti+=1
        n = this[thi] if thi < len(this) else None
        thi+=1
        if ch=='/':
            if n is not None: return None
            break
        elif n is None:
            break
        elif ch==n:
            has_matched=True; matched_len+=len(ch.encode())
        else: return None
    if thi < len(this): return None
    if not has_matched: return None
    b=path.encode()
    return (b[:matched_len].decode(), b[matched_len:].decode(), [])
def test_param(name, path, optional=False):
    matched_len=0; po=0; pl=0
    chars=list(path); i=0
    if chars and chars[0]=='/': matched_len=1; po=1
    i=1 if chars else 0
    # note: test.next() consumes first char even if not '/'
    for ch in chars[1:]:
        if ch=='/': break
        matched_len+=len(ch.encode()); pl+=len(ch.encode())
    b=path.encode()
    if not optional:
        if matched_len==0 or (matched_len==1 and path.startswith('/')): return None
        return (b[:matched_len].decode(), b[matched_len:].decode(), [(name, b[po:po+pl].decode())])
    else:
        if matched_len==1 and path.startswith('/'): matched_len=0
        params=[(name, b[po:po+pl].decode())] if matched_len>0 else []
        return (b[:matched_len].decode(), b[matched_len:].decode(), params)
def test_wild(name, path):
    b=path.encode(); po=1 if path.startswith('/') else 0
    # first char consumed by test.next() regardless
    ml = po; pl=0
    for ch in list(path)[1:]:
        ml+=len(ch.encode()); pl+=len(ch.encode())
    if not path.startswith('/') and path:
        pass
    return (b[:ml].decode(errors='ignore'), b[ml:].decode(errors='ignore'), [(name, b[po:po+pl].decode(errors='ignore'))])
def seg_optional(seg):
    if seg[0]=='T': return any(seg_optional(s) for s in seg[1])
    return seg[0]=='O'
def seg_test(seg, path):
    k=seg[0]
    if k=='S': return test_static(seg[1], path)
    if k=='P': return test_param(seg[1], path)
    if k=='O': return test_param(seg[1], path, True)
    if k=='W': return test_wild(seg[1], path)
    if k=='U': return ("", path, [])
    if k=='T':
        segs=seg[1]
        if len(segs)==1:
            r=seg_test(segs[0], path)
            return r
        include=sum(1 for s in segs if seg_optional(s))
        while True:
            nth=0; r=path; p=[]; mlen=0; restart=False
            first=segs[0]
            if seg_optional(first): nth+=1
            if (not seg_optional(first)) or nth<=include:
                m=seg_test(first, r)
                if m is None: return None
                p+=m[2]; mlen+=len(m[0].encode()); r=m[1]
            for s in segs[1:]:
                if seg_optional(s): nth+=1
                if (not seg_optional(s)) or nth<=include:
                    m=seg_test(s, r)
                    if m is None:
                        if seg_optional(s): return None
                        if include==0: return None
                        include-=1; restart=True; break
                    r=m[1]; mlen+=len(m[0].encode()); p+=m[2]
            if restart: continue
            return (path.encode()[:mlen].decode(), r, p)
def gen_path(seg, out):
    k=seg[0]
    if k=='T':
        for s in seg[1]: gen_path(s,out)
    elif k=='U': pass
    else: out.append(seg)
# nested route: ('R', seg, children or None) ; children = list of routes
def route_optional(rt):
    _,seg,ch=rt
    return seg_optional(seg) and (all_optional(ch) if ch is not None else True)
def all_optional(children):
    # tuple of children: Either-choice: optional() of a tuple of routes = ? (nested/tuples.rs) assume any
    return any(route_optional(c) for c in children)
def match_nested(rt, path):
    _,seg,children=rt
    this_opt=seg_optional(seg)
    m=seg_test(seg, path)
    if m is None: return (None, path)
    matched, remaining, params = m
    inner=None; fallback=False
    if children is not None:
        inn, rem = match_children(children, remaining)
        if inn is not None:
            inner=inn; remaining=rem
        elif this_opt:
            inn, rem = match_children(children, path)
            if inn is None: return (None, path)
            inner=inn; remaining=rem; fallback=True
        else:
            return (None, path)
    if fallback:
        im = inner['matched'] if inner else ""
        suffix = im+remaining
        rematch=path
        if suffix:
            while rematch.endswith(suffix): rematch=rematch[:-len(suffix)]
        nm=seg_test(seg, rematch)
        if nm is None: return ('PANIC', path)
        params=nm[2]
    inner_params = inner['params'] if inner else []
    if remaining=="" or remaining=="/":
        return ({'matched':matched,'params':params+inner_params,'child':inner,'route':rt}, remaining)
    return (None, path)
def match_children(children, path):
    for c in children:
        m,rem=match_nested(c, path)
        if m=='PANIC': return ('PANIC', path)
        if m is not None: return (m, rem)
    return (None, path)
def match_route(children, path):
    m,rem=match_children(children, path)
    if m is None or m=='PANIC': return m
    if not (rem=="" or rem=="/"): return None
    return m
def generate(rt):
    _,seg,children=rt
    segs=[]; gen_path(seg,segs)
    if children is None: return [segs]
    out=[]
    for c in children:
        for cs in generate(c): out.append(segs+cs)
    return out
def expand(segs):
    for i,s in enumerate(segs):
        if s[0]=='O':
            return expand(segs[:i]+segs[i+1:]) + expand(segs[:i]+[('P',s[1])]+segs[i+1:])
    return [segs]
def flat_match(segs, path):
    # independent spec: component-wise
    comps=[]
    for s in segs:
        if s[0]=='S':
            comps += [('S',c) for c in s[1].split('/') if c!='']
        else: comps.append(s)
    if not path.startswith('/'): return False
    parts=path[1:].split('/')
    if parts and parts[-1]=='': parts=parts[:-1]   # one trailing slash tolerated
    if any(p=='' for p in parts) : 
        # empty interior segments only ok under a wildcard
        pass
    i=0
    for c in comps:
        if c[0]=='W': return True
        if i>=len(parts): return False
        if parts[i]=='': return False
        if c[0]=='S':
            if parts[i]!=c[1]: return False
        i+=1
    return i==len(parts)
def flat_any(children, path):
    for rt in children:
        for segs in generate(rt):
            for e in expand(segs):
                if flat_match(e, path): return True
    return False

if __name__=='__main__':
    atoms=[('S','a'),('S','b'),('S','ab'),('S',''),('S','/'),('S','/a'),('P','x'),('O','y'),('W','w')]
    shapes=[]
    for n in (1,2,3):
        for t in itertools.product(atoms, repeat=n):
            # wildcard only last
            if any(s[0]=='W' for s in t[:-1]): continue
            shapes.append(('T', list(t)))
    paths=['']
    for n in range(1,7):
        for t in itertools.product('/ab', repeat=n): paths.append(''.join(t))
    buckets=collections.Counter(); ex={}
    total=0
    for sh in shapes:
        children=[('R', sh, None)]
        for p in paths:
            total+=1
            m=match_route(children,p)
            f=flat_any(children,p)
            got = (m is not None and m!='PANIC')
            if m=='PANIC': key='panic'
            elif got and not f:
                key='impl-matches-flat-does-not'
            elif f and not got: key='flat-matches-impl-does-not'
            else: continue
            # sub-classify
            if not p.startswith('/'): key+=':no-leading-slash'
            elif '//' in p: key+=':double-slash'
            else: key+=':plain'
            buckets[key]+=1
            ex.setdefault(key,[])
            if len(ex[key])<6: ex[key].append((sh[1],p))
    print('total',total)
    for k,v in buckets.most_common(): 
        print(k,v)
        for e in ex[k]: print('    ',e)
