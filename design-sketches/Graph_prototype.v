From Coq Require Import List ZArith Bool Lia.
Import ListNotations.
Open Scope Z_scope.

(* ---------- static description ---------- *)
Inductive expr :=
| Const (z : Z) | Rd (n : nat) | RdU (n : nat)
| Add (a b : expr) | Lt (a b : expr) | Ite (c a b : expr).

Inductive kind := KSig (take : bool) | KMemo (e : expr) | KEff (e : expr).

Inductive nstate := Clean | Check | Dirty.
Definition nstate_eqb a b := match a, b with Clean,Clean | Check,Check | Dirty,Dirty => true | _,_ => false end.

Record node := {
  nk : kind;
  sval : Z;                       (* signal value *)
  subs : list nat;                (* ordered subscriber set *)
  st : nstate;                    (* memo state *)
  cache : option Z;               (* memo value *)
  srcs : list nat;                (* sources, duplicates allowed *)
  rlog : list (nat * Z * bool);   (* ghost: reads of last run, bool = tracked *)
  runs : nat;                     (* ghost: invocation counter *)
  edirty : bool; eflag : bool     (* effect: dirty flag, channel flag *)
}.
Definition G := list node.

Definition dflt : node := {| nk := KSig false; sval := 0; subs := []; st := Clean; cache := None;
  srcs := []; rlog := []; runs := 0; edirty := false; eflag := false |}.
Definition get (g : G) i := nth i g dflt.
Fixpoint setn (g : G) (i : nat) (x : node) : G :=
  match g, i with [], _ => [] | _ :: t, O => x :: t | h :: t, S i => h :: setn t i x end.
Definition upd_node g i (f : node -> node) := setn g i (f (get g i)).

Definition w_subs n v := {| nk := nk n; sval := sval n; subs := v; st := st n; cache := cache n; srcs := srcs n; rlog := rlog n; runs := runs n; edirty := edirty n; eflag := eflag n |}.
Definition w_st n v := {| nk := nk n; sval := sval n; subs := subs n; st := v; cache := cache n; srcs := srcs n; rlog := rlog n; runs := runs n; edirty := edirty n; eflag := eflag n |}.
Definition w_sval n v := {| nk := nk n; sval := v; subs := subs n; st := st n; cache := cache n; srcs := srcs n; rlog := rlog n; runs := runs n; edirty := edirty n; eflag := eflag n |}.
Definition w_cache n v := {| nk := nk n; sval := sval n; subs := subs n; st := st n; cache := v; srcs := srcs n; rlog := rlog n; runs := runs n; edirty := edirty n; eflag := eflag n |}.
Definition w_srcs n v := {| nk := nk n; sval := sval n; subs := subs n; st := st n; cache := cache n; srcs := v; rlog := rlog n; runs := runs n; edirty := edirty n; eflag := eflag n |}.
Definition w_rlog n v := {| nk := nk n; sval := sval n; subs := subs n; st := st n; cache := cache n; srcs := srcs n; rlog := v; runs := runs n; edirty := edirty n; eflag := eflag n |}.
Definition w_runs n v := {| nk := nk n; sval := sval n; subs := subs n; st := st n; cache := cache n; srcs := srcs n; rlog := rlog n; runs := v; edirty := edirty n; eflag := eflag n |}.
Definition w_edirty n v := {| nk := nk n; sval := sval n; subs := subs n; st := st n; cache := cache n; srcs := srcs n; rlog := rlog n; runs := runs n; edirty := v; eflag := eflag n |}.
Definition w_eflag n v := {| nk := nk n; sval := sval n; subs := subs n; st := st n; cache := cache n; srcs := srcs n; rlog := rlog n; runs := runs n; edirty := edirty n; eflag := v |}.

Definition is_memo g i := match nk (get g i) with KMemo _ => true | _ => false end.
Definition is_eff g i := match nk (get g i) with KEff _ => true | _ => false end.

(* SubscriberSet *)
Definition subscribe (l : list nat) (s : nat) := if existsb (Nat.eqb s) l then l else l ++ [s].
Fixpoint unsubscribe (l : list nat) (s : nat) := match l with [] => [] | h :: t => if Nat.eqb h s then t else h :: unsubscribe t s end.

(* ---------- push phase ---------- *)
(* mark_check on a subscriber *)
Fixpoint mark_check (f : nat) (g : G) (i : nat) : G :=
  match f with O => g | S f =>
    match nk (get g i) with
    | KMemo _ =>
        let g := if nstate_eqb (st (get g i)) Dirty then g else upd_node g i (fun n => w_st n Check) in
        fold_left (mark_check f) (subs (get g i)) g
    | KEff _ => upd_node g i (fun n => w_eflag n true)
    | KSig _ => g
    end
  end.
(* mark_dirty on a subscriber *)
Definition mark_dirty (f : nat) (g : G) (i : nat) : G :=
  match nk (get g i) with
  | KMemo _ => let g := upd_node g i (fun n => w_st n Dirty) in
               fold_left (mark_check f) (subs (get g i)) g
  | KEff _ => upd_node g i (fun n => w_eflag (w_edirty n true) true)
  | KSig _ => g
  end.
Definition notify (f : nat) (g : G) (s : nat) : G :=
  match nk (get g s) with
  | KSig take =>
      let ss := subs (get g s) in
      let g := if take then upd_node g s (fun n => w_subs n []) else g in
      fold_left (mark_dirty f) ss g
  | _ => g
  end.
Definition write f g s v := notify f (upd_node g s (fun n => w_sval n v)) s.

(* ---------- pull phase ---------- *)
Definition clear_sources (g : G) (i : nat) : G :=
  let g := fold_left (fun g s => upd_node g s (fun n => w_subs n (unsubscribe (subs n) i))) (srcs (get g i)) g in
  upd_node g i (fun n => w_srcs n []).

Definition track (g : G) (obs : option (nat * bool)) (j : nat) : G :=
  match obs with
  | Some (o, false) =>
      let g := upd_node g o (fun n => w_srcs n (srcs n ++ [j])) in
      upd_node g j (fun n => w_subs n (subscribe (subs n) o))
  | _ => g
  end.
Definition log_read (g : G) (obs : option (nat * bool)) (j : nat) (v : Z) : G :=
  match obs with
  | Some (o, u) => upd_node g o (fun n => w_rlog n (rlog n ++ [(j, v, negb u)]))
  | None => g
  end.
Definition obs_is (obs : option (nat * bool)) (i : nat) := match obs with Some (o, _) => Nat.eqb o i | None => false end.

Fixpoint upd (f : nat) (g : G) (obs : option (nat * bool)) (i : nat) {struct f} : G * bool :=
  match f with O => (g, false) | S f =>
  match nk (get g i) with
  | KSig _ => (g, false)
  | KEff _ => (g, false)
  | KMemo e =>
      let n := get g i in
      let '(g, need) :=
        match st n with
        | Clean => (g, false)
        | Dirty => (g, true)
        | Check =>
            (fix any (l : list nat) (g : G) : G * bool :=
               match l with
               | [] => (g, false)
               | s :: l => let '(g, c) := upd f g obs s in
                           if c || nstate_eqb (st (get g i)) Dirty then (g, true) else any l g
               end) (srcs n) g
        end in
      if need then
        let old := cache (get g i) in
        let g := clear_sources g i in
        let g := upd_node g i (fun n => w_runs (w_rlog n []) (S (runs n))) in
        let '(g, v) := eval f g (Some (i, false)) e in
        let changed := match old with Some o => negb (Z.eqb o v) | None => true end in
        let g := upd_node g i (fun n => w_st (w_cache n (Some v)) Clean) in
        let g := if changed then
                   fold_left (fun g s => if obs_is obs s then g else mark_dirty f g s) (subs (get g i)) g
                 else g in
        (g, changed)
      else (upd_node g i (fun n => w_st n Clean), false)
  end end
with eval (f : nat) (g : G) (obs : option (nat * bool)) (e : expr) {struct f} : G * Z :=
  match f with O => (g, 0) | S f =>
  match e with
  | Const z => (g, z)
  | Rd j => read f g obs j
  | RdU j => let '(g, v) := read f g (match obs with Some (o, _) => Some (o, true) | None => None end) j in (g, v)
  | Add a b => let '(g, x) := eval f g obs a in let '(g, y) := eval f g obs b in (g, x + y)
  | Lt a b => let '(g, x) := eval f g obs a in let '(g, y) := eval f g obs b in (g, if Z.ltb x y then 1 else 0)
  | Ite c a b => let '(g, x) := eval f g obs c in if Z.eqb x 0 then eval f g obs b else eval f g obs a
  end end
with read (f : nat) (g : G) (obs : option (nat * bool)) (j : nat) {struct f} : G * Z :=
  match f with O => (g, 0) | S f =>
  match nk (get g j) with
  | KSig _ => let g := track g obs j in let v := sval (get g j) in (log_read g obs j v, v)
  | KMemo _ =>
      let g := track g obs j in
      (* untrack hides the observer from Observer::is as well: Observer::take sets OBSERVER to None *)
      let obs' := match obs with Some (_, true) => None | o => o end in
      let '(g, _) := upd f g obs' j in
      let v := match cache (get g j) with Some v => v | None => 0 end in
      (log_read g obs j v, v)
  | KEff _ => (g, 0)
  end end.

(* ---------- effects: one poll of the task loop ---------- *)
Definition eff_update_if_necessary f g i : G * bool :=
  if edirty (get g i) then (upd_node g i (fun n => w_edirty n false), true)
  else (fix any (l : list nat) (g : G) : G * bool :=
          match l with [] => (g, false)
          | s :: l => let '(g, c) := upd f g (Some (i, false)) s in if c then (g, true) else any l g end)
       (srcs (get g i)) g.

Fixpoint poll (f : nat) (g : G) (i : nat) : G :=
  match f with O => g | S f' =>
  if eflag (get g i) then
    let g := upd_node g i (fun n => w_eflag n false) in
    let '(g, need) := eff_update_if_necessary f g i in
    let first := Nat.eqb (runs (get g i)) 0 in
    let g := if need || first then
      match nk (get g i) with KEff e =>
        let g := clear_sources g i in
        let g := upd_node g i (fun n => w_runs (w_rlog n []) (S (runs n))) in
        fst (eval f g (Some (i, false)) e)
      | _ => g end else g in
    poll f' g i
  else g end.

(* ---------- spec ---------- *)
Fixpoint spec (f : nat) (g : G) (e : expr) : Z :=
  match f with O => 0 | S f =>
  let rd j := match nk (get g j) with KSig _ => sval (get g j) | KMemo e => spec f g e | KEff _ => 0 end in
  match e with
  | Const z => z | Rd j => rd j | RdU j => rd j
  | Add a b => spec f g a + spec f g b
  | Lt a b => if Z.ltb (spec f g a) (spec f g b) then 1 else 0
  | Ite c a b => if Z.eqb (spec f g c) 0 then spec f g b else spec f g a
  end end.

Definition cur (g : G) (j : nat) : Z :=
  match nk (get g j) with KSig _ => sval (get g j) | _ => match cache (get g j) with Some v => v | None => 0 end end.
(* consistency of an effect/memo log against current values of tracked reads *)
Definition consistent (g : G) (i : nat) : bool :=
  forallb (fun '(j, v, tr) => negb tr || Z.eqb (cur g j) v) (rlog (get g i)).

Definition mk k := {| nk := k; sval := 1; subs := []; st := Dirty; cache := None; srcs := []; rlog := []; runs := 0; edirty := true; eflag := true |}.
Definition F := 200%nat.

(* the lost-update witness: s -> m2 -> m3, effect reads m3 then m2 *)
Definition g0 : G := [mk (KSig false); mk (KMemo (Add (Rd 0) (Rd 0))); mk (KMemo (Lt (Const 0) (Rd 1))); mk (KEff (Add (Rd 2) (Rd 1)))].
Definition g1 := poll F g0 3.
Definition g2 := write F g1 0 2.
Definition g3 := poll F g2 3.
Eval vm_compute in (rlog (get g1 3), runs (get g1 3)).
Eval vm_compute in (eflag (get g2 3), map st g2).
Eval vm_compute in (rlog (get g3 3), runs (get g3 3), eflag (get g3 3), consistent g3 3, cur g3 1).
(* reversed read order *)
Definition h0 : G := [mk (KSig false); mk (KMemo (Add (Rd 0) (Rd 0))); mk (KMemo (Lt (Const 0) (Rd 1))); mk (KEff (Add (Rd 1) (Rd 2)))].
Definition h3 := poll F (write F (poll F h0 3) 0 2) 3.
Eval vm_compute in (rlog (get h3 3), runs (get h3 3), consistent h3 3).
