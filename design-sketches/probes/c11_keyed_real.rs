use tachys::{renderer::dom::{Dom, Node, Kind}, view::{keyed::keyed, Render, Mountable}};
fn texts(n: &Node) -> Vec<String> { n.0.borrow().children.iter().map(|c| { let d = c.0.borrow(); match d.kind { Kind::Text => d.text.clone(), Kind::Comment => "M".into(), _ => "?".into() } }).collect() }
fn ids(n: &Node) -> Vec<(String,u64)> { n.0.borrow().children.iter().filter(|c| c.0.borrow().kind == Kind::Text).map(|c| (c.0.borrow().text.clone(), c.id())).collect() }
fn mk(items: Vec<usize>) -> impl Render {
    fn key(k: &usize) -> usize { *k }
    fn view(_i: usize, k: usize) -> (fn(usize), String) { (|_| {}, k.to_string()) }
    keyed(items, key as fn(&usize) -> usize, view as fn(usize, usize) -> (fn(usize), String))
}
fn perms(alpha: usize, n: usize, cur: &mut Vec<usize>, out: &mut Vec<Vec<usize>>) {
    if cur.len() == n { out.push(cur.clone()); return; }
    for k in 0..alpha { if !cur.contains(&k) { cur.push(k); perms(alpha, n, cur, out); cur.pop(); } }
}
fn main() {
    let l: usize = std::env::args().nth(1).unwrap().parse().unwrap();
    let a: usize = std::env::args().nth(2).unwrap().parse().unwrap();
    let mut tos = vec![];
    for n in 0..=l { perms(a, n, &mut vec![], &mut tos); }
    for nf in 0..=l {
        let from: Vec<usize> = (0..nf).collect();
        for to in &tos {
            let parent = Dom::create_element("ul", None);
            let post = Dom::create_text_node("T"); Dom::insert_node(&parent, &post.0, None);
            let mut st = mk(from.clone()).build();
            st.mount(&parent, Some(&post.0));
            let before = ids(&parent.0);
            let r = std::panic::catch_unwind(std::panic::AssertUnwindSafe(|| mk(to.clone()).rebuild(&mut st)));
            let after = ids(&parent.0);
            let kept = after.iter().filter(|(t, id)| t != "T" && before.iter().any(|(t2, id2)| t2 == t && id2 == id)).count();
            println!("{:?} {:?} {} {:?} kept={}", from, to, if r.is_err() { "PANIC" } else { "ok" }, texts(&parent.0), kept);
        }
    }
}
