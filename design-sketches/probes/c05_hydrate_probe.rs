use tachys::{html::element::{p, span, br, ElementChild}, renderer::dom::{Dom, Node, Kind, Element}, view::{Render, RenderHtml, Mountable, any_view::{AnyView, IntoAny}}};
use either_of::Either;

fn ser(n: &Node) -> String {
    let d = n.0.borrow();
    match &d.kind {
        Kind::Text => format!("{:?}", d.text),
        Kind::Comment => "<!>".into(),
        Kind::Element { .. } | Kind::Fragment => {
            let tag: String = match &d.kind { Kind::Element { tag, .. } => tag.clone(), _ => "#frag".into() };
            format!("<{tag}>{}</{tag}>", d.children.iter().map(ser).collect::<Vec<_>>().join(""))
        }
    }
}
fn count(n: &Node) -> usize { 1 + n.0.borrow().children.iter().map(count).sum::<usize>() }
fn ids(n: &Node, out: &mut Vec<u64>) { out.push(n.id()); for c in n.0.borrow().children.iter() { ids(c, out); } }

// minimal HTML parser for the subset tachys emits: <tag>, </tag>, <br>, text with &lt; &gt; &amp; &quot;, comments <!> / <!--x-->
fn parse_into(parent: &Element, html: &str) {
    let b: Vec<char> = html.chars().collect();
    let mut i = 0; let mut stack: Vec<Element> = vec![parent.clone()];
    let mut text = String::new();
    fn flush(text: &mut String, stack: &Vec<Element>) { if !text.is_empty() { let t = Dom::create_text_node(&decode(text)); Dom::insert_node(stack.last().unwrap(), &t.0, None); text.clear(); } }
    fn decode(s: &str) -> String { s.replace("&lt;", "<").replace("&gt;", ">").replace("&quot;", "\"").replace("&amp;", "&") }
    while i < b.len() {
        if b[i] == '<' {
            if i + 1 < b.len() && b[i+1] == '!' {
                flush(&mut text, &stack);
                // comment: <!> or <!--...-->
                let end = if b[i+2..].starts_with(&['-','-']) { let mut j = i + 4; while !(b[j] == '-' && b[j+1] == '-' && b[j+2] == '>') { j += 1; } j + 3 } else { let mut j = i + 2; while b[j] != '>' { j += 1; } j + 1 };
                let c = Dom::create_placeholder(); Dom::insert_node(stack.last().unwrap(), &c.0, None);
                i = end;
            } else if i + 1 < b.len() && b[i+1] == '/' {
                flush(&mut text, &stack);
                let mut j = i; while b[j] != '>' { j += 1; }
                stack.pop(); i = j + 1;
            } else {
                flush(&mut text, &stack);
                let mut j = i + 1; while b[j] != '>' && b[j] != ' ' { j += 1; }
                let tag: String = b[i+1..j].iter().collect();
                while b[j] != '>' { j += 1; }
                let el = Dom::create_element(&tag, None);
                Dom::insert_node(stack.last().unwrap(), &el.0, None);
                if tag != "br" { stack.push(el); }
                i = j + 1;
            }
        } else { text.push(b[i]); i += 1; }
    }
    flush(&mut text, &stack);
}

struct Rng(u64);
impl Rng { fn next(&mut self) -> u64 { self.0 ^= self.0 << 13; self.0 ^= self.0 >> 7; self.0 ^= self.0 << 17; self.0 } fn below(&mut self, n: u64) -> u64 { self.next() % n } }
fn gen_str(r: &mut Rng) -> String { let e = std::env::var("NOEMPTY").is_ok(); [if e { "z" } else { "" }, "a", "b<", " c "][r.below(4) as usize].to_string() }
fn gen(r: &mut Rng, d: u32) -> AnyView {
    match r.below(if d == 0 { 3 } else { 9 }) {
        0 => gen_str(r).into_any(),
        1 => ().into_any(),
        2 => br().into_any(),
        3 => p().child(gen(r, d - 1)).into_any(),
        4 => span().child((gen(r, d - 1), gen(r, d - 1))).into_any(),
        5 => (gen(r, d - 1), gen(r, d - 1), gen(r, d - 1)).into_any(),
        6 => (if r.below(2) == 0 { Some(gen(r, d - 1)) } else { None }).into_any(),
        7 => (0..r.below(3)).map(|_| gen(r, d - 1)).collect::<Vec<_>>().into_any(),
        _ => (if r.below(2) == 0 { Either::Left(gen(r, d - 1)) } else { Either::Right((gen_str(r), gen_str(r))) }).into_any(),
    }
}

fn main() {
    let seed: u64 = std::env::args().nth(1).and_then(|s| s.parse().ok()).unwrap_or(1);
    let n: u64 = std::env::args().nth(2).and_then(|s| s.parse().ok()).unwrap_or(1000);
    let (mut bad, mut shown) = (0, 0);
    for case in 0..n {
        let s0 = seed.wrapping_mul(0x9E3779B97F4A7C15).wrapping_add(case * 7919 + 1) | 1;
        let html = p().child(gen(&mut Rng(s0), 3)).to_html();
        let root = Dom::create_element("div", None);
        parse_into(&root, &html);
        let before = ser(&root.0); let nb = count(&root.0); let mut idb = vec![]; ids(&root.0, &mut idb);
        let view = p().child(gen(&mut Rng(s0), 3));
        let res = std::panic::catch_unwind(std::panic::AssertUnwindSafe(|| view.hydrate_from::<true>(&root)));
        let after = ser(&root.0); let na = count(&root.0); let mut ida = vec![]; ids(&root.0, &mut ida);
        // CSR twin
        let root2 = Dom::create_element("div", None);
        let mut st2 = p().child(gen(&mut Rng(s0), 3)).build(); st2.mount(&root2, None);
        let csr = ser(&root2.0).replace("<!>", "");
        let mut problems = vec![];
        match res { Err(_) => problems.push("hydrate panicked".to_string()), Ok(_) => {} }
        if idb != ida { problems.push(format!("node set changed ({nb} -> {na})")); }
        if after.replace("<!>", "") != csr { problems.push("differs from CSR twin (markers aside)".into()); }
        if !problems.is_empty() { bad += 1; if shown < 8 { shown += 1; println!("CASE {case}: {problems:?}\n  html   {html}\n  parsed {before}\n  after  {after}\n  csr    {csr}"); } }
    }
    println!("cases {n} bad {bad}");
}
