use leptos::prelude::*;
use leptos::tachys::view::{RenderHtml, any_view::IntoAny};
use futures::{channel::oneshot, Stream};
use std::{pin::Pin, sync::Arc, task::{Context, Poll, Wake, Waker}};

#[derive(Clone, Debug, PartialEq)]
struct Tag(u32);
struct Nop; impl Wake for Nop { fn wake(self: Arc<Self>) {} }

fn tag() -> String { match use_context::<Tag>() { Some(Tag(n)) => format!("T{n}"), None => "NONE".into() } }

fn app(n: u32, rx1: oneshot::Receiver<()>, rx2: oneshot::Receiver<()>) -> impl IntoView {
    provide_context(Tag(n));
    let sig = RwSignal::new(n); // arena item under this request's owner
    view! {
        <main>
            <p>{tag()}</p>
            <Suspense fallback=|| "loading">
                {Suspend::new(async move { let _ = rx1.await; let t = tag(); let s = sig.try_get_untracked(); view! { <span>{t}":"{format!("{s:?}")}</span> } })}
            </Suspense>
            {Suspend::new(async move { let _ = rx2.await; let t = tag(); view! { <em>{t}</em> } })}
            <i>{move || tag()}</i>
        </main>
    }
}

fn start(n: u32) -> (Owner, Pin<Box<dyn Stream<Item = String> + Send>>, Vec<oneshot::Sender<()>>) {
    let owner = Owner::new_root(None);
    let (tx1, rx1) = oneshot::channel(); let (tx2, rx2) = oneshot::channel();
    let stream = owner.with(|| Box::pin(app(n, rx1, rx2).into_view().to_html_stream_in_order()) as Pin<Box<dyn Stream<Item = String> + Send>>);
    (owner, stream, vec![tx1, tx2])
}
fn poll_all(s: &mut Pin<Box<dyn Stream<Item = String> + Send>>, out: &mut String, done: &mut bool) {
    let w = Waker::from(Arc::new(Nop)); let mut cx = Context::from_waker(&w);
    loop { match s.as_mut().poll_next(&mut cx) { Poll::Ready(Some(c)) => out.push_str(&c), Poll::Ready(None) => { *done = true; break; } Poll::Pending => break } }
}
fn tick() { for _ in 0..3 { any_spawner::Executor::poll_local(); std::thread::sleep(std::time::Duration::from_millis(5)); } }

fn main() {
    any_spawner::Executor::init_futures_executor().unwrap();
    // solo renders
    let mut solo = vec![];
    for n in [1, 2] {
        let (owner, mut s, txs) = start(n);
        let (mut out, mut done) = (String::new(), false);
        poll_all(&mut s, &mut out, &mut done);
        for tx in txs { let _ = tx.send(()); tick(); poll_all(&mut s, &mut out, &mut done); }
        for _ in 0..5 { tick(); poll_all(&mut s, &mut out, &mut done); }
        println!("solo {n} done={done}: {out}");
        solo.push(out); drop(owner);
    }
    // interleaved
    let (o1, mut s1, mut t1) = start(1);
    let (o2, mut s2, mut t2) = start(2);
    let (mut out1, mut out2, mut d1, mut d2) = (String::new(), String::new(), false, false);
    poll_all(&mut s1, &mut out1, &mut d1); poll_all(&mut s2, &mut out2, &mut d2);
    let _ = t2.remove(0).send(()); tick(); poll_all(&mut s1, &mut out1, &mut d1); poll_all(&mut s2, &mut out2, &mut d2);
    let _ = t1.remove(0).send(()); tick(); poll_all(&mut s2, &mut out2, &mut d2); poll_all(&mut s1, &mut out1, &mut d1);
    let _ = t1.remove(0).send(()); tick(); poll_all(&mut s2, &mut out2, &mut d2); poll_all(&mut s1, &mut out1, &mut d1);
    let _ = t2.remove(0).send(()); for _ in 0..5 { tick(); poll_all(&mut s1, &mut out1, &mut d1); poll_all(&mut s2, &mut out2, &mut d2); }
    println!("inter 1 done={d1} same={}: {out1}", out1 == solo[0]);
    println!("inter 2 done={d2} same={}: {out2}", out2 == solo[1]);
    drop((o1, o2));
}
