use any_spawner::Executor;
use reactive_graph::{effect::Effect, owner::Owner, prelude::*};
use reactive_stores::Store;
use std::sync::{Arc, Mutex};

#[derive(Debug, Clone, Default, Store)]
struct A { x: i32, b: B, c: C }
#[derive(Debug, Clone, Default, Store)]
struct B { y: i32, d: D }
#[derive(Debug, Clone, Default, Store)]
struct C { z: i32 }
#[derive(Debug, Clone, Default, Store)]
struct D { w: i32, v: i32 }

fn tick() { futures_block(); }
fn futures_block() { Executor::poll_local(); std::thread::sleep(std::time::Duration::from_millis(15)); }

fn main() {
    Executor::init_futures_executor().unwrap();
    let owner = Owner::new(); owner.set();
    let store = Store::new(A::default());
    let log: Arc<Mutex<Vec<&'static str>>> = Arc::new(Mutex::new(vec![]));
    macro_rules! watch { ($name:expr, $field:expr) => {{ let log = log.clone(); let f = $field; Effect::new_isomorphic(move |_: Option<()>| { f.track(); log.lock().unwrap().push($name); }); }} }
    watch!("root", store);
    watch!("x", store.x());
    watch!("b", store.b());
    watch!("b.y", store.b().y());
    watch!("b.d", store.b().d());
    watch!("b.d.w", store.b().d().w());
    watch!("b.d.v", store.b().d().v());
    watch!("c", store.c());
    watch!("c.z", store.c().z());
    tick();
    log.lock().unwrap().clear();
    macro_rules! wr { ($name:expr, $e:expr) => {{ $e; tick(); let mut l = log.lock().unwrap().clone(); println!("write {:6} -> notified in wake order {:?}", $name, l); l.clear(); log.lock().unwrap().clear(); }} }
    wr!("root", store.write().x = 1);
    wr!("x", *store.x().write() = 2);
    wr!("b", store.b().write().y = 3);
    wr!("b.y", *store.b().y().write() = 4);
    wr!("b.d", store.b().d().write().w = 5);
    wr!("b.d.w", *store.b().d().w().write() = 6);
    wr!("c.z", *store.c().z().write() = 7);
}
