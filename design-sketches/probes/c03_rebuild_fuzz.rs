use tachys::{html::element::{p, span, ElementChild}, renderer::dom::{Dom, Node, Kind}, view::{keyed::keyed, Render, Mountable, iterators::StaticVec, any_view::{AnyView, IntoAny}}};
use either_of::Either;

fn ser(n: &Node) -> String {
    let d = n.0.borrow();
    match &d.kind {
        Kind::Text => format!("{:?}", d.text),
        Kind::Comment => "<!>".into(),
        Kind::Element { .. } | Kind::Fragment => {
            let tag: String = match &d.kind { Kind::Element { tag, .. } => tag.clone(), _ => "#frag".into() };
            let attrs: String = d.attrs.iter().map(|(k,v)| format!(" {k}={v:?}")).collect();
            format!("<{tag}{attrs}>{}</{tag}>", d.children.iter().map(ser).collect::<Vec<_>>().join(""))
        }
    }
}
fn strip(s: &str) -> String { s.replace("<!>", "") }

struct Rng(u64);
impl Rng { fn next(&mut self) -> u64 { self.0 ^= self.0 << 13; self.0 ^= self.0 >> 7; self.0 ^= self.0 << 17; self.0 } fn below(&mut self, n: u64) -> u64 { self.next() % n } }

fn gen_str(r: &mut Rng) -> String { ["", "a", "b", "cc"][r.below(4) as usize].to_string() }
fn gen_any(r: &mut Rng, d: u32) -> AnyView {
    match { let k = r.below(if d == 0 { 3 } else { 7 }); if k == 5 && std::env::var("NOSV").is_ok() { 6 } else { k } } {
        0 => gen_str(r).into_any(),
        1 => ().into_any(),
        2 => p().child(gen_str(r)).into_any(),
        3 => Some(gen_str(r)).filter(|_| r.below(2) == 0).into_any(),
        4 => (0..r.below(3)).map(|_| gen_str(r)).collect::<Vec<_>>().into_any(),
        5 => StaticVec::from((0..r.below(3)).map(|_| gen_any(r, d - 1)).collect::<Vec<_>>()).into_any(),
        _ => span().child((gen_any(r, d - 1), gen_any(r, d - 1))).into_any(),
    }
}
type T1 = (Option<String>, Vec<Either<String, (String, Option<String>)>>, AnyView, Either<Vec<String>, ()>, String);
fn gen_t1(r: &mut Rng) -> T1 {
    (
        Some(gen_str(r)).filter(|_| r.below(2) == 0),
        (0..r.below(4)).map(|_| if r.below(2) == 0 { Either::Left(gen_str(r)) } else { Either::Right((gen_str(r), Some(gen_str(r)).filter(|_| r.below(2) == 0))) }).collect(),
        gen_any(r, 2),
        if r.below(2) == 0 { Either::Left((0..r.below(3)).map(|_| gen_str(r)).collect()) } else { Either::Right(()) },
        gen_str(r),
    )
}
fn describe(v: &T1) -> String { format!("({:?}, {:?}, <any>, {:?}, {:?})", v.0, v.1.iter().map(|e| match e { Either::Left(s) => format!("L{s:?}"), Either::Right(t) => format!("R{t:?}") }).collect::<Vec<_>>(), match &v.3 { Either::Left(v) => format!("L{v:?}"), Either::Right(_) => "R()".into() }, v.4) }

fn main() {
    let seed: u64 = std::env::args().nth(1).and_then(|s| s.parse().ok()).unwrap_or(1);
    let n: u64 = std::env::args().nth(2).and_then(|s| s.parse().ok()).unwrap_or(2000);
    let mut bad = 0;
    for case in 0..n {
        // same seed stream for building a, b and b' (fresh twin of b)
        let mut r = Rng(seed.wrapping_mul(0x9E3779B97F4A7C15).wrapping_add(case * 7919 + 1));
        let a = gen_t1(&mut r);
        let sb = r.0;
        let b = gen_t1(&mut r);
        let mut r2 = Rng(sb);
        let b2 = gen_t1(&mut r2);
        let db = describe(&b);
        let da = describe(&a);
        let parent = Dom::create_element("div", None);
        let pre = Dom::create_text_node("PRE"); Dom::insert_node(&parent, &pre.0, None);
        let post = Dom::create_text_node("POST"); Dom::insert_node(&parent, &post.0, None);
        let mut st = a.build();
        st.mount(&parent, Some(&post.0));
        let res = std::panic::catch_unwind(std::panic::AssertUnwindSafe(|| { b.rebuild(&mut st); }));
        let got = ser(&parent.0);
        let parent2 = Dom::create_element("div", None);
        let pre2 = Dom::create_text_node("PRE"); Dom::insert_node(&parent2, &pre2.0, None);
        let post2 = Dom::create_text_node("POST"); Dom::insert_node(&parent2, &post2.0, None);
        let mut st2 = b2.build();
        st2.mount(&parent2, Some(&post2.0));
        let want = ser(&parent2.0);
        if res.is_err() || strip(&got) != strip(&want) {
            bad += 1;
            if bad <= 8 { println!("CASE {case}: {}\n  A = {da}\n  B = {db}\n  got  {got}\n  want {want}", if res.is_err() { "PANIC" } else { "DIFF" }); }
        }
    }
    println!("cases {n} bad {bad}");
}
