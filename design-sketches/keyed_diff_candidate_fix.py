import itertools, sys, time
def diff(frm, to):
    if not frm and not to: return dict(removed=[], moved=[], added=[], clear=False, items_to_move=0)
    if not to: return dict(removed=[], moved=[], added=[], clear=True, items_to_move=0)
    if not frm: return dict(removed=[], moved=[], added=[(i,'A') for i in range(len(to))], clear=False, items_to_move=0)
    removed=[]; moved=[]; added=[]; dom_moved=set()
    to_idx={k:i for i,k in enumerate(to)}; frm_set=set(frm)
    for index in range(max(len(frm),len(to))):
        fi = frm[index] if index < len(frm) else None
        ti = to[index] if index < len(to) else None
        if fi != ti:
            if fi is not None and fi not in to_idx: removed.append(index)
            if ti is not None and ti not in frm_set: added.append((index,'N'))
            if fi is not None and fi in to_idx:
                t=to_idx[fi]
                mfb = t - index
                mid = mfb != (len(added) - len(removed))
                if not mid:
                    later=[to_idx[k] for k in frm[index+1:] if k in to_idx]
                    if later and min(later) < t: mid=True
                    earlier=[to_idx[k] for j,k in enumerate(frm[:index]) if k in to_idx and (k not in dom_moved)]
                    if earlier and max(earlier) > t: mid=True
                if mid: dom_moved.add(fi)
                moved.append([index,1,t,mid])
    # group adjacent
    new=[]; prev=None
    for m in moved:
        if prev is not None:
            if m[0]==prev[0]+prev[1] and m[2]==prev[2]+prev[1]:
                prev[1]+=1
            else:
                new.append(prev); prev=list(m)
        else: prev=list(m)
    if prev is not None: new.append(prev)
    return dict(removed=removed, moved=new, added=added, clear=False, items_to_move=sum(m[1] for m in new))

def unpack(d):
    moves=[]; adds=[]
    rem=iter(d['removed']); ad=iter(d['added']); mv=iter([list(m) for m in d['moved']])
    rn=next(rem,None); an=next(ad,None); mn=next(mv,None)
    for i in range(d['items_to_move']+len(d['added'])+len(d['removed'])):
        if rn is not None and i==rn:
            rn=next(rem,None); continue
        if an is not None and mn is not None:
            if an[0]==i:
                adds.append(an); an=next(ad,None)
            else:
                moves.append([mn[0],1,mn[2],mn[3]]); mn[1]-=1; mn[0]+=1; mn[2]+=1
                if mn[1]==0: mn=next(mv,None)
        elif an is not None:
            adds.append(an); an=next(ad,None)
        elif mn is not None:
            moves.append([mn[0],1,mn[2],mn[3]]); mn[1]-=1; mn[0]+=1; mn[2]+=1
            if mn[1]==0: mn=next(mv,None)
        else: break
    return moves, adds

class Fail(Exception): pass
MARK='M'
def dom_insert_before(dom, node, before):
    if node in dom: dom.remove(node)
    dom.insert(dom.index(before), node)

def apply(d, children, dom, to, fresh, log):
    # children: list of item ids or None ; dom: list of ids ending with MARK (+ trailing siblings)
    if d['clear']:
        for c in children:
            if c is not None: dom.remove(c)
        children.clear()
        if not d['added']: return
    for at in d['removed']:
        it=children[at]
        if it is None: raise Fail('remove None')
        children[at]=None; dom.remove(it)
    moves, adds = unpack(d)
    moved_children=[]
    for m in moves:
        if m[0] >= len(children): raise Fail('move from oob')
        moved_children.append(children[m[0]]); children[m[0]]=None
    children.extend([None]*len(d['added']))
    for i,m in enumerate(moves):
        if not m[3]:
            if m[2] >= len(children): raise Fail('move to oob')
            children[m[2]]=moved_children[i]; moved_children[i]=None
            if children[m[2]] is not None: log.append(('idx',children[m[2]],m[2]))
    for i,m in enumerate(moves):
        if m[3]:
            it=moved_children[i]
            if it is None: raise Fail('unwrap None moved child')
            to_=m[2]
            if to_ > len(children): raise Fail('slice oob')
            sib=next((c for c in children[to_:] if c is not None), None)
            if sib is not None and sib in dom: dom_insert_before(dom, it, sib)
            else: dom_insert_before(dom, it, MARK)
            log.append(('idx',it,to_))
            if to_ >= len(children): raise Fail('assign oob')
            children[to_]=it
    for (at,mode) in adds:
        it=fresh(to[at])
        if mode=='N':
            if at > len(children): raise Fail('slice oob add')
            sib=next((c for c in children[at:] if c is not None), None)
            if sib is not None and sib in dom: dom.insert(dom.index(sib), it)
            else: dom.insert(dom.index(MARK), it)
        else:
            dom.insert(dom.index(MARK), it)
        if at >= len(children): raise Fail('assign oob add')
        children[at]=it
    children[:] = [c for c in children if c is not None]

def check(frm, to, trailing):
    ids={}
    cnt=[0]
    def fresh(k):
        cnt[0]+=1; return (k,cnt[0])
    children=[fresh(k) for k in frm]
    old={k:c for k,c in zip(frm,children)}
    dom=list(children)+[MARK]+(['T'] if trailing else [])
    log=[]
    try:
        apply(diff(frm,to), children, dom, to, fresh, log)
    except Fail as e:
        return 'panic:'+str(e)
    except (IndexError, ValueError) as e:
        return 'panic:'+repr(e)
    exp_keys=list(to)
    if [c[0] for c in children]!=exp_keys: return 'children order %r'%([c[0] for c in children],)
    body=dom[:dom.index(MARK)]
    if [c[0] for c in body]!=exp_keys: return 'dom order %r'%([c[0] for c in body],)
    if dom[dom.index(MARK)+1:]!=(['T'] if trailing else []): return 'trailing'
    for k in to:
        if k in old and old[k] not in body: return 'identity lost %r'%k
    if body!=children: return 'dom/children mismatch'
    return None

def seqs(alpha, maxlen):
    for n in range(maxlen+1):
        for p in itertools.permutations(range(alpha), n): yield list(p)

if __name__=='__main__':
    L=int(sys.argv[1]); A=int(sys.argv[2])
    t=time.time(); n=0; bad=0; shown=0
    # canonical from = [0..n)
    for n_from in range(L+1):
        frm=list(range(n_from))
        for to in seqs(A, L):
            n+=1
            r=check(frm,to,False)
            if r:
                bad+=1
                if shown<12: print(frm,'->',to,':',r); shown+=1
    print('cases',n,'bad',bad,'time',round(time.time()-t,1))
