#![allow(missing_docs)]
//! In-memory DOM used only under `--cfg leptos_verif`.
use super::{CastFrom, RemoveEventHandler};
use crate::view::{Mountable, ToTemplate};
use std::{borrow::Cow, cell::RefCell, rc::{Rc, Weak}};
use wasm_bindgen::{JsCast, JsValue};

#[derive(Debug, Copy, Clone, PartialEq, Eq, Hash, PartialOrd, Ord)]
pub struct Dom;

#[derive(Debug, Clone, PartialEq, Eq)]
pub enum Kind { Element { tag: String, ns: Option<String> }, Text, Comment, Fragment }

#[derive(Debug)]
pub struct NodeData {
    pub id: u64,
    pub kind: Kind,
    pub text: String,
    pub attrs: Vec<(String, String)>,
    pub styles: Vec<(String, String)>,
    pub props: Vec<(String, String)>,
    pub inner_html: Option<String>,
    pub parent: Option<Weak<RefCell<NodeData>>>,
    pub children: Vec<Node>,
    pub mutations: u64,
}

#[derive(Debug, Clone)]
pub struct Node(pub Rc<RefCell<NodeData>>);
impl PartialEq for Node { fn eq(&self, o: &Self) -> bool { Rc::ptr_eq(&self.0, &o.0) } }
impl Eq for Node {}

macro_rules! wrapper { ($($n:ident),*) => {$(
    #[derive(Debug, Clone, PartialEq, Eq)]
    pub struct $n(pub Node);
    impl AsRef<Node> for $n { fn as_ref(&self) -> &Node { &self.0 } }
    impl std::ops::Deref for $n { type Target = Node; fn deref(&self) -> &Node { &self.0 } }
)*}}
wrapper!(Element, Text, Placeholder, ClassList, CssStyleDeclaration, TemplateElement);
impl AsRef<Node> for Node { fn as_ref(&self) -> &Node { self } }
pub type Event = JsValue;

thread_local! { static NEXT_ID: std::cell::Cell<u64> = const { std::cell::Cell::new(1) }; }

impl Node {
    fn new(kind: Kind, text: &str) -> Node {
        let id = NEXT_ID.with(|n| { let v = n.get(); n.set(v + 1); v });
        Node(Rc::new(RefCell::new(NodeData { id, kind, text: text.into(), attrs: vec![], styles: vec![], props: vec![], inner_html: None, parent: None, children: vec![], mutations: 0 })))
    }
    pub fn id(&self) -> u64 { self.0.borrow().id }
    pub fn parent_node(&self) -> Option<Node> { self.0.borrow().parent.as_ref().and_then(|p| p.upgrade()).map(Node) }
    pub fn parent_element(&self) -> Option<Element> { self.parent_node().and_then(Element::cast_from) }
    pub fn remove(&self) {
        if let Some(p) = self.parent_node() {
            let mut pd = p.0.borrow_mut();
            pd.children.retain(|c| c != self);
            pd.mutations += 1;
        }
        self.0.borrow_mut().parent = None;
    }
    pub fn text_content(&self) -> Option<String> { Some(self.0.borrow().text.clone()) }
}

impl Dom {
    pub fn intern(text: &str) -> &str { text }
    pub fn create_element(tag: &str, namespace: Option<&str>) -> Element {
        Element(Node::new(Kind::Element { tag: tag.into(), ns: namespace.map(Into::into) }, ""))
    }
    pub fn create_text_node(text: &str) -> Text { Text(Node::new(Kind::Text, text)) }
    pub fn create_placeholder() -> Placeholder { Placeholder(Node::new(Kind::Comment, "")) }
    pub fn set_text(node: &Text, text: &str) { let mut d = node.0 .0.borrow_mut(); d.text = text.into(); d.mutations += 1; }
    pub fn set_attribute(node: &Element, name: &str, value: &str) {
        let mut d = node.0 .0.borrow_mut(); d.mutations += 1;
        if let Some(a) = d.attrs.iter_mut().find(|a| a.0 == name) { a.1 = value.into() } else { d.attrs.push((name.into(), value.into())) }
    }
    pub fn remove_attribute(node: &Element, name: &str) { let mut d = node.0 .0.borrow_mut(); d.mutations += 1; d.attrs.retain(|a| a.0 != name) }
    pub fn insert_node(parent: &Element, new_child: &Node, anchor: Option<&Node>) {
        new_child.remove();
        let mut pd = parent.0 .0.borrow_mut();
        let idx = match anchor { Some(a) => pd.children.iter().position(|c| c == a).unwrap_or(pd.children.len()), None => pd.children.len() };
        pd.children.insert(idx, new_child.clone());
        pd.mutations += 1;
        new_child.0.borrow_mut().parent = Some(Rc::downgrade(&parent.0 .0));
    }
    pub fn remove_node(parent: &Element, child: &Node) -> Option<Node> {
        if child.parent_node().as_ref() == Some(&parent.0) { child.remove(); Some(child.clone()) } else { None }
    }
    pub fn remove(node: &Node) { node.remove() }
    pub fn get_parent(node: &Node) -> Option<Node> { node.parent_node() }
    pub fn first_child(node: &Node) -> Option<Node> { node.0.borrow().children.first().cloned() }
    pub fn next_sibling(node: &Node) -> Option<Node> {
        let p = node.parent_node()?; let pd = p.0.borrow();
        let i = pd.children.iter().position(|c| c == node)?; pd.children.get(i + 1).cloned()
    }
    pub fn log_node(_node: &Node) {}
    pub fn clear_children(parent: &Element) {
        let kids = std::mem::take(&mut parent.0 .0.borrow_mut().children);
        for k in kids { k.0.borrow_mut().parent = None; }
        parent.0 .0.borrow_mut().mutations += 1;
    }
    pub fn mount_before<M: Mountable>(new_child: &mut M, before: &Node) {
        let parent = Element::cast_from(Self::get_parent(before).expect("could not find parent element")).expect("placeholder parent should be Element");
        new_child.mount(&parent, Some(before));
    }
    #[track_caller]
    pub fn try_mount_before<M: Mountable>(new_child: &mut M, before: &Node) -> bool {
        if let Some(parent) = Self::get_parent(before).and_then(Element::cast_from) { new_child.mount(&parent, Some(before)); true } else { false }
    }
    pub fn set_property(el: &Element, key: &str, value: &JsValue) {
        let mut d = el.0 .0.borrow_mut(); d.mutations += 1;
        let v = format!("{value:?}");
        if let Some(a) = d.props.iter_mut().find(|a| a.0 == key) { a.1 = v } else { d.props.push((key.into(), v)) }
    }
    pub fn add_event_listener(_el: &Element, _name: &str, _cb: Box<dyn FnMut(Event)>) -> RemoveEventHandler<Element> { RemoveEventHandler::new(|_| {}) }
    pub fn add_event_listener_use_capture(_el: &Element, _name: &str, _cb: Box<dyn FnMut(Event)>) -> RemoveEventHandler<Element> { RemoveEventHandler::new(|_| {}) }
    pub fn add_event_listener_delegated(_el: &Element, _name: Cow<'static, str>, _key: Cow<'static, str>, _cb: Box<dyn FnMut(Event)>) -> RemoveEventHandler<Element> { RemoveEventHandler::new(|_| {}) }
    pub fn event_target<T: CastFrom<Element>>(_ev: &Event) -> T { unimplemented!("events are not modelled") }
    pub fn class_list(el: &Element) -> ClassList { ClassList(el.0.clone()) }
    pub fn add_class(list: &ClassList, name: &str) {
        let mut d = list.0 .0.borrow_mut(); d.mutations += 1;
        let cur = d.attrs.iter().find(|a| a.0 == "class").map(|a| a.1.clone()).unwrap_or_default();
        let mut toks: Vec<&str> = cur.split_ascii_whitespace().collect();
        if !toks.contains(&name) { toks.push(name) }
        let v = toks.join(" ");
        if let Some(a) = d.attrs.iter_mut().find(|a| a.0 == "class") { a.1 = v } else { d.attrs.push(("class".into(), v)) }
    }
    pub fn remove_class(list: &ClassList, name: &str) {
        let mut d = list.0 .0.borrow_mut(); d.mutations += 1;
        if let Some(a) = d.attrs.iter_mut().find(|a| a.0 == "class") { a.1 = a.1.split_ascii_whitespace().filter(|t| *t != name).collect::<Vec<_>>().join(" ") }
    }
    pub fn style(el: &Element) -> CssStyleDeclaration { CssStyleDeclaration(el.0.clone()) }
    pub fn set_css_property(style: &CssStyleDeclaration, name: &str, value: &str) {
        let mut d = style.0 .0.borrow_mut(); d.mutations += 1;
        if let Some(a) = d.styles.iter_mut().find(|a| a.0 == name) { a.1 = value.into() } else { d.styles.push((name.into(), value.into())) }
    }
    pub fn remove_css_property(style: &CssStyleDeclaration, name: &str) { let mut d = style.0 .0.borrow_mut(); d.mutations += 1; d.styles.retain(|a| a.0 != name) }
    pub fn set_inner_html(el: &Element, html: &str) { Self::clear_children(el); el.0 .0.borrow_mut().inner_html = Some(html.into()); }
    pub fn get_template<V: ToTemplate + 'static>() -> TemplateElement { unimplemented!("templates need the harness parser") }
    pub fn clone_template(_tpl: &TemplateElement) -> Element { unimplemented!() }
    pub fn create_element_from_html(_html: &str) -> Element { unimplemented!("needs the harness parser") }
}

macro_rules! mountable { ($($t:ty => $els:expr),*) => {$(
    impl Mountable for $t {
        fn unmount(&mut self) { let n: &Node = self.as_ref(); n.remove(); }
        fn mount(&mut self, parent: &Element, marker: Option<&Node>) { Dom::insert_node(parent, self.as_ref(), marker); }
        fn insert_before_this(&self, child: &mut dyn Mountable) -> bool {
            let n: &Node = self.as_ref();
            if let Some(parent) = Dom::get_parent(n).and_then(Element::cast_from) { child.mount(&parent, Some(n)); return true; }
            false
        }
        fn elements(&self) -> Vec<Element> { $els(self) }
    }
)*}}
mountable!(Node => |_s: &Node| vec![], Text => |_s: &Text| vec![], Placeholder => |_s: &Placeholder| vec![], Element => |s: &Element| vec![s.clone()]);

impl CastFrom<Node> for Text { fn cast_from(n: Node) -> Option<Text> { let ok = n.0.borrow().kind == Kind::Text; ok.then(|| Text(n)) } }
impl CastFrom<Node> for Placeholder { fn cast_from(n: Node) -> Option<Placeholder> { let ok = n.0.borrow().kind == Kind::Comment; ok.then(|| Placeholder(n)) } }
impl CastFrom<Node> for Element { fn cast_from(n: Node) -> Option<Element> { let ok = matches!(n.0.borrow().kind, Kind::Element { .. } | Kind::Fragment); ok.then(|| Element(n)) } }
impl CastFrom<Element> for Element { fn cast_from(n: Element) -> Option<Element> { Some(n) } }
impl<T: wasm_bindgen::JsCast> CastFrom<JsValue> for T { fn cast_from(source: JsValue) -> Option<Self> { source.dyn_into::<T>().ok() } }
impl<T: wasm_bindgen::JsCast> CastFrom<Element> for T { fn cast_from(_source: Element) -> Option<Self> { None } }

#[cfg(feature = "reactive_graph")]
mod bind_impls {
    use super::Element;
    use crate::{html::attribute::AttributeValue, reactive_graph::bind::{ChangeEvent, FromEventTarget, GetValue}, renderer::RemoveEventHandler};
    use reactive_graph::traits::Set;
    impl ChangeEvent for Element {
        fn attach_change_event<T, W>(&self, _key: &str, _write_signal: W) -> RemoveEventHandler<Self>
        where T: FromEventTarget + AttributeValue + 'static, W: Set<Value = T> + 'static {
            RemoveEventHandler::new(|_| {})
        }
    }
    impl GetValue<String> for Element { fn get_value(&self) -> String { self.0 .0.borrow().attrs.iter().find(|a| a.0 == "value").map(|a| a.1.clone()).unwrap_or_default() } }
    impl GetValue<bool> for Element { fn get_value(&self) -> bool { self.0 .0.borrow().attrs.iter().any(|a| a.0 == "checked" && a.1 == "true") } }
}
