(* Generic line-oriented driver, appended after the extracted model (which defines
   [positive], [z], [sexp] and [run]).  One case per input line, one result per output
   line, both in the textual sexp syntax:  (1 -2 (3) ())  *)
let rec pos_of_int (n : int) : positive =
  if n = 1 then XH
  else if n land 1 = 0 then XO (pos_of_int (n lsr 1))
  else XI (pos_of_int (n lsr 1))
let z_of_int (n : int) : z =
  if n = 0 then Z0 else if n > 0 then Zpos (pos_of_int n) else Zneg (pos_of_int (- n))
let rec int_of_pos (p : positive) : int =
  match p with XH -> 1 | XO p -> 2 * int_of_pos p | XI p -> 2 * int_of_pos p + 1
let int_of_z (x : z) : int =
  match x with Z0 -> 0 | Zpos p -> int_of_pos p | Zneg p -> - (int_of_pos p)

exception Parse_error of string

let parse (s : string) : sexp =
  let n = String.length s in
  let i = ref 0 in
  let skip () = while !i < n && (s.[!i] = ' ' || s.[!i] = '\t' || s.[!i] = '\r') do incr i done in
  let rec value () : sexp =
    skip ();
    if !i >= n then raise (Parse_error "eof")
    else if s.[!i] = '(' then begin
      incr i;
      let items = ref [] in
      let fin = ref false in
      while not !fin do
        skip ();
        if !i >= n then raise (Parse_error "unclosed")
        else if s.[!i] = ')' then (incr i; fin := true)
        else items := value () :: !items
      done;
      Lst (List.rev !items)
    end else begin
      let st = !i in
      if s.[!i] = '-' then incr i;
      while !i < n && s.[!i] >= '0' && s.[!i] <= '9' do incr i done;
      if !i = st then raise (Parse_error ("bad char at " ^ string_of_int st));
      Num (z_of_int (int_of_string (String.sub s st (!i - st))))
    end
  in
  let v = value () in
  skip ();
  if !i <> n then raise (Parse_error "trailing");
  v

let rec print (b : Buffer.t) (v : sexp) : unit =
  match v with
  | Num x -> Buffer.add_string b (string_of_int (int_of_z x))
  | Lst l ->
      Buffer.add_char b '(';
      List.iteri (fun k x -> if k > 0 then Buffer.add_char b ' '; print b x) l;
      Buffer.add_char b ')'

let () =
  let b = Buffer.create 65536 in
  (try
     while true do
       let line = input_line stdin in
       if String.length line > 0 then begin
         (try print b (run (parse line))
          with Parse_error m -> Buffer.add_string b ("!parse-error " ^ m));
         Buffer.add_char b '\n';
         if Buffer.length b > 60000 then (print_string (Buffer.contents b); Buffer.clear b)
       end
     done
   with End_of_file -> ());
  print_string (Buffer.contents b)
