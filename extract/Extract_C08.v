Require Extraction.
Require Import ExtrOcamlBasic.
From LV Require Import Base.Sexp Reactive.OwnerRun.
Extraction Language OCaml.
Definition run := run_C08.
Extraction "model_C08.ml" run.
