Require Extraction.
Require Import ExtrOcamlBasic.
From LV Require Import Base.Sexp Html.StreamRun.
Extraction Language OCaml.
Definition run := run_C07.
Extraction "model_C07.ml" run.
