Require Extraction.
Require Import ExtrOcamlBasic.
From LV Require Import Base.Sexp Reactive.GraphRun.
Extraction Language OCaml.
Definition run := run_C02.
Extraction "model_C02.ml" run.
