Require Extraction.
Require Import ExtrOcamlBasic.
From LV Require Import Base.Sexp Router.UrlRun.
Extraction Language OCaml.
Definition run := run_C15.
Extraction "model_C15.ml" run.
