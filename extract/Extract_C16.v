Require Extraction.
Require Import ExtrOcamlBasic.
From LV Require Import Base.Sexp Store.PathsRun.
Extraction Language OCaml.
Definition run := run_C16.
Extraction "model_C16.ml" run.
