Require Extraction.
Require Import ExtrOcamlBasic.
From LV Require Import Base.Sexp Reactive.ParkRun.
Extraction Language OCaml.
Definition run := run_C19.
Extraction "model_C19.ml" run.
