Require Extraction.
Require Import ExtrOcamlBasic.
From LV Require Import Base.Sexp Dom.ViewRun.
Extraction Language OCaml.
Definition run := run_C03.
Extraction "model_C03.ml" run.
