Require Extraction.
Require Import ExtrOcamlBasic.
From LV Require Import Base.Sexp Dom.ReactiveRun.
Extraction Language OCaml.
Definition run := run_C04.
Extraction "model_C04.ml" run.
