Require Extraction.
Require Import ExtrOcamlBasic.
From LV Require Import Base.Sexp ServerFn.Run.
Extraction Language OCaml.
Definition run := run_C13.
Extraction "model_C13.ml" run.
