Require Extraction.
Require Import ExtrOcamlBasic.
From LV Require Import Base.Sexp Router.MatchRun.
Extraction Language OCaml.
Definition run := run_C14.
Extraction "model_C14.ml" run.
