Require Extraction.
Require Import ExtrOcamlBasic.
From LV Require Import Base.Sexp Dom.HydrateRun.
Extraction Language OCaml.
Definition run := run_C05.
Extraction "model_C05.ml" run.
