Require Extraction.
Require Import ExtrOcamlBasic.
From LV Require Import Base.Sexp Reactive.ActionRun.
Extraction Language OCaml.
Definition run := run_C17.
Extraction "model_C17.ml" run.
