Require Extraction.
Require Import ExtrOcamlBasic.
From LV Require Import Base.Sexp Html.MacroRun.
Extraction Language OCaml.
Definition run := run_C18.
Extraction "model_C18.ml" run.
