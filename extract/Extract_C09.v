Require Extraction.
Require Import ExtrOcamlBasic.
From LV Require Import Base.Sexp Reactive.GraphRun.
Extraction Language OCaml.
Definition run := run_C09.
Extraction "model_C09.ml" run.
