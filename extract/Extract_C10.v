Require Extraction.
Require Import ExtrOcamlBasic.
From LV Require Import Base.Sexp Reactive.AsyncRun.
Extraction Language OCaml.
Definition run := run_C10.
Extraction "model_C10.ml" run.
