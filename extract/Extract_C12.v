Require Extraction.
Require Import ExtrOcamlBasic.
From LV Require Import Base.Sexp Html.ScriptRun.
Extraction Language OCaml.
Definition run := run_C12.
Extraction "model_C12.ml" run.
