Require Extraction.
Require Import ExtrOcamlBasic.
From LV Require Import Base.Sexp Dom.KeyedRun.
Extraction Language OCaml.
Definition run := run_C11.
Extraction "model_C11.ml" run.
