Require Extraction.
Require Import ExtrOcamlBasic.
From LV Require Import Base.Sexp Html.SsrRun.
Extraction Language OCaml.
Definition run := run_C06.
Extraction "model_C06.ml" run.
