Require Extraction.
Require Import ExtrOcamlBasic.
From LV Require Import Base.Sexp Reactive.GraphRun.
Extraction Language OCaml.
Definition run := run_C01.
Extraction "model_C01.ml" run.
