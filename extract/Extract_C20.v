Require Extraction.
Require Import ExtrOcamlBasic.
From LV Require Import Base.Sexp Reactive.AmbientRun.
Extraction Language OCaml.
Definition run := run_C20.
Extraction "model_C20.ml" run.
