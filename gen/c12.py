"""C12 \u2014 data handed from server to client arrives intact and inert."""
import json
import os

from . import common as C
from . import jsliteral as J

PID = "C12"
PROPS_V = "theories/Props/Properties_C12.v"
MODEL_NAME = "Html/Script.v"
HARNESS = "hyd"
HARNESS_ARGS = ["c12"]
ALLOWED_AXIOMS = []
RUN_IMPORT = "Html.ScriptRun"
READY = True

RULE = ("cases drawn from one PRNG (VERIF_SEED). A case is a scripted session against a fresh real "
        "SsrSharedContext (new / new_islands / default, or the one leptos_integration_utils::build_response creates "
        "together with its owner and its <script> wrapping, with and without a nonce): next_id, set_is_hydrating, "
        "write_async(id, future), register_error, seal_errors, set_incomplete_chunk, pending_data, complete-future-k, poll, "
        "write_async from a second thread while poll_next is polling a data future (family cross-thread, oracle only), "
        "errors(), take_errors(), await_deferred(), get_incomplete_chunk, real Resource / ArcResource / OnceResource / "
        "ArcOnceResource / SharedValue creation under an Owner through new_with_options / new_with_encoding and through every "
        "named constructor (new, new_str, new_miniserde, new_serde_lite, new_rkyv and their _blocking forms) with a codec for "
        "each IntoEncodedString / FromEncodedStr impl (String: JsonSerdeCodec, FromToStringCodec, MiniserdeCodec, "
        "SerdeLite<JsonSerdeCodec>; Vec<u8>/[u8], i.e. base64: FromToBytesCodec, RkyvCodec and an identity codec over "
        "arbitrary bytes), and real <ErrorBoundary/> components (nested, with Ok / Err children whose messages are "
        "adversarial and resources created among the children) rendered by to_html / in-order / out-of-order streaming; "
        "for each resource the string the real codec hands over is logged and the real browser-side construction of "
        "the same resource (Arc and arena flavour; initial_value / SharedValue under a hydrating SharedContext holding that "
        "string, every other method answered by a real HydrateSharedContext) must yield the value; the stream is then polled to "
        "its end (a fresh waker per poll), futures completing in the order the case dictates. Kinds: payload (one adversarial "
        "string through write_async), error (one adversarial error message, before or after pending_data), resource (one real "
        "resource per codec and constructor), sized (payloads whose encoded length sits on the boundaries 0..10, 3k+-1, "
        "1023..1025, 4095..4099, 8191..8194, 12286..12290, 16384, 20000, 24577 bytes, mostly through the binary encodings, UTF-8 "
        "and arbitrary bytes), session (2-7 resources/errors/chunks, random completion order and interleaved polls, sealing), "
        "consume (several futures leaving through SsrSharedContext::consume_buffers() under every kind of completion order), "
        "ids (nested hydrated / non-hydrated regions in islands mode), boundary (1-4 real <ErrorBoundary/> trees between other "
        "id consumers and real <Suspense/> / <Transition/> components whose children read a LocalResource (the producer of "
        "incomplete-chunk ids), islands regions, errors after the stream started), response (sessions through build_response), wake "
        "(a value completing after poll_next returned Pending must wake the waker of the latest poll; take_errors / "
        "await_deferred in between), many (20-120 values in one response). Strings come from an adversarial alphabet "
        "(< > & \" ' / = ` NUL, <!--, -->, ]]>, </script, </title, </textarea, </style, <script, backslashes, "
        "\\u003c and other escape look-alikes, digits after NUL, CR/LF/U+2028/U+2029, DEL, combining marks, astral "
        "characters) plus random scalar values. Non-trivial = some string needs escaping or at least two "
        "futures are in flight; distinct = distinct case hash.")
TRUSTED = [
    "Coq 8.16.1 kernel (coqc); no axioms: every theorem of Properties_C12.v is 'Closed under the global context'",
    "extraction to OCaml with ExtrOcamlBasic only, ocamlfind ocamlopt 4.13.1, extract/driver.ml sexp I/O",
    "harness/hyd (h_hyd; src/c12.rs is the file harness/ssr/src/c12.rs): gate futures, a FIFO single-thread executor installed "
    "with Executor::init_local_custom_executor, manual polling of the pending_data() stream with a flag waker per poll, a "
    "pass-through SharedContext around the real SsrSharedContext that records what next_id returned (so that the ids "
    "<ErrorBoundary/> and throw consume inside leptos are known)",
    "modelled, not verified: Rust's char::escape_debug Unicode tables (Grapheme_Extend / printable) enter the model "
    "as the per-case list of code points the real formatter writes as \\u{..}; the list is obtained from real Rust "
    "(h_hyd c12 op 0) at generation time and every theorem holds for an arbitrary such predicate",
    "modelled, not verified: serde_json's string escaping (also what miniserde and serde-lite write for a String), "
    "FromToStringCodec and FromToBytesCodec<String> (Script.json_string / encode), compared with the real codecs on every "
    "resource case; the base64 engine (STANDARD_NO_PAD) is builder C13's model ServerFn.ErrorCodec.b64_encode/b64_decode "
    "(imported, with its round-trip proof), here compared with the real engine through IntoEncodedString for Vec<u8> on every "
    "binary-codec case incl. all block-size boundaries, for UTF-8 and for arbitrary bytes",
    "compared, not proved: what an <ErrorBoundary/> amounts to at the level of the context (Script.expand: one id for the "
    "boundary at construction, children built depth first, one id + register_error per thrown error in rendering order) is a "
    "transcription of leptos/src/error_boundary.rs (likewise <Suspense/> / <Transition/>: one id, set_incomplete_chunk under "
    "it when the children read a LocalResource), diffed against the real components on every boundary case; the theorems "
    "about ids and chunks hold for the expanded scripts because they hold for all scripts",
    "judged by the oracle only (outside the model): RkyvCodec's archive bytes, the nonce variant of build_response, the waker "
    "contract of the stream, take_errors(), await_deferred()",
    "browser side is a model: ECMAScript string-literal grammar (ES2019 12.8.4 + Annex B.1.2, sloppy mode) transcribed "
    "in Script.js_step, and independently in gen/jsliteral.py (cross-checked against node v20 on 6000 random "
    "literals during development); wasm-bindgen's as_string modelled as UTF-16 -> scalar values with U+FFFD for lone "
    "surrogates; HTML script-data tokenizer states transcribed in gen/jsliteral.py (oracle; for build_response cases run over "
    "the real <script..>..</script> text) and in Coq as Script.script_text (first </script + delimiter, valid without <!--)",
    "which id-consuming calls the browser repeats is a harness rule: all of them, in islands mode only those made "
    "while the server had is_hydrating = true (HydrateSharedContext itself is the real one, run natively: new() / new_islands())",
]
ASSUMPTIONS = [
    "payloads and error messages are Rust Strings, i.e. sequences of Unicode scalar values",
    "each chunk is delivered as the body of its own <script> element of a UTF-8 document and run as a classic "
    "(sloppy-mode) script by an ES2019+ engine (integrations/utils/src/lib.rs wraps chunks this way: driven, modes 2/3)",
    "fewer than 2^64 ids are handed out per request (counters wrap at usize::MAX+1; theorems carry the bound)",
    "non-islands applications never call set_is_hydrating(false) (only with_no_hydration does, for island children)",
    "a nonce is what leptos::nonce::Nonce::new() generates (URL-safe base64 of 16 random bytes)",
    "pending_data() / consume_buffers() are called once per response (their documented contract)",
]

NAMED = {0, 9, 10, 13, 92, 34}

PIECES = ["<", ">", "&", '"', "'", "/", "=", "`", "\0", "<!--", "-->", "]]>", "</script", "</script>", "</SCRIPT >",
          "</title", "</textarea", "</style", "<script", "<script>", "\\", "\\\\", "\\u003c", "\\u{3c}", "\\x3c", "\\0",
          "\\074", "\\u0000", "\\u{0}", "\\u{7f}", "\\u{301}", "\\u{2028}", "\\n", "\\r", "\\t", "\\\"", "\\'",
          "\\u003C", "\\\\u003c", "&#60;", "\\x00", "0", "1", "7", "8", "9", "\r", "\n", "\r\n", "\u2028", "\u2029", "\x7f", "\x1b", "\x08", "\x0c", "\t",
          "\u0301", "\u200d", "\ufeff", "\ufffd", "\ufffe", "\U0001F600", "\U0010FFFF", "\u00e9", "a", "b", "Z", " ", "u", "{", "}",
          "x", "$", "(", ")", ";", ",", "[", "]", "alert(1)", "<img src=x onerror=alert(1)>", "&lt;", "&amp;", "&#60;",
          "\u00ad", "\u061c", "\u180e", "\u2000", "\U000E0001", "\u0377", "\u0378", "\u0900", "\U0001F3FB"]


def text(rng, maxlen=8):
    n = rng.choice([0, 1, 1, 2, 3, rng.randint(0, maxlen)])
    out = []
    for _ in range(n):
        r = rng.random()
        if r < 0.75:
            out.append(rng.choice(PIECES))
        elif r < 0.85:
            out.append(chr(rng.randint(0, 0x7F)))
        else:
            cp = rng.choice([rng.randint(0x80, 0x7FF), rng.randint(0x800, 0xD7FF), rng.randint(0xE000, 0xFFFF),
                             rng.randint(0x10000, 0x10FFFF), rng.randint(0x300, 0x36F), rng.randint(0x2000, 0x206F)])
            out.append(chr(cp))
    return "".join(out)


def cps(s):
    return [ord(c) for c in s]


def harness_exe():
    """the binary ./check has just built (same path rule as C.build_harness)"""
    import hashlib
    tgt = "hyd"
    if C.REPO != "/repo":
        tgt = "hyd-alt-" + hashlib.sha1(C.REPO.encode()).hexdigest()[:8]
    exe = os.path.join(C.BUILD, "target", tgt, "release", "h_hyd")
    if not os.path.exists(exe):   # classification only uses Rust's std: any build will do
        exe = os.path.join(C.BUILD, "target", "hyd", "release", "h_hyd")
    return exe


_CLASS = {}


def classify_chars(chars):
    """ask the real formatter (h_ssr c12, op 0) how Debug writes each character"""
    todo = sorted(c for c in set(chars) if c not in _CLASS)
    if todo:
        # classify the whole 4096-code-point block of every unknown character in one call
        blocks = sorted({c >> 12 for c in todo})
        todo = [c for blk in blocks for c in range(blk << 12, (blk + 1) << 12)
                if not 0xD800 <= c <= 0xDFFF and c not in _CLASS]
        exe = harness_exe()
        if not os.path.exists(exe):
            raise RuntimeError("h_ssr is not built; cannot classify characters")
        lines, _, _ = C.run_lines([exe, "c12"], [[0, todo]], timeout=300)
        res = C.parse_sx(lines[0])
        if isinstance(res, str):
            raise RuntimeError("h_ssr c12 op 0 failed: " + res)
        for c, k in res:
            _CLASS[c] = k
    return _CLASS


def case_chars(script):
    out = set()
    for cmd in script:
        for a in cmd[1:]:
            if isinstance(a, list) and a and not (len(a) == 2 and cmd[0] in (2, 3, 4, 5, 9, 10) and a is cmd[1]):
                out.update(x for x in a if isinstance(x, int))
    return out


def child_strings(children, out):
    for ch in children:
        if ch[0] in (0, 1):
            out.append(ch[1])
        elif ch[0] == 2:
            out.append(ch[3])
        elif ch[0] == 3:
            child_strings(ch[1], out)


def strings_of(script):
    out = []
    for cmd in script:
        if cmd[0] == 2:
            out.append(cmd[2])
        elif cmd[0] == 20:
            out.append(cmd[2])
            out.append(cmd[4])
        elif cmd[0] == 3:
            out.append(cmd[3])
        elif cmd[0] == 12:
            out.append(cmd[3])
        elif cmd[0] == 15:
            child_strings(cmd[2], out)
    return out


def codecs_of(script):
    """every encoding a script uses (also inside boundaries)"""
    out = set()

    def walk(children):
        for ch in children:
            if ch[0] == 2:
                out.add(ch[2])
            elif ch[0] == 3:
                walk(ch[1])
    for cmd in script:
        if cmd[0] == 12:
            out.add(cmd[2])
        elif cmd[0] == 15:
            walk(cmd[2])
    return out


UNMODELLED_OPS = (16, 17, 18, 20)


def compared(mode, script):
    """is the case inside what the Coq model transcribes? (mode 3: random nonce; codec 5: rkyv's
    archive format; ops 16-18: wakers, take_errors, await_deferred) — the rest is judged by the
    oracle alone"""
    return mode != 3 and 5 not in codecs_of(script) and not any(c[0] in UNMODELLED_OPS for c in script)


V_READY = 16     # variant bit: the fetcher's future is ready when the resource is created


def ready_gates(cmd, first):
    """(number of case-controlled futures cmd adds, those among them that are ready from the start)"""
    if cmd[0] == 2:
        return 1, []
    if cmd[0] == 20:
        return 2, []
    if cmd[0] == 12:
        if cmd[1] == 2:
            return 0, []
        return 1, ([first] if len(cmd) > 4 and cmd[4] & V_READY else [])
    if cmd[0] == 15:
        n, ready = [0], []

        def walk(children):
            for ch in children:
                if ch[0] == 2 and ch[1] != 2:
                    if ch[4] & V_READY:
                        ready.append(first + n[0])
                    n[0] += 1
                elif ch[0] == 3:
                    walk(ch[1])
        walk(cmd[2])
        return n[0], ready
    return 0, []


def with_ready(script):
    """a future that is ready from the start is, for everything the context can observe, one that
    completes right after the command that created it: say so in the script (the harness really
    creates the resource with a finished future)"""
    out = []
    n = 0
    for cmd in script:
        out.append(cmd)
        k, ready = ready_gates(cmd, n)
        n += k
        out.extend([7, g] for g in ready)
    return out


def ready_ok(script):
    n = 0
    i = 0
    while i < len(script):
        k, ready = ready_gates(script[i], n)
        n += k
        if script[i + 1:i + 1 + len(ready)] != [[7, g] for g in ready]:
            return False
        i += 1 + len(ready)
    return True


def finish(mode, script, kind):
    script = with_ready(script)
    chars = set()
    for s in strings_of(script):
        chars.update(s)
    cls = classify_chars(chars)
    escset = sorted(c for c in chars if cls[c] == 1)
    return dict(case=[1, mode, escset, script], kind=kind, compare=compared(mode, script))


def gen_payload(rng):
    s = text(rng, 10)
    script = [[0], [2, [1, 0], cps(s)]]
    if rng.random() < 0.5:
        script += [[7, 0]]
    return finish(0, script, "payload")


def gen_error(rng):
    s = text(rng, 10)
    b, e = rng.randint(0, 5), rng.randint(0, 9)
    reg = [3, [0, b], [0, e], cps(s)]
    r = rng.random()
    if r < 0.4:
        script = [reg]
    elif r < 0.7:
        script = [[6], reg]
    else:
        script = [[2, [0, 7], cps("x")], [6], [8], reg, [8], [7, 0]]
    return finish(0, script, "error")


SIZES = (list(range(0, 11)) + [3 * k + d for k in (1, 5, 100, 341, 1000) for d in (-1, 0, 1)]
         + [1023, 1024, 1025, 4095, 4096, 4097, 4098, 4099, 8191, 8192, 8193, 8194,
            12286, 12287, 12288, 12289, 12290, 16384, 20000, 20001, 24577])


def sized_text(rng, nbytes):
    """a string whose UTF-8 encoding is exactly nbytes long (mixed 1-4 byte characters)"""
    out = []
    left = nbytes
    while left > 0:
        w = rng.choice([1, 1, 1, 2, 3, 4])
        if w > left:
            w = left
        if w == 1:
            out.append(rng.choice("abcXYZ019 <>&\"'\\/=+\n\0"))
        elif w == 2:
            out.append(chr(rng.randint(0x80, 0x7FF)))
        elif w == 3:
            out.append(chr(rng.choice([rng.randint(0x800, 0xD7FF), rng.randint(0xE000, 0xFFFF)])))
        else:
            out.append(chr(rng.randint(0x10000, 0x10FFFF)))
        left -= w
    return "".join(out)


MODELLED_CODECS = [0, 1, 2, 3, 4, 6]     # rkyv (5) is judged by the oracle alone


def res_cmd(rng, payload, codec=None, kind=None):
    """(12 kind codec text variant): any resource kind, any encoding, any constructor"""
    if codec is None:
        codec = 5 if rng.random() < 0.04 else rng.choice([0, 0, 1, 1, 2, 3, 4, 6])
    if kind is None:
        kind = rng.choice([0, 1, 2])
    return [12, kind, codec, cps(payload), rng.randint(0, 63)]


def gen_resource(rng):
    s = text(rng, 10)
    script = [res_cmd(rng, s)]
    if rng.random() < 0.3:
        script = [[0]] + script
    return finish(4 if rng.random() < 0.1 else 0, script, "resource")


def gen_sized(rng, nbytes=None):
    """every encoding at the size boundaries of its encoder (base64 groups, block sizes)"""
    n = rng.choice(SIZES) if nbytes is None else nbytes
    codec = rng.choice([2, 2, 6, 6, 5, 0, 1, 3, 4])
    script = [res_cmd(rng, sized_payload(rng, n, codec), codec)]
    if rng.random() < 0.3:
        c2 = rng.choice([2, 6, 5])
        script.append(res_cmd(rng, sized_payload(rng, rng.choice(SIZES[:40]), c2), c2))
    return finish(0, script, "sized")


def sized_payload(rng, nbytes, codec):
    if codec == 6:
        # arbitrary bytes (one code point per byte): runs of 0xFF / 0x00, random, UTF-8 look-alikes
        r = rng.random()
        if r < 0.2:
            return "".join(chr(rng.choice([0xFF, 0xFE, 0x00, 0x80, 0xC0])) for _ in range(nbytes))
        return "".join(chr(rng.randint(0, 255)) for _ in range(nbytes))
    return sized_text(rng, nbytes)


def gen_children(rng, depth, budget):
    """children of an <ErrorBoundary/>: Ok / Err views, resources, nested boundaries"""
    out = []
    for _ in range(rng.randint(0, 4)):
        if budget[0] <= 0:
            break
        budget[0] -= 1
        r = rng.random()
        if r < 0.15:
            out.append([0, cps(text(rng, 4))])
        elif r < 0.6:
            out.append([1, cps(text(rng, 6))])
        elif r < 0.8:
            c = res_cmd(rng, text(rng, 5))
            out.append([2] + c[1:])
        elif depth < 3:
            out.append([3, gen_children(rng, depth + 1, budget)])
        else:
            out.append([1, cps(text(rng, 6))])
    return out


def count_gates(cmd):
    """futures a command adds to the case-controlled ones"""
    if cmd[0] == 2:
        return 1
    if cmd[0] == 12:
        return 0 if cmd[1] == 2 else 1
    if cmd[0] == 15:
        n = [0]

        def walk(children):
            for ch in children:
                if ch[0] == 2 and ch[1] != 2:
                    n[0] += 1
                elif ch[0] == 3:
                    walk(ch[1])
        walk(cmd[2])
        return n[0]
    return 0


def gen_boundary(rng):
    """real <ErrorBoundary/>s (nested, with throwing children and resources created inside),
    between other id consumers, in hydrated and non-hydrated regions; errors also thrown after
    the stream has started; every completion order"""
    mode = rng.choice([0, 0, 1, 4])
    script = []
    n_gates = 0
    started = False
    hyd = mode != 1
    for _ in range(rng.randint(1, 4)):
        r = rng.random()
        if mode == 1 and r < 0.3:
            hyd = not hyd if rng.random() < 0.7 else hyd
            script.append([1, int(hyd)])
        elif r < 0.55:
            script.append([15, rng.choice([0, 1, 2]), gen_children(rng, 0, [rng.randint(1, 8)])])
        elif r < 0.7:
            # a real <Suspense/> / <Transition/>, its children reading a LocalResource or not
            script.append([19, rng.choice([1, 2]), rng.choice([0, 1]), rng.choice([0, 1, 1])])
        elif r < 0.8:
            script.append(res_cmd(rng, text(rng, 5)))
        elif r < 0.9:
            script.append([0])
        else:
            if not started:
                script.append([6])
                started = True
            script.append([8])
        n_gates += count_gates(script[-1])
        if n_gates and rng.random() < 0.2:
            script.append([7, rng.randint(0, n_gates - 1)])
    order = list(range(n_gates))
    rng.shuffle(order)
    for k in order:
        if rng.random() < 0.8:
            script.append([7, k])
            if started and rng.random() < 0.5:
                script.append([8])
    return finish(mode, script, "boundary")


def gen_response(rng):
    """a session against the context, owner and <script> wrapping of the real build_response
    (mode 2; mode 3: with a nonce in the start tag)"""
    it = gen_session(rng) if rng.random() < 0.6 else rng.choice([gen_payload, gen_error, gen_resource])(rng)
    case = it["case"]
    if case[1] != 0:
        case[1] = 0
        case[3] = [c for c in case[3] if c[0] != 1]
    mode = 2 if rng.random() < 0.7 else 3
    return dict(case=[1, mode, case[2], case[3]], kind="response", compare=compared(mode, case[3]))


def gen_wake(rng):
    """the stream contract: a value completing after poll_next returned Pending must wake the
    waker of that (latest) poll; also take_errors() and await_deferred() between polls"""
    script = []
    n_gates = 0
    for _ in range(rng.randint(1, 4)):
        r = rng.random()
        if r < 0.5:
            script.append([0])
            script.append([2, [1, sum(1 for c in script if c[0] == 0) - 1], cps(text(rng, 4))])
        else:
            script.append(res_cmd(rng, text(rng, 4), kind=rng.choice([0, 1])))
        n_gates += count_gates(script[-1])
    if rng.random() < 0.3:
        script.append([3, [0, rng.randint(0, 3)], [0, rng.randint(0, 9)], cps(text(rng, 4))])
        if rng.random() < 0.5:
            script.append([17])
    if rng.random() < 0.3:
        script.append([18])
    script += [[6], [8]]
    order = list(range(n_gates))
    rng.shuffle(order)
    for k in order:
        for _ in range(rng.choice([1, 1, 2, 3])):
            script.append([8])      # re-polls: each with a new waker, only the latest counts
        script.append([16])
        script.append([7, k])
        script.append([16])
        if rng.random() < 0.3:
            script.append([3, [0, rng.randint(0, 3)], [0, rng.randint(0, 9)], cps(text(rng, 4))])
        if rng.random() < 0.2:
            script.append([17])
        if rng.random() < 0.2:
            script.append([18])
    return finish(0, script, "wake")


def gen_many(rng):
    """many values in one response (the property quantifies over all numbers of resources)"""
    script = []
    n = rng.randint(20, 120)
    n_gates = 0
    for _ in range(n):
        r = rng.random()
        if r < 0.7:
            script.append(res_cmd(rng, text(rng, 3), codec=rng.choice(MODELLED_CODECS)))
        elif r < 0.9:
            script.append([0])
            script.append([2, [1, sum(1 for c in script if c[0] == 0) - 1], cps(text(rng, 3))])
        else:
            script.append([3, [0, rng.randint(0, 200)], [0, rng.randint(0, 200)], cps(text(rng, 3))])
        n_gates += count_gates(script[-1])
    order = list(range(n_gates))
    rng.shuffle(order)
    script.append([6])
    for k in order:
        script.append([7, k])
        if rng.random() < 0.15:
            script.append([8])
    return finish(0, script, "many")


def gen_session(rng, ids_focus=False):
    mode = 1 if (ids_focus or rng.random() < 0.35) else 0
    script = []
    n_gates = 0
    n_ids = 0
    hyd = not mode
    depth = []
    started = False
    n = rng.randint(2, 7) if not ids_focus else rng.randint(3, 10)
    used = set()
    for _ in range(n):
        r = rng.random()
        if mode and r < (0.45 if ids_focus else 0.2):
            # enter / leave a hydrated (island) or non-hydrated (island children) region
            if depth and rng.random() < 0.5:
                hyd = depth.pop()
                script.append([1, int(hyd)])
            else:
                depth.append(hyd)
                hyd = rng.random() < 0.6
                script.append([1, int(hyd)])
        elif r < 0.35:
            script.append(res_cmd(rng, text(rng, 6)))
            if script[-1][1] != 2:
                n_gates += 1
        elif r < 0.55:
            script.append([0])
            n_ids += 1
            if hyd and rng.random() < 0.8:
                script.append([2, [1, n_ids - 1], cps(text(rng, 6))])
                n_gates += 1
        elif r < 0.65:
            i = rng.choice([x for x in range(100, 130) if x not in used])
            used.add(i)
            script.append([2, [0, i], cps(text(rng, 6))])
            n_gates += 1
        elif r < 0.8:
            src = [1, rng.randint(0, max(0, n_ids - 1))] if n_ids and rng.random() < 0.5 else [0, rng.randint(0, 4)]
            script.append([3, src, [0, rng.randint(0, 9)], cps(text(rng, 6))])
            if rng.random() < 0.2:
                script.append([9, src])
        elif r < 0.86:
            script.append([4, [0, rng.randint(0, 4)]])
        elif r < 0.93:
            script.append([5, [0, rng.randint(0, 6)]])
            if rng.random() < 0.3:
                script.append([10, [0, rng.randint(0, 6)]])
        else:
            if not started:
                script.append([6])
                started = True
            script.append([8])
        if n_gates and rng.random() < 0.3:
            script.append([7, rng.randint(0, n_gates - 1)])
        if started and rng.random() < 0.3:
            script.append([8])
    # a random completion order for what is left, interleaved with polls
    if rng.random() < 0.8:
        order = list(range(n_gates))
        rng.shuffle(order)
        if not started and rng.random() < 0.7:
            script.append([6])
        for k in order:
            script.append([7, k])
            if rng.random() < 0.6:
                script.append([8])
    return finish(mode, script, "ids" if ids_focus else "session")


def gen_cross(rng):
    """data registered from another thread while the stream is polling (cmd 20): some ordinary futures,
    one whose first poll lets a second thread call write_async, polls, completions in a random order"""
    mode = rng.choice([0, 0, 1, 4])
    script = []
    if mode == 1:
        script.append([1, 1])
    n_ids = 0
    n_gates = 0
    for _ in range(rng.randint(0, 2)):
        script.append([0])
        n_ids += 1
        script.append([2, [1, n_ids - 1], cps(text(rng, 5))])
        n_gates += 1
    script += [[0], [0]]
    n_ids += 2
    script.append([20, [1, n_ids - 2], cps(text(rng, 5)), [1, n_ids - 1], cps(text(rng, 5))])
    n_gates += 2
    if rng.random() < 0.5:
        script.append([0])
        n_ids += 1
        script.append([2, [1, n_ids - 1], cps(text(rng, 4))])
        n_gates += 1
    script.append([6])
    script.append([8])
    order = list(range(n_gates))
    rng.shuffle(order)
    for k in order:
        script.append([7, k])
        if rng.random() < 0.6:
            script.append([8])
    return finish(mode, script, "cross-thread")


def gen_consume(rng):
    """several futures, then consume_buffers() with a random completion order (also orders in
    which a later-registered future completes first); sometimes the stream afterwards"""
    mode = 1 if rng.random() < 0.2 else 0
    script = []
    if mode:
        script.append([1, 1])
    n_gates = 0
    n_ids = 0
    for _ in range(rng.randint(2, 6)):
        r = rng.random()
        if r < 0.45:
            script.append([0])
            n_ids += 1
            script.append([2, [1, n_ids - 1], cps(text(rng, 5))])
            n_gates += 1
        elif r < 0.85:
            kind = rng.choice([0, 1, 2])
            script.append(res_cmd(rng, text(rng, 5), kind=kind))
            if kind != 2:
                n_gates += 1
        else:
            script.append([3, [0, rng.randint(0, 3)], [0, rng.randint(0, 9)], cps(text(rng, 4))])
    pre = [k for k in range(n_gates) if rng.random() < 0.3]
    for k in pre:
        script.append([7, k])
    order = list(range(n_gates))
    rng.shuffle(order)
    if rng.random() < 0.5:
        order = list(reversed(range(n_gates)))
    if rng.random() < 0.3:
        order = order[:rng.randint(0, len(order))]
    script.append([14, order])
    if rng.random() < 0.3:
        script.append([0])
        n_ids += 1
        script.append([2, [1, n_ids - 1], cps(text(rng, 4))])
    return finish(mode, script, "consume")


def generate(rng, tier):
    n = 4200 if tier == "quick" else 100000
    batch = []
    # every size boundary once with each binary encoding, then a random sample of sizes
    for nb in SIZES:
        for codec in (2, 6):
            batch.append(lambda nb=nb, codec=codec: finish(
                0, [res_cmd(rng, sized_payload(rng, nb, codec), codec)], "sized"))
    for i in range(60 if tier == "quick" else 600):
        batch.append(lambda: gen_sized(rng))
    for i in range(n // 10):
        batch.append(lambda: gen_consume(rng))
    for i in range(n // 8):
        batch.append(lambda: gen_boundary(rng))
    for i in range(n // 12):
        batch.append(lambda: gen_response(rng))
    for i in range(n // 14):
        batch.append(lambda: gen_wake(rng))
    for i in range(12 if tier == "quick" else 200):
        batch.append(lambda: gen_many(rng))
    for i in range(12 if tier == "quick" else 100):
        batch.append(lambda: gen_cross(rng))
    for i in range(n):
        r = rng.random()
        if r < 0.30:
            batch.append(lambda: gen_payload(rng))
        elif r < 0.45:
            batch.append(lambda: gen_error(rng))
        elif r < 0.60:
            batch.append(lambda: gen_resource(rng))
        elif r < 0.90:
            batch.append(lambda: gen_session(rng))
        else:
            batch.append(lambda: gen_session(rng, True))
    # classify the whole alphabet once (one harness call) before building cases
    classify_chars({ord(c) for p in PIECES for c in p} | set(range(0, 0x100)))
    for f in batch:
        yield f()


# ----------------------------------------------------------------------------- oracle
def s_of(v):
    return "".join(chr(x) for x in v)


def js_num(n):
    return float(n)


import re

START_TAG = re.compile(r'<script( nonce="[A-Za-z0-9_-]+")?>')


def response_script(html):
    """a chunk as build_response sends it: one complete <script> element. Returns
    (script text, problem)"""
    m = START_TAG.match(html)
    if not m:
        return "", "does not start with a <script> start tag"
    rest = J.preprocess(html[m.end():])
    src, end, flags = J.script_content(rest)
    if end is None:
        return src, "the script element is never closed (%s)" % ", ".join(sorted(flags) or ["eof"])
    if rest[end:] != "</script>":
        return src, "the script element ends early, at offset %d of %d" % (end, len(rest) - 9)
    return src, None


def decode_wire(codec, got, payload):
    """from-scratch decoding of the string the browser reads; returns (value, problem)"""
    if codec in (0, 3, 4):
        try:
            return json.loads(got), None
        except Exception as ex:
            return None, "JSON payload does not parse in the browser (%s): %r" % (ex, got[:80])
    if codec in (2, 5, 6):
        val = b64_nopad_decode(got)
        if val is None:
            return None, "the browser reads %r..., which is not unpadded standard base64 (%d chars)" % (got[:40], len(got))
        if codec == 5:
            return payload, None      # the archive format is rkyv's business; the bytes arrive (wire check)
        if codec == 6:
            return "".join(chr(b) for b in val), None
        try:
            return val.decode("utf-8"), None
        except UnicodeDecodeError:
            return None, "base64 payload decodes to bytes that are not the value's UTF-8"
    return got, None


def oracle(item, impl):
    case = item["case"]
    if case[0] != 1:
        return None
    if isinstance(impl, str):
        return "harness error / panic: " + impl
    mode, script = case[1], case[3]
    islands = mode == 1
    wrapped = mode in (2, 3)
    log = impl
    li = 0
    hyd = not islands
    ids = []
    client_expect = []      # per browser-side next_id call: ('id', server id) | ('res', codec, payload) | ('boundary', n)
    writes = {}             # id -> list of payloads expected under it
    errors = []             # (b, e, msg, must_deliver)
    sealed = set()
    incompletes = []        # (id, must_deliver)
    g = {}
    problems = []
    n_chunks = [0]
    by_consume = {}         # id -> strings that left the context through consume_buffers()
    consumed = [False]
    taken = []              # errors that left through take_errors()
    boundaries = []         # real <ErrorBoundary/>s: dict(sid=, repeated=, thrown=[(e, msg)])
    n_gates = [0]
    in_buffer = set()       # futures handed to write_async
    done = set()
    armed = set()           # futures that were pending in the buffer when the latest poll returned Pending
    must_wake = [False]

    def resolve(src):
        if src[0] == 1:
            return ids[src[1]] if src[1] < len(ids) else 0
        return src[1]

    def stream_over():
        return "__INCOMPLETE_CHUNKS" in g

    def take_entry():
        nonlocal li
        if li >= len(log):
            raise ValueError("log shorter than the script")
        e = log[li]
        li += 1
        return e

    def on_poll_entry(e):
        must_wake[0] = False
        armed.clear()
        if e[0] == 8 and e[1] == 1:
            armed.update(k for k in in_buffer if k not in done)
        if e[0] == 8 and e[1] == 0:
            chunk = s_of(e[2])
            k = n_chunks[0]
            n_chunks[0] += 1
            if wrapped:
                src, prob = response_script(chunk)
            else:
                src, prob = J.script_element_text(chunk)
            if prob:
                problems.append("chunk %d %r: %s" % (k, chunk[:80], prob))
            try:
                J.Interp(g).run(src)
            except J.JSError as ex:
                problems.append("chunk %d %r is not a valid script: %s" % (k, chunk[:80], ex))

    def next_id_entry():
        e = take_entry()
        if e[0] != 0:
            raise ValueError("expected an id entry, found %r" % (e[:1],))
        i = int(s_of(e[1]))
        ids.append(i)
        return i

    def resource(kind, codec, payload):
        e = take_entry()
        if e[0] != 13 or e[1] != 1:
            problems.append("codec %d, kind %d: the real browser-side construction of the resource, reading the string "
                            "the server-side codec produced for the %d-byte value, does not hydrate with that value"
                            % (codec, kind, len(s_of(payload).encode("utf-8"))))
        wire = s_of(e[2]) if len(e) > 2 else None
        if kind != 2:
            if hyd:
                in_buffer.add(n_gates[0])
            n_gates[0] += 1
        if not islands or hyd:
            client_expect.append(("res", codec, s_of(payload), wire) if not (stream_over() or consumed[0]) else ("late",))

    def boundary(children):
        """construction: the boundary's id, then its children's; returns the rendering walk"""
        b = dict(sid=next_id_entry(), repeated=(not islands or hyd), thrown=[])
        boundaries.append(b)
        if b["repeated"]:
            client_expect.append(("boundary", len(boundaries) - 1))
        walk = []
        for ch in children:
            if ch[0] == 1:
                walk.append((b, ch[1]))
            elif ch[0] == 2:
                resource(ch[1], ch[2], ch[3])
            elif ch[0] == 3:
                walk.extend(boundary(ch[1]))
        return walk

    for cmd in script:
        op = cmd[0]
        if op == 0:
            i = next_id_entry()
            if not islands or hyd:
                client_expect.append(("id", i))
        elif op == 1:
            hyd = bool(cmd[1])
        elif op == 2:
            in_buffer.add(n_gates[0])
            n_gates[0] += 1
            if not stream_over() and not consumed[0]:
                writes.setdefault(resolve(cmd[1]), []).append(s_of(cmd[2]))
        elif op == 20:
            # two registrations: the second one is made by another thread while the stream polls the first
            for src, txt in ((cmd[1], cmd[2]), (cmd[3], cmd[4])):
                in_buffer.add(n_gates[0])
                n_gates[0] += 1
                if not stream_over() and not consumed[0]:
                    writes.setdefault(resolve(src), []).append(s_of(txt))
        elif op == 3:
            errors.append((resolve(cmd[1]), resolve(cmd[2]), s_of(cmd[3]), not stream_over()))
        elif op == 4:
            sealed.add(resolve(cmd[1]))
        elif op == 5:
            incompletes.append((resolve(cmd[1]), not stream_over()))
        elif op == 7:
            k = cmd[1]
            if k < n_gates[0] and k not in done:
                if k in armed:
                    must_wake[0] = True
                done.add(k)
        elif op == 8:
            on_poll_entry(take_entry())
        elif op in (9, 10, 18):
            take_entry()
        elif op == 12:
            resource(cmd[1], cmd[2], cmd[3])
        elif op == 14:
            # the futures completed while consume_buffers() was pending, then its result
            e = take_entry()
            while e[0] == 7:
                done.add(e[1])
                e = take_entry()
            if e[0] != 14:
                problems.append("consume_buffers did not finish (marker %r)" % (e[0],))
            else:
                for pid, pdata in e[1]:
                    by_consume.setdefault(int(s_of(pid)), []).append(s_of(pdata))
            consumed[0] = True
            in_buffer.clear()
        elif op == 15:
            if log[li:li + 1] and log[li][0] == 95:
                problems.append("<ErrorBoundary/> consumed %d ids where its construction and its thrown errors account for %d"
                                % (log[li][2], log[li][1]))
                break
            over = stream_over()
            for b, msg in boundary(cmd[2]):
                # thrown while rendering: the hook takes an id for the error (the browser's hook
                # does too when it re-throws) and registers it under its boundary
                e_id = next_id_entry()
                if b["repeated"]:
                    client_expect.append(("id", e_id))
                b["thrown"].append((e_id, s_of(msg)))
                errors.append((b["sid"], e_id, s_of(msg), not over))
        elif op == 19:
            # a real <Suspense/> / <Transition/>: one id; if its children read a LocalResource the
            # browser has to find that id among the incomplete chunks
            i = next_id_entry()
            if not islands or hyd:
                client_expect.append(("id", i))
            if cmd[3]:
                incompletes.append((i, not stream_over()))
        elif op == 16:
            e = take_entry()
            if must_wake[0] and not e[1]:
                problems.append("a value completed after poll_next returned Pending, but the waker of that poll was "
                                "not woken: the response would never continue, the value never reach the browser")
        elif op == 17:
            e = take_entry()
            for b, i, m in e[1]:
                taken.append((js_num(int(s_of(b))), js_num(int(s_of(i))), s_of(m)))
    client_ids = None
    for e in log[li:]:
        if e[0] == 8:
            on_poll_entry(e)
        elif e[0] == 11:
            client_ids = [int(s_of(x)) for x in e[1]]
        elif e[0] in (98, 99):
            problems.append("the stream did not run to completion (marker %d)" % e[0])
    if problems:
        return problems[0]
    if client_ids is None or len(client_ids) != len(client_expect):
        return "browser-side id count differs: %r vs %d calls" % (client_ids, len(client_expect))

    resolved = g.get("__RESOLVED_RESOURCES")
    if not isinstance(resolved, J.JSArray):
        return "__RESOLVED_RESOURCES is not an array after the scripts ran"

    def read(i):
        """the string the browser finds under id i: from the scripts, or — for what left the
        context through consume_buffers() — what a custom hydration context would hand over"""
        v = resolved.get(js_num(i))
        if isinstance(v, J.JSString):
            return v.rust()
        got = by_consume.get(i)
        if got:
            return got[0] if len(got) == 1 else None
        return None

    # ids handed out to hydrated code agree between server and browser; the n-th resource
    # created in the browser finds the n-th resource's value
    for cid, exp in zip(client_ids, client_expect):
        if exp[0] == "id":
            if exp[1] != cid:
                return "id mismatch: the server handed out %d where the browser hands out %d" % (exp[1], cid)
        elif exp[0] == "boundary":
            b = boundaries[exp[1]]
            b["cid"] = cid
            if b["sid"] != cid:
                return ("boundary id mismatch: the server's <ErrorBoundary/> registers its errors under %d, the browser's "
                        "asks for the errors of %d" % (b["sid"], cid))
        elif exp[0] == "res":
            got = read(cid)
            if got is None:
                return "resource created %d-th in the browser finds no data under id %d" % (client_ids.index(cid), cid)
            if exp[3] is not None and got != exp[3]:
                return ("id %d: the browser reads %r..., the codec handed over %r... (%d vs %d chars)"
                        % (cid, got[:60], exp[3][:60], len(got), len(exp[3])))
            val, prob = decode_wire(exp[1], got, exp[2])
            if prob:
                return "id %d: %s" % (cid, prob)
            want = "".join(chr(ord(c) % 256) for c in exp[2]) if exp[1] == 6 else exp[2]
            if val != want:
                return "id %d: browser reads %r, server wrote %r" % (cid, val[:80] if isinstance(val, str) else val, want[:80])
    for i, payloads in writes.items():
        got = read(i)
        if got is None:
            return "no data arrived under id %d" % i
        if got not in payloads if len(payloads) > 1 else got != payloads[0]:
            return "id %d: browser reads %r, server wrote %r" % (i, got[:80], payloads[0][:80])

    # errors
    ser = g.get("__SERIALIZED_ERRORS")
    if not isinstance(ser, J.JSArray):
        return "__SERIALIZED_ERRORS is not an array after the scripts ran"
    in_scripts = []
    for t in ser.items():
        if not isinstance(t, J.JSArray) or t.length != 3:
            return "malformed __SERIALIZED_ERRORS entry"
        b, e, m = t.items()
        if not isinstance(b, float) or not isinstance(e, float) or not isinstance(m, J.JSString):
            return "malformed __SERIALIZED_ERRORS entry (types)"
        in_scripts.append((b, e, m.rust()))
    delivered = in_scripts + taken        # take_errors() is the other way errors leave the context
    pool = [(js_num(b), js_num(e), m) for b, e, m, _ in errors]
    for d in delivered:
        if d in pool:
            pool.remove(d)
        else:
            return "browser reads an error that was never registered (or reads it twice): %r" % (d,)
    for b, e, m, must in errors:
        if must and b not in sealed and (js_num(b), js_num(e), m) not in delivered:
            return "error (%d, %d, %r) never reaches the browser" % (b, e, m[:80])
    # what the browser's <ErrorBoundary/> finds under its id is what was registered for that very
    # boundary: thrown in it, or registered under its id by hand — never the errors of another one
    for bd in boundaries:
        if "cid" not in bd:
            continue
        own = [(js_num(bd["sid"]), js_num(e), m) for e, m in bd["thrown"]]
        own += [(js_num(b), js_num(e), m) for b, e, m, _ in errors
                if b == bd["sid"] and (e, m) not in bd["thrown"]]
        foreign = [(js_num(o["sid"]), js_num(e), m) for o in boundaries if o is not bd for e, m in o["thrown"]]
        for d in in_scripts:
            if d[0] == js_num(bd["cid"]) and d in foreign and own.count(d) < in_scripts.count(d):
                return ("the browser's <ErrorBoundary/> with id %d reads the error %r, which was thrown in a different "
                        "boundary" % (bd["cid"], d))

    inc = g.get("__INCOMPLETE_CHUNKS")
    if not isinstance(inc, J.JSArray):
        return "__INCOMPLETE_CHUNKS is not an array after the scripts ran"
    got_inc = inc.items()
    want = [js_num(i) for i, _ in incompletes]
    for x in got_inc:
        if x not in want:
            return "browser reads an incomplete-chunk id that was never set: %r" % (x,)
    for i, must in incompletes:
        if must and js_num(i) not in got_inc:
            return "incomplete-chunk id %d never reaches the browser" % i
    return None


CODECS = (0, 1, 2, 3, 4, 5, 6)


def valid_children(children, depth=0):
    if not isinstance(children, list) or depth > 6:
        return False
    for ch in children:
        if not isinstance(ch, list) or not ch:
            return False
        if ch[0] in (0, 1):
            if len(ch) != 2 or not isinstance(ch[1], list):
                return False
        elif ch[0] == 2:
            if len(ch) != 5 or ch[1] not in (0, 1, 2) or ch[2] not in CODECS or not isinstance(ch[3], list) \
                    or not (isinstance(ch[4], int) and 0 <= ch[4] < 64):
                return False
        elif ch[0] == 3:
            if len(ch) != 2 or not valid_children(ch[1], depth + 1):
                return False
        else:
            return False
    return True


def count_ids(children):
    """ids an <ErrorBoundary/> with these children takes for itself, nested boundaries and errors"""
    n = 1
    for ch in children:
        if ch[0] == 1:
            n += 1
        elif ch[0] == 3:
            n += count_ids(ch[1])
    return n


def count_resources(children):
    return sum(1 if ch[0] == 2 else count_resources(ch[1]) if ch[0] == 3 else 0 for ch in children)


def valid_case(item):
    """generator preconditions (the shrinker keeps only candidates satisfying them): well-formed
    commands over scalar-value strings, the Debug-escape table of the case covers its strings
    exactly as real Rust classifies them, only an islands script switches hydration off, the
    build_response modes use neither consume_buffers() nor <ErrorBoundary/> (they need the bare
    context), and the compare flag says whether the case is inside the model"""
    case = item["case"]
    try:
        if case[0] != 1 or len(case) != 4 or case[1] not in (0, 1, 2, 3, 4):
            return False
        mode, escset, script = case[1], case[2], case[3]
        arity = {0: (1,), 1: (2,), 2: (3,), 3: (4,), 4: (2,), 5: (2,), 6: (1,), 7: (2,), 8: (1,), 9: (2,), 10: (2,),
                 12: (4, 5), 14: (2,), 15: (3,), 16: (1,), 17: (1,), 18: (1,), 19: (4,)}
        chars = set()
        n_ids = 0            # ids handed out to the script so far: what (1 k) may refer to
        consumers = 0
        literal_write = False
        for cmd in script:
            if not isinstance(cmd, list) or not cmd or cmd[0] not in arity or len(cmd) not in arity[cmd[0]]:
                return False
            op = cmd[0]
            if op == 2:
                # data is written under an id next_id handed out, or under a number no counter reaches
                a = cmd[1]
                if isinstance(a, list) and len(a) == 2 and a[0] == 1 and not a[1] < n_ids:
                    return False
                if isinstance(a, list) and len(a) == 2 and a[0] == 0:
                    literal_write = min(a[1], literal_write) if literal_write is not False else a[1]
            if op in (0, 19):
                n_ids += 1
                consumers += 1
            elif op == 12:
                consumers += 1
            elif op == 15 and valid_children(cmd[2]):
                k = count_ids(cmd[2])
                n_ids += k
                consumers += k + count_resources(cmd[2])
            if op == 1 and (cmd[1] not in (0, 1) or (mode != 1 and cmd[1] == 0)):
                return False
            if op in (14, 15, 19) and mode in (2, 3):
                return False
            if op == 19 and (cmd[1] not in (1, 2) or cmd[2] not in (0, 1) or cmd[3] not in (0, 1)):
                return False
            srcs = {2: [1], 3: [1, 2], 4: [1], 5: [1], 9: [1], 10: [1]}.get(op, [])
            for k in srcs:
                a = cmd[k]
                if not (isinstance(a, list) and len(a) == 2 and a[0] in (0, 1) and isinstance(a[1], int) and 0 <= a[1] < 2 ** 53):
                    return False
            if op == 14 and not (isinstance(cmd[1], list) and all(isinstance(k, int) and 0 <= k < 1000 for k in cmd[1])):
                return False
            if op == 7 and not (isinstance(cmd[1], int) and 0 <= cmd[1] < 1000):
                return False
            if op == 12 and (cmd[1] not in (0, 1, 2) or cmd[2] not in CODECS
                             or (len(cmd) == 5 and not (isinstance(cmd[4], int) and 0 <= cmd[4] < 64))):
                return False
            if op == 15 and (cmd[1] not in (0, 1, 2) or not valid_children(cmd[2])):
                return False
        if bool(item.get("compare", True)) != compared(mode, script) or not ready_ok(script):
            return False
        if literal_write is not False and literal_write < consumers:
            return False
        for s in strings_of(script):
            if not isinstance(s, list):
                return False
            for c in s:
                if not isinstance(c, int) or not (0 <= c < 0xD800 or 0xE000 <= c <= 0x10FFFF):
                    return False
                chars.add(c)
        cls = classify_chars(chars)
        return all((cls[c] == 1) == (c in escset) for c in chars)
    except Exception:
        return False


B64 = "ABCDEFGHIJKLMNOPQRSTUVWXYZabcdefghijklmnopqrstuvwxyz0123456789+/"


def b64_nopad_decode(s):
    """RFC 4648 base64, standard alphabet, no padding, canonical trailing bits (what
    base64::engine::general_purpose::STANDARD_NO_PAD accepts); None if s is not that"""
    vals = []
    for ch in s:
        k = B64.find(ch)
        if k < 0:
            return None
        vals.append(k)
    if len(vals) % 4 == 1:
        return None
    out = bytearray()
    for i in range(0, len(vals) - len(vals) % 4, 4):
        a, b_, c, d = vals[i:i + 4]
        out += bytes([(a << 2) | (b_ >> 4), ((b_ & 15) << 4) | (c >> 2), ((c & 3) << 6) | d])
    rest = vals[len(vals) - len(vals) % 4:]
    if len(rest) == 2:
        if rest[1] & 15:
            return None
        out.append((rest[0] << 2) | (rest[1] >> 4))
    elif len(rest) == 3:
        if rest[2] & 3:
            return None
        out += bytes([(rest[0] << 2) | (rest[1] >> 4), ((rest[1] & 15) << 4) | (rest[2] >> 2)])
    return bytes(out)


def nontrivial(item, model):
    case = item["case"]
    if case[0] != 1:
        return False
    strs = strings_of(case[3])
    special = any(any(c in (60, 34, 92) or c < 32 or c in case[2] for c in s) for s in strs)
    return special or len(strs) >= 2


def classify(item, impl, model):
    return None


CODEC_NAMES = {0: "json", 1: "str", 2: "bytes", 3: "miniserde", 4: "serde-lite", 5: "rkyv", 6: "raw-bytes"}
KIND_NAMES = {0: "Resource", 1: "OnceResource", 2: "SharedValue"}


def describe_res(kind, codec, payload, variant):
    v = []
    if variant & 4:
        v.append("Arc")
    if variant & 2:
        v.append("named-ctor")
    if variant & 1:
        v.append("blocking")
    if variant & 8:
        v.append("arena-in-browser")
    if variant & 16:
        v.append("ready-at-once")
    if variant & 32:
        v.append("browser-context-by-Default")
    return "%s<%s>%s(%r)" % (KIND_NAMES.get(kind, "?"), CODEC_NAMES.get(codec, "?"),
                             ("[" + ",".join(v) + "]") if v else "", s_of(payload)[:60])


def describe_children(children):
    out = []
    for ch in children:
        if ch[0] == 0:
            out.append("Ok(%r)" % s_of(ch[1]))
        elif ch[0] == 1:
            out.append("Err(%r)" % s_of(ch[1]))
        elif ch[0] == 2:
            out.append(describe_res(ch[1], ch[2], ch[3], ch[4]))
        else:
            out.append("<ErrorBoundary>%s</ErrorBoundary>" % describe_children(ch[1]))
    return " ".join(out)


def describe(it):
    case = it["case"]
    if case[0] != 1:
        return "debug classes of %r" % s_of(case[1])
    names = {0: "next_id", 1: "set_is_hydrating", 2: "write_async", 3: "register_error", 4: "seal_errors",
             5: "set_incomplete_chunk", 6: "pending_data", 7: "complete", 8: "poll", 9: "errors", 10: "get_incomplete_chunk",
             12: "resource", 14: "consume_buffers", 16: "was-the-latest-waker-woken?", 17: "take_errors", 18: "await_deferred",
             20: "write_async+second-thread-write_async-during-the-first-poll"}
    out = []
    for cmd in case[3]:
        if cmd[0] == 12:
            out.append(describe_res(cmd[1], cmd[2], cmd[3], cmd[4] if len(cmd) > 4 else 0))
            continue
        if cmd[0] == 19:
            out.append("stream[%s](<%s>%s</%s>)" % (["?", "in-order", "out-of-order"][cmd[1]], ["Suspense", "Transition"][cmd[2]],
                                                   "{local_resource.get()}" if cmd[3] else "loaded", ["Suspense", "Transition"][cmd[2]]))
            continue
        if cmd[0] == 15:
            out.append("render[%s](<ErrorBoundary>%s</ErrorBoundary>)"
                       % (["to_html", "in-order", "out-of-order"][cmd[1]], describe_children(cmd[2])))
            continue
        args = []
        for a in cmd[1:]:
            if isinstance(a, list) and len(a) == 2 and cmd[0] in (2, 3, 4, 5, 9, 10) and a[0] in (0, 1) and not (cmd[0] in (2,) and a is cmd[2]):
                args.append(("id#%d" % a[1]) if a[0] == 1 else str(a[1]))
            elif isinstance(a, list):
                args.append(repr(s_of(a)))
            else:
                args.append(str(a))
        out.append("%s(%s)" % (names.get(cmd[0], "?"), ", ".join(args)))
    mode = {0: "", 1: "islands: ", 2: "build_response: ", 3: "build_response+nonce: ", 4: "SsrSharedContext::default(): "}[case[1]]
    return mode + "; ".join(out)


def coverage_extra(results):
    chunks = 0
    lits = 0
    for r in results:
        if isinstance(r["impl"], list):
            for e in r["impl"]:
                if isinstance(e, list) and len(e) == 3 and e[0] == 8 and e[1] == 0:
                    chunks += 1
                    lits += e[2].count(34) // 2
    return {"chunks_evaluated_by_reference_interpreter": chunks, "string_literals_decoded": lits}


LEVEL_TEXT = ("Coq proofs, for all strings of Unicode scalar values and every Debug-escape table, that the string literal "
              "ssr.rs emits decodes under the ECMAScript string-literal grammar to exactly the string written, that every byte "
              "buffer sent through the binary encoding (base64) is decoded back to exactly that buffer, that no "
              "emitted chunk contains '<' (hence neither </script nor <!--), whatever payloads, error messages, ids and "
              "completion orders, and that the ids handed out to hydrated code on the server are 0,1,2,... exactly as "
              "the browser hands them out, disjoint from the ids of non-hydrated regions \u2014 about an executable Gallina "
              "transcription of SsrSharedContext/AsyncDataStream/js_string and HydrateSharedContext::next_id; tied to "
              "/repo by running that model (extracted) and the real types on the same thousands of scripted sessions "
              "(including real Resource/OnceResource/SharedValue through every constructor and encoding, real <ErrorBoundary/> "
              "trees and the real build_response wrapping, for which the script element is proved to end exactly at the appended "
              "end tag) every run, plus an independent Python HTML-script-data tokenizer + JavaScript interpreter as oracle.")
LEVEL_NOTE = ("Trusted: Coq kernel, extraction + OCaml driver, the Rust harness. Modelled, not verified: Rust's Unicode "
              "escape tables (passed in per case from the real formatter; theorems hold for any table), serde_json string "
              "escaping, the JS literal grammar and the UTF-16 -> Rust conversion on the browser side; compared, not proved: the "
              "context-level reading of <ErrorBoundary/>; oracle only: rkyv bytes, nonce start tag, waker contract, take_errors. No axioms.")
TECHNIQUE = "Coq proof (induction over strings, sessions and event traces) + differential correspondence of the extracted model with the Rust code"
