"""C20 — concurrent server renders never see each other's state."""
import hashlib
import importlib.machinery
import itertools
import os
import sys

from . import common as C

PID = "C20"
PROPS_V = "theories/Props/Properties_C20.v"
MODEL_NAME = "Reactive/Ambient.v"
RUN_IMPORT = "Reactive.AmbientRun"
HARNESS = "iso"
HARNESS_ARGS = ["c20"]
ALLOWED_AXIOMS = []
READY = True
SHRINK_PREFIX = 5
IMPL_TIMEOUT = 1500


def _sb_target():
    if C.REPO == "/repo":
        return os.path.join(C.BUILD, "target", "iso_sb")
    tag = hashlib.sha1(C.REPO.encode()).hexdigest()[:8]
    return os.path.join(C.BUILD, "target", "iso_sb-alt-" + tag)


# the default-feature binary forwards cases with sandboxed = 1 to the binary built with
# `--features sandboxed` (reactive_graph/sandboxed-arenas + the real leptos_integration_utils)
HARNESS_ENV = {"H_ISO_SB": os.path.join(_sb_target(), "release", "h_iso")}

RULE = ("a case = (obs sandboxed stream pipeline fine programs schedule): 2-3 requests, each a view program from the grammar text / "
        "context-printing leaf / reactive closure (two kinds: rendered under a fixed owner, or under a timing-dependent one) / element / sequence / <Provider> / Suspend(gate) / <Suspense> / "
        "Resource and OnceResource whose fetcher reads context before and after a gate / on_cleanup / StoredValue "
        "and RwSignal allocation + later read / a reactive_graph::spawn background task reading a handle (oracle-only cases), "
        "plus (anchor coverage audit, coverage/C20.md) leaves reading context through expect_context / with_context / update_context / take_context / "
        "use_context_bidirectional, <For>/<ForEnumerate> rows, <Transition>, Unsuspend, components using Owner::new / child / cleanup / with_cleanup directly, "
        "leaves using the request's SsrSharedContext directly (next_id, errors, incomplete chunks, with_hydration / with_no_hydration, axum ResponseOptions), "
        "<Router> with <FlatRoutes> / nested <Routes>+<ParentRoute>+<Outlet> / fallback whose route views report the request's route parameter, "
        "every resource constructor (Resource / OnceResource / ArcResource / ArcOnceResource x blocking x string codec, AsyncDerived / ArcAsyncDerived, Arc->arena conversion, LocalResource / ArcLocalResource) "
        "read by .await / .get() under <Suspense> / by_ref / ready / map, spawn_local_scoped(_with_cancellation) tasks; "
        "or a SERVER-FUNCTION request handled by the shipped leptos_axum::handle_server_fns_with_context whose body reads context, allocates, registers a cleanup and awaits a gate. "
        "Pages are rendered concurrently like integrations/utils build_response + from_app "
        "(hand transcription, the real from_app, or the real leptos_axum page handlers (one handler shared by all requests) in the sandboxed build) with the 4 stream builders of the integrations "
        "(out-of-order, in-order lazy, in-order eager, async = builder collects the stream) on the harness-owned executor. Coarse "
        "schedules (start = build_response + first poll / create = build_response only, first poll later / complete gate g / run request to quiescence / finish) are enumerated exhaustively as all "
        "interleavings of the two requests' action lists (three shapes: start first, both created before any poll, future completed before the first poll) for small program pairs and drawn from the PRNG (VERIF_SEED) "
        "beyond (plus oracle-only schedules in which a response is dropped from outside while another request is current and tasks that outlive their request are polled afterwards), in configurations arenas global or sandboxed x stream builder x pipeline and emitted "
        "twice: obs=0 (abstract trace, compared with the Coq model when every construct is modelled) and obs=1 (responses + solo replays, for the "
        "oracle). Fine schedules (every single task poll / gate completion chosen by the case) over deeper programs are "
        "oracle-only. A case is non-trivial when at least two requests are in flight at the same time and one of them "
        "has an await; distinct = distinct case hash.")
TRUSTED = [
    "Coq 8.16.1 kernel (coqc); no axioms: every theorem of Properties_C20.v is 'Closed under the global context'",
    "extraction to OCaml with ExtrOcamlBasic only, ocamlfind ocamlopt 4.13.1, extract/driver.ml sexp I/O",
    "harness/iso (Rust): its executor (one queue, wakers = flags, attribution of spawned tasks to the request whose "
    "action is running), its view builders for the grammar, its transcription of build_response/from_app and of the four "
    "stream builders of integrations/axum|actix for the non-sandboxed build (the sandboxed build can and does drive the real "
    "leptos_integration_utils::from_app: pipeline 1, and the real leptos_axum page and server-function handlers: pipeline 3 / op 22; "
    "the response nonce, random by design, is blanked before responses are compared)",
    "compared, not proved (oracle-only, no Coq counterpart): router, resource constructors/read paths other than Resource::new/"
    "OnceResource::new + .await, Owner::cleanup/with_cleanup by hand, SsrSharedContext API, take_context/use_context_bidirectional, "
    "spawn_local_scoped*, server-function requests, leptos_axum handlers; the actix integration is not driven (same build_response/from_app; "
    "its server-function handler has the axum shape and got the same repair)",
    "modelled, not verified: the mapping from view constructs to wrappers (Ambient.compile: which ScopedFuture / "
    "Owner::with / OwnedView / Sandboxed / spawn each of Suspend, Suspense, Provider, Resource, OnceResource, "
    "build_response applies) is hand-transcribed; THAT THE CODE APPLIES A WRAPPER AT EVERY BOUNDARY is not proved — "
    "it is what the differential runs check (abstract trace equality + solo-equivalence oracle)",
    "modelled, not verified: SlotMap keys (global arena: never valid twice, named (allocating request, n); sandboxed "
    "arena: same allocation order => same keys), Weak<OwnerInner> upgrade = 'request not dropped', the OBSERVER "
    "thread-local is carried and restored by the wrappers but not observed by the harness",
    "intra-request timing is abstracted: the abstract trace is the per-request *set* of probe observations and omits "
    "the nested-Provider context of reactive closures (kind 2), both of which depend on when within its own request a "
    "Suspend resolves; compared cases therefore keep awaits un-nested (async depth 1)",
]
ASSUMPTIONS = [
    "one server thread (the harness executor is single-threaded): isolation between threads is OWNER/MAP being "
    "thread-locals and is not exercised; the theorems are about any interleaving of polls on one thread",
    "requests are started through build_response / from_app (or a transcription of it); code that polls "
    "to_html_stream_* by hand outside Owner::with is outside the discipline (pipeline 2 shows it leaks)",
    "view programs are closed over their own request's handles only (a handle is read inside the scope that allocated it)",
]
LEVEL_TEXT = ("Level: proof of the scoping discipline, partial for adherence. Coq proofs about an executable model of the "
              "thread-local ambient state (OWNER, OBSERVER, arena MAP) and of the wrappers exactly as coded (Owner::with "
              "restores the owner but not the arena, ScopedFuture restores owner+observer, Sandboxed and new_root restore "
              "nothing): if every ambient-dependent step of every task sits inside a wrapper holding an owner of its own "
              "request, then for ALL interleavings of task polls, gate completions and request starts of any number of "
              "requests (global or sandboxed arenas) every probe of request r observes r's owner, and request r's whole "
              "component (log of observations, owners, contexts, arena items, cleanups) equals the one of the run that "
              "contains r's events only (solo equivalence), and dropping r's root changes nothing of r' != r; a bare "
              "(unwrapped) task provably observes another request's context. That leptos applies the wrappers at every "
              "boundary is NOT proved: it is checked every run by rendering 2-3 generated async programs concurrently "
              "through build_response/from_app on a controlled executor under enumerated and random interleavings, "
              "comparing the abstract trace with the model and each response with the solo replay of the same request.")
LEVEL_NOTE = ("Trusted: Coq kernel, extraction, the Rust harness (executor, view builders, transcription of "
              "build_response for the non-sandboxed build), the hand-written map construct->wrappers (Ambient.compile). "
              "Single thread only; intra-request timing abstracted (sets of observations; async depth 1 in compared "
              "cases). Router, resource variants / synchronous reads, SsrSharedContext API, server-function requests and the "
              "real leptos_axum handlers are compared (solo-replay oracle), not proved. No axioms.")
TECHNIQUE = ("Coq proof (non-interference: invariant 'inside a wrapper the ambient owner/arena belong to the polled "
             "task's request' by nested induction on task programs, then induction on the schedule) + differential "
             "correspondence of the extracted model with real concurrent SSR renders + solo-replay oracle")

# ------------------------------------------------------------------------------------------ programs
TEXT, LEAF, DYN, EL, SEQ, PROVIDE, SUSPEND, SUSPENSE, RESOURCE, CLEANUP, ALLOC, ITEM, DYNL, BGREAD = range(14)
# added by the anchor coverage audit (coverage/C20.md)
CTXLEAF, ROUTER, RES2, OWNERAPI, SCLEAF, FOR, TRANSITION, UNSUSPEND, SFN = range(14, 23)


class Gen:
    """random view program. flat = awaits are not nested (children of async nodes are synchronous views)"""

    def __init__(self, rng, maxdepth, ngates, flat, bg=False, ext=0):
        """ext: 0 = the original grammar, 1 = plus the constructs the Coq model covers (context-API
        leaves, For, Transition, Unsuspend, Owner::new), 2 = plus the oracle-only ones (router,
        resource variants and read paths, Owner API, SsrSharedContext API, scoped background tasks)"""
        self.rng, self.maxdepth, self.ng, self.flat, self.bg, self.ext = rng, maxdepth, ngates, flat, bg, ext
        self.p = 0
        self.cid = 0
        self.nslot = 0
        self.routed = False

    def probe(self):
        self.p += 1
        return self.p

    def leaf(self, sync, slots, top=False):
        r = self.rng.random()
        if self.ext and r < 0.2:
            k = self.rng.random()
            if k < 0.55:
                return [CTXLEAF, self.probe(), self.rng.randrange(1, 4 if self.ext < 2 else 6)]
            if k < 0.75 and not sync and not top:
                return [UNSUSPEND, self.probe()]
            if self.ext >= 2:
                return [SCLEAF, self.probe(), self.rng.randrange(6)]
        if r < 0.35:
            return [LEAF, self.probe()]
        if r < 0.65 and not sync:
            # DYNL where the owner the closure is rendered under does not depend on timing
            return [DYN if top else DYNL, self.probe()]
        if r < 0.9 and slots:
            if self.bg and not sync and self.rng.random() < 0.6:
                b = [BGREAD, self.rng.randrange(self.ng), self.probe(), self.rng.choice(slots)]
                return b + [self.rng.randrange(3)] if self.ext >= 2 and self.rng.random() < 0.5 else b
            return [ITEM, self.probe(), self.rng.choice(slots)]
        return [TEXT]

    def view(self, d, sync, slots, top=False, insus=False):
        """top: directly inside the view a Suspend/Resource outside any Suspense resolves to"""
        rng = self.rng
        if d >= self.maxdepth:
            return self.leaf(sync, slots, top)
        if self.ext and not sync and rng.random() < 0.22:
            e = self.ext_view(d, slots, top, insus)
            if e is not None:
                return e
        r = rng.random()
        if r < 0.16:
            return self.leaf(sync, slots, top)
        if r < 0.22:
            return [EL, self.view(d + 1, sync, slots, top, insus)]
        if r < 0.38:
            return [SEQ] + [self.view(d + 1, sync, slots, top, insus) for _ in range(rng.choice([2, 2, 3]))]
        if r < 0.48:
            return [PROVIDE, rng.randrange(1, 4), self.view(d + 1, sync, slots, False, insus)]
        if r < 0.64 and not sync:
            return [SUSPEND, rng.randrange(self.ng), self.probe(), self.view(d + 1, self.flat, slots, not insus, insus)]
        if r < 0.76 and not sync:
            return [SUSPENSE, self.view(self.maxdepth - 1, True, slots), self.view(d + 1, False, slots, False, True)]
        if r < 0.86 and not sync:
            return [RESOURCE, rng.randrange(3), rng.randrange(self.ng), self.probe(), self.probe(), self.probe(),
                    self.view(d + 1, self.flat, slots, not insus, insus)]
        if r < 0.91:
            self.cid += 1
            return [CLEANUP, self.cid, self.view(d + 1, sync, slots, top, insus)]
        self.nslot += 1
        s = self.nslot if rng.random() < 0.6 else 100 + self.nslot
        return [ALLOC, s, self.view(d + 1, sync, slots + [s], top, insus)]


    def ext_view(self, d, slots, top, insus):
        rng = self.rng
        k = rng.random()
        if k < 0.25:      # rows are built when the list is rendered, each under its own owner
            was, self.routed = self.routed, True      # one router per page
            row = self.view(max(d + 1, self.maxdepth - 1), False, slots, False, insus)
            self.routed = was
            if self.ext < 2 and (has_op(row, CLEANUP) or has_op(row, RESOURCE)):
                return None
            return [FOR, rng.randrange(2), rng.randrange(0, 4), row]
        if k < 0.4:
            return [TRANSITION, self.view(self.maxdepth - 1, True, slots), self.view(d + 1, False, slots, False, True)]
        if k < 0.5:
            self.cid += 1
            return [OWNERAPI, 0, self.cid, 0, self.view(d + 1, False, slots, False, insus)]
        if self.ext < 2:
            return None
        if k < 0.65 and not self.routed and not insus and not top:
            self.routed = True
            kind = rng.randrange(3)
            p = self.probe()
            self.probe()
            child = self.view(d + 1, False, slots, False, insus)
            inner = self.view(d + 1, False, slots, False, insus) if kind == 1 else [TEXT]
            return [ROUTER, kind, p, child, inner]
        if k < 0.9:
            kind, mode = rng.randrange(9), rng.randrange(5)
            flags = rng.choice([0, 0, 1, 2, 3])
            p1, p2, p3 = self.probe(), self.probe(), self.probe()
            if mode in (1, 4) or kind >= 7:
                child = self.view(d + 1, self.flat, slots, top, insus)
            else:
                child = self.view(d + 1, self.flat, slots, not insus, insus)
            return [RES2, kind, flags, mode, rng.randrange(self.ng), p1, p2, p3, child]
        self.cid += 1
        mode = rng.randrange(1, 3)
        child = self.view(d + 1, False, slots, False, insus)
        if mode == 1 and not cleanable(child):
            mode = 2
        return [OWNERAPI, mode, self.cid, rng.randrange(self.ng), child]


def cleanable(p):
    """an owner that the program itself cleans up by hand (OWNERAPI mode 1) must not own
    resources that are awaited afterwards: reading a disposed resource panics by design"""
    return not (has_op(p, RESOURCE) or has_op(p, RES2))


def has_op(p, op):
    return p[0] == op or any(has_op(c, op) for c in p[1:] if isinstance(c, list))


def gen_prog(rng, maxdepth, ngates, flat, bg=False, ext=0):
    if bg:      # handles in scope everywhere, so that background reads are frequent
        return [ALLOC, 51, [ALLOC, 151, Gen(rng, maxdepth, ngates, flat, bg, ext).view(0, False, [51, 151])]]
    return Gen(rng, maxdepth, ngates, flat, bg, ext).view(0, False, [])


def gen_sfn(rng, ngates):
    """a server-function request: (22 g p1 p2 p3 slot cid)"""
    return [SFN, rng.randrange(ngates), 1, 2, 3, rng.randrange(1, 90), rng.randrange(1, 50)]


def modelled(p):
    """constructs Ambient.compile / AmbientRun.dec_view transcribe (the others are judged by the
    oracle only: 'compared, not proved')"""
    op = p[0]
    if op > UNSUSPEND or op in (ROUTER, RES2, SCLEAF, BGREAD):
        return False
    if op == CTXLEAF and not 1 <= p[2] <= 3:
        return False
    if op == OWNERAPI and p[1] != 0:
        return False
    if op == FOR and (has_op(p[3], CLEANUP) or has_op(p[3], RESOURCE)):
        # rows may be built more than once (dry_resolve + resolve): cleanups are then registered
        # more than once; the model names a resource's internal future after its probe, so two
        # rows with the same resource would share it
        return False
    return all(modelled(c) for c in p[1:] if isinstance(c, list))


def n_gates(p):
    m = 0
    if p and p[0] in (SUSPEND, BGREAD):
        m = p[1] + 1
    if p and p[0] == RESOURCE:
        m = p[2] + 1
    if p and p[0] == RES2:
        m = p[4] + 1
    if p and p[0] == OWNERAPI and p[1] == 1:
        m = p[3] + 1
    if p and p[0] == SFN:
        m = p[1] + 1
    for c in p[1:]:
        if isinstance(c, list):
            m = max(m, n_gates(c))
    return m


def has_async(p):
    return bool(p) and (p[0] in (SUSPEND, RESOURCE, BGREAD, RES2, SFN) or any(has_async(c) for c in p[1:] if isinstance(c, list)))


SMALL = [
    [SEQ, [LEAF, 1], [SUSPEND, 0, 2, [DYN, 3]], [DYNL, 4]],
    [PROVIDE, 3, [SUSPENSE, [LEAF, 1], [SUSPEND, 0, 2, [SEQ, [LEAF, 3], [DYNL, 4], [PROVIDE, 1, [DYNL, 5]]]]]],
    [PROVIDE, 2, [SEQ, [RESOURCE, 0, 0, 1, 2, 3, [LEAF, 4]], [DYNL, 5]]],
    [ALLOC, 1, [CLEANUP, 7, [SUSPENSE, [TEXT], [RESOURCE, 1, 0, 1, 2, 3, [ITEM, 4, 1]]]]],
    [ALLOC, 101, [SUSPEND, 0, 1, [PROVIDE, 1, [SEQ, [ITEM, 2, 101], [SUSPENSE, [CLEANUP, 3, [TEXT]], [DYNL, 4]]]]]],
    [SEQ, [SUSPEND, 0, 1, [ALLOC, 2, [ITEM, 2, 2]]], [EL, [SUSPENSE, [TEXT], [SUSPEND, 0, 3, [DYNL, 4]]]]],
]


def interleavings(a, b):
    """all merges of two sequences"""
    n, m = len(a), len(b)
    for pos in itertools.combinations(range(n + m), n):
        out, ia, ib = [], 0, 0
        ps = set(pos)
        for i in range(n + m):
            if i in ps:
                out.append(a[ia])
                ia += 1
            else:
                out.append(b[ib])
                ib += 1
        yield out


def req_actions(r, create=False):
    """create: build_response now, first poll at the next run (both requests may thus exist
    before either response future has been polled once)"""
    return [[4 if create else 0, r], [2, r], [1, r, 0], [2, r], [3, r]]


def coarse_sched(rng, n, ngates, length):
    s, started = [], set()
    for _ in range(length):
        r = rng.randrange(1, n + 1)
        if r not in started:
            s.append([4 if rng.random() < 0.5 else 0, r])
            started.add(r)
            continue
        k = rng.random()
        if k < 0.4:
            s.append([1, r, rng.randrange(max(1, ngates))])
        elif k < 0.9:
            s.append([2, r])
        else:
            s.append([3, r])
    return s


def late_sched(rng, n, ngates, length):
    """coarse schedule with aborted responses (5) and late polls of tasks that outlive them (6)"""
    s, started, gone = [], set(), set()
    for _ in range(length):
        r = rng.randrange(1, n + 1)
        if r not in started:
            s.append([4 if rng.random() < 0.3 else 0, r])
            started.add(r)
            continue
        k = rng.random()
        if r in gone:
            s.append([1, r, rng.randrange(max(1, ngates))] if k < 0.5 else [6, r])
        elif k < 0.3:
            s.append([1, r, rng.randrange(max(1, ngates))])
        elif k < 0.7:
            s.append([2, r])
        elif k < 0.8:
            s.append([6, r])
        elif k < 0.93:
            s.append([5, r])
            gone.add(r)
        else:
            s.append([3, r])
            gone.add(r)
    return s


def comparable(progs):
    return all(p[0] != SFN and modelled(p) and async_depth(p) <= 1 and not has_bg(p) for p in progs)


def both(sb, ooo, pipeline, progs, sched, kind):
    """obs=0: abstract trace (compared with the Coq model if every construct is modelled),
    obs=1: responses + solo replays for the oracle"""
    # the shipped axum handlers (pipeline 3) call build_response at their first poll, not when the
    # handler future is created: the ambient owner between "create" and the first poll differs
    # from the model's, which creates the root at once
    cmp = comparable(progs) and not (pipeline == 3 and any(a[0] == 4 for a in sched))
    yield dict(case=[0, sb, ooo, pipeline, 0, progs, sched], kind=kind + "/trace", compare=cmp)
    yield dict(case=[1, sb, ooo, pipeline, 0, progs, sched], kind=kind + "/solo", compare=False)


# small programs over the constructs added by the coverage audit: 6, 7 modelled; 8..11 oracle-only
SMALL_EXT = [
    [PROVIDE, 2, [SEQ, [CTXLEAF, 1, 1], [FOR, 0, 2, [SEQ, [CTXLEAF, 2, 2], [SUSPEND, 0, 3, [CTXLEAF, 4, 3]]]], [UNSUSPEND, 5]]],
    [TRANSITION, [LEAF, 1], [SEQ, [OWNERAPI, 0, 1, 0, [PROVIDE, 3, [SUSPEND, 0, 2, [DYNL, 3]]]], [FOR, 1, 3, [DYNL, 4]], [UNSUSPEND, 5]]],
    [PROVIDE, 1, [ROUTER, 1, 1, [SEQ, [LEAF, 3], [DYNL, 4]], [SEQ, [SUSPEND, 0, 5, [CTXLEAF, 6, 5]],
                                                                [RES2, 0, 0, 1, 0, 7, 8, 9, [TEXT]]]]],
    [ALLOC, 1, [SEQ, [ROUTER, 0, 1, [RES2, 2, 1, 0, 0, 3, 4, 5, [ITEM, 6, 1]], [TEXT]], [SCLEAF, 7, 1], [SCLEAF, 8, 5],
                [BGREAD, 0, 9, 1, 1]]],
    [SEQ, [RES2, 4, 0, 4, 0, 1, 2, 3, [LEAF, 4]], [RES2, 3, 3, 3, 0, 5, 6, 7, [CTXLEAF, 8, 4]],
     [OWNERAPI, 1, 1, 0, [ALLOC, 2, [SUSPEND, 0, 9, [ITEM, 10, 2]]]]],
    [ROUTER, 2, 1, [SEQ, [RES2, 6, 1, 2, 0, 3, 4, 5, [DYN, 6]], [CTXLEAF, 7, 5], [SCLEAF, 8, 3]], [TEXT]],
]
SMALL_SFN = [SFN, 0, 1, 2, 3, 5, 7]


def req_actions_early(r):
    """the awaited future completes before the response future has been polled once"""
    return [[4, r], [1, r, 0], [2, r], [2, r], [3, r]]


def configs(sb, k):
    """streaming mode (4 builders) and pipeline for the k-th case of an enumerated family"""
    return k % 4, ([0, 1, 3][(k // 4) % 3] if sb else 0)


def generate(rng, tier):
    quick = tier == "quick"
    allsmall = SMALL + SMALL_EXT
    # 1. exhaustive: all interleavings of the two requests' action lists, small program pairs
    if quick:
        pairs = [(0, 1, 1), (2, 3, 1), (4, 5, 1), (6, 7, 2), (8, 9, 2), (10, 11, 2), (1, 12, 2), (12, 9, 3)]
    else:
        nb = len(SMALL)
        pairs = [(i, j, 1 if j < nb else 3) for i in range(len(allsmall)) for j in range(i, len(allsmall))] + \
            [(i, 12, 3) for i in range(len(allsmall))] + [(12, i, 3) for i in range(len(allsmall))]
    allsmall = allsmall + [SMALL_SFN]
    k = 0
    for (i, j, stride) in pairs:
        scheds = list(interleavings(req_actions(1), req_actions(2))) + \
            list(interleavings(req_actions(1, True), req_actions(2, True))) + \
            list(interleavings(req_actions_early(1), req_actions_early(2)))[::1 if not quick else 3]
        sfn = 12 in (i, j)
        for sched in scheds[::stride]:
            k += 1
            if not quick:
                # four of the 16 configurations (arenas x stream builder x pipeline) per schedule, rotating
                for q in range(4):
                    sb = 1 if sfn else (q & 1)
                    ooo, pipeline = configs(sb, 4 * k + q + (k >> 2))
                    yield from both(sb, ooo, pipeline, [allsmall[i], allsmall[j]], sched, "exhaustive-pair")
            else:
                sb = 1 if sfn else (k >> 1) & 1
                ooo, pipeline = configs(sb, k)
                yield from both(sb, ooo, pipeline, [allsmall[i], allsmall[j]], sched, "exhaustive-pair")
    # 2. random coarse, compared with the model (awaits not nested; half of them with the modelled
    #    constructs of the audit: context-API leaves, For, Transition, Unsuspend, Owner::new)
    for _ in range(1200 if quick else 20000):
        n = rng.choice([2, 2, 3])
        ng = rng.choice([1, 2, 3])
        ext = rng.randrange(2)
        progs = [gen_prog(rng, rng.choice([2, 3, 4]), ng, True, False, ext) for _ in range(n)]
        sb = rng.randrange(2)
        yield from both(sb, rng.randrange(4), rng.choice([0, 1, 3]) if sb else 0, progs,
                        coarse_sched(rng, n, ng, rng.randrange(4, 18)), "random-coarse")
    # 3. random fine-grained schedules over deeper programs: oracle only
    for _ in range(1500 if quick else 25000):
        n = rng.choice([2, 2, 3])
        ng = rng.choice([1, 2, 3])
        bg = rng.random() < 0.4      # background tasks (reactive_graph::spawn) reading arena handles
        ext = rng.choice([0, 2, 2])
        progs = [gen_prog(rng, rng.choice([2, 3, 4]), ng, rng.random() < 0.3, bg, ext) for _ in range(n)]
        sb = rng.randrange(2) if not bg else int(rng.random() < 0.8)
        sched = [rng.randrange(1000) for _ in range(rng.randrange(4, 60))]
        yield dict(case=[1, sb, rng.randrange(4), rng.choice([0, 1, 3]) if sb else 0, 1, progs, sched],
                   kind="random-fine/solo", compare=False)
    # 3b. responses dropped from outside while other requests are current, tasks that outlive their
    #     request (reactive_graph::spawn), handles under nested owners read afterwards: oracle only
    for _ in range(900 if quick else 15000):
        n = rng.choice([2, 2, 3])
        ng = rng.choice([1, 2])
        ext = rng.choice([0, 0, 2])
        if rng.random() < 0.6:      # same program everywhere: arena keys collide across sandboxed arenas
            progs = [gen_prog(rng, rng.choice([2, 3, 4]), ng, rng.random() < 0.5, True, ext)] * n
        else:
            progs = [gen_prog(rng, rng.choice([2, 3, 4]), ng, rng.random() < 0.5, rng.random() < 0.7, ext) for _ in range(n)]
        sb = int(rng.random() < 0.8)
        yield dict(case=[1, sb, rng.randrange(4), rng.choice([0, 1, 3]) if sb else 0, 0, progs,
                         late_sched(rng, n, ng, rng.randrange(5, 20))],
                   kind="abort-late/solo", compare=False)
    # 3c. requests of another kind in between: server-function calls handled by the shipped
    #     leptos_axum::handle_server_fns_with_context next to page renders (sandboxed build): oracle only
    for _ in range(500 if quick else 8000):
        n = rng.choice([2, 2, 3])
        ng = rng.choice([1, 2])
        progs = [gen_prog(rng, rng.choice([2, 3]), ng, rng.random() < 0.5, False, rng.choice([0, 2])) for _ in range(n)]
        for i in rng.sample(range(n), rng.choice([1, 1, 2])):
            progs[i] = gen_sfn(rng, ng)
        fine = int(rng.random() < 0.4)
        if fine:
            sched = [rng.randrange(1000) for _ in range(rng.randrange(4, 40))]
        elif rng.random() < 0.5:
            sched = late_sched(rng, n, ng, rng.randrange(5, 20))
        else:
            sched = coarse_sched(rng, n, ng, rng.randrange(4, 18))
        yield dict(case=[1, 1, rng.randrange(4), rng.choice([0, 1, 3]), fine, progs, sched],
                   kind="server-fn/solo", compare=False)
    # 4. negative control: an integration that streams the body outside the owner (build_response
    #    before the F-C20-a repair). Not judged; coverage_extra counts how often the leak shows.
    for _ in range(60 if quick else 600):
        ng = 1
        progs = [[SEQ, gen_prog(rng, 3, ng, False), [SUSPEND, 0, 800, [DYN, 801]]] for _ in range(2)]
        yield dict(case=[1, rng.randrange(2), rng.randrange(2), 2, 0, progs, coarse_sched(rng, 2, ng, 10)],
                   kind="control-unscoped-body", compare=False)


# ------------------------------------------------------------------------------------------ validity
def wf_prog(p, slots=()):
    if not isinstance(p, list) or not p or not isinstance(p[0], int):
        return False
    ints = lambda xs: all(isinstance(x, int) and x >= 0 for x in xs)
    op, a = p[0], p[1:]
    if op == TEXT:
        return a == []
    if op in (LEAF, DYN, DYNL):
        return len(a) == 1 and ints(a)
    if op == EL:
        return len(a) == 1 and wf_prog(a[0], slots)
    if op == SEQ:
        return all(wf_prog(c, slots) for c in a)
    if op == PROVIDE:
        return len(a) == 2 and ints(a[:1]) and wf_prog(a[1], slots)
    if op == SUSPEND:
        return len(a) == 3 and ints(a[:2]) and a[0] < 8 and wf_prog(a[2], slots)
    if op == SUSPENSE:
        return len(a) == 2 and wf_prog(a[0], slots) and wf_prog(a[1], slots)
    if op == RESOURCE:
        return len(a) == 6 and ints(a[:5]) and a[0] < 3 and a[1] < 8 and wf_prog(a[5], slots)
    if op == CLEANUP:
        return len(a) == 2 and ints(a[:1]) and wf_prog(a[1], slots)
    if op == ALLOC:
        return len(a) == 2 and ints(a[:1]) and a[0] < 900 and wf_prog(a[1], tuple(slots) + (a[0],))
    if op == ITEM:
        return len(a) == 2 and ints(a) and a[1] in slots
    if op == BGREAD:
        return len(a) in (3, 4) and ints(a) and a[0] < 8 and a[2] in slots and (len(a) == 3 or a[3] < 3)
    if op == CTXLEAF:
        return len(a) == 2 and ints(a) and a[1] < 6
    if op == ROUTER:
        return len(a) == 4 and ints(a[:2]) and a[0] < 3 and wf_prog(a[2], slots) and wf_prog(a[3], slots)
    if op == RES2:
        return (len(a) == 8 and ints(a[:7]) and a[0] < 9 and a[1] < 4 and a[2] < 5 and a[3] < 8
                and wf_prog(a[7], slots))
    if op == OWNERAPI:
        return len(a) == 4 and ints(a[:3]) and a[0] < 3 and a[2] < 8 and wf_prog(a[3], slots)
    if op == SCLEAF:
        return len(a) == 2 and ints(a) and a[1] < 6
    if op == FOR:
        return len(a) == 3 and ints(a[:2]) and a[0] < 2 and a[1] < 5 and wf_prog(a[2], slots)
    if op == TRANSITION:
        return len(a) == 2 and wf_prog(a[0], slots) and wf_prog(a[1], slots)
    if op == UNSUSPEND:
        return len(a) == 1 and ints(a)
    return False


def wf_sfn(p):
    return (isinstance(p, list) and len(p) == 7 and all(isinstance(x, int) and x >= 0 for x in p) and p[0] == SFN
            and p[1] < 8 and p[5] < 100 and len(set(p[2:5])) == 3)


def has_bg(p):
    return p[0] == BGREAD or any(has_bg(c) for c in p[1:] if isinstance(c, list))


def async_depth(p):
    d = max([async_depth(c) for c in p[1:] if isinstance(c, list)] or [0])
    return d + 1 if p[0] in (SUSPEND, RESOURCE, RES2) else d


def probes(p):
    out = []
    if p[0] in (LEAF, DYN, ITEM, DYNL, CTXLEAF, SCLEAF, UNSUSPEND):
        out.append(p[1])
    if p[0] == ROUTER:
        out += [p[2], p[2] + 1]
    if p[0] == RES2:
        out += p[5:8]
    if p[0] == SFN:
        return p[2:5]
    if p[0] in (SUSPEND, BGREAD):
        out.append(p[2])
    if p[0] == RESOURCE:
        out += p[3:6]
    for c in p[1:]:
        if isinstance(c, list):
            out += probes(c)
    return out


def sync_only(p, inside=False):
    """no reactive closure / await inside a Suspense fallback"""
    if p[0] in (SUSPENSE, TRANSITION):
        return no_async_dyn(p[1]) and sync_only(p[2])
    return all(sync_only(c) for c in p[1:] if isinstance(c, list))


def no_async_dyn(p):
    if p[0] in (DYN, DYNL, SUSPEND, RESOURCE, SUSPENSE, BGREAD, ROUTER, RES2, OWNERAPI, FOR, TRANSITION, UNSUSPEND):
        return False
    return all(no_async_dyn(c) for c in p[1:] if isinstance(c, list))


def dynl_ok(p, top=False, insus=False):
    """DYNL only where the owner it is rendered under is the lexical one whatever the timing"""
    op = p[0]
    if op in (DYNL, UNSUSPEND):
        return not top
    if op == PROVIDE:
        return dynl_ok(p[2], False, insus)
    if op in (SUSPENSE, TRANSITION):
        return dynl_ok(p[1], False, True) and dynl_ok(p[2], False, True)
    if op == ROUTER:
        # route views are built and rendered under owners the router captured; the router itself
        # must be rendered below the owner it was created under (<Outlet/> looks its RouteContext
        # up from the rendering owner), i.e. not directly in the view a top-level Suspend resolves to
        return not top and dynl_ok(p[3], False, insus) and dynl_ok(p[4], False, insus)
    if op == FOR:
        return dynl_ok(p[3], False, insus)
    if op == OWNERAPI:
        return dynl_ok(p[4], False, insus)
    if op == RES2:
        return dynl_ok(p[8], top, insus) if p[3] in (1, 4) or p[1] >= 7 else dynl_ok(p[8], not insus, insus)
    if op == SUSPEND:
        return dynl_ok(p[3], not insus, insus)
    if op == RESOURCE:
        return dynl_ok(p[6], not insus, insus)
    return all(dynl_ok(c, top, insus) for c in p[1:] if isinstance(c, list))


def owners_ok(p):
    if p[0] == OWNERAPI and p[1] == 1 and not cleanable(p[4]):
        return False
    return all(owners_ok(c) for c in p[1:] if isinstance(c, list))


def routers(p):
    if p[0] == ROUTER:
        yield p
    for c in p[1:]:
        if isinstance(c, list):
            yield from routers(c)


def valid_case(item):
    c = item["case"]
    if not (isinstance(c, list) and len(c) == 7 and all(isinstance(x, int) for x in c[:5])):
        return False
    obs, sb, ooo, pipeline, fine, progs, sched = c
    if not (isinstance(progs, list) and 2 <= len(progs) <= 3 and isinstance(sched, list)):
        return False
    if not (0 <= ooo <= 3 and 0 <= pipeline <= 3 and (sb or pipeline in (0, 2))):
        return False
    for p in progs:
        if isinstance(p, list) and p and p[0] == SFN:      # a server-function request (leptos_axum: sandboxed build)
            if not (wf_sfn(p) and sb and not item.get("compare", True)):
                return False
            continue
        if not wf_prog(p) or not sync_only(p) or not dynl_ok(p):
            return False
        ps = probes(p)
        if len(ps) != len(set(ps)) or any(q < 1 or q > 900 for q in ps):
            return False
        if sum(1 for _ in routers(p)) > 1 or not owners_ok(p):
            return False
        if item.get("compare", True) and (async_depth(p) > 1 or has_bg(p) or not modelled(p)):
            return False
    if fine:
        return all(isinstance(x, int) and x >= 0 for x in sched)
    for a in sched:
        if not (isinstance(a, list) and len(a) in (2, 3) and all(isinstance(x, int) for x in a)):
            return False
        if item.get("compare", True) and a[0] > 4:
            return False
        if not (0 <= a[0] <= 6 and 1 <= a[1] <= len(progs) and (len(a) == 3) == (a[0] == 1) and (len(a) < 3 or 0 <= a[2] < 8)):
            return False
    return True


# ------------------------------------------------------------------------------------------ oracle
def own_event(r, e):
    """does this probe observation of request r (1-based) mention only r's state?"""
    probe, kind, owner_req, t0, t1, item = e
    if kind == 8:      # background task behind Sandboxed only: the arena item is all it is promised
        return "arena item %d" % item if item >= 0 and item // 10000 != r else None
    # seeing *nothing* (no owner: 0, an owner of no live request: 99, no context: -1) is what a
    # task legitimately sees once its own request's root is gone; whether it is right at this
    # point is decided by the comparison with the solo replay, not here
    if owner_req not in (r, 0, 99):
        return "ambient owner of request %d" % owner_req
    if t0 not in (100 + r, -1):
        return "root context %d" % t0
    if t1 not in (-1, -5) and t1 // 1000 != r:
        return "provider context %d" % t1
    if item >= 0 and item // 10000 != r:
        return "arena item %d" % item
    return None


def oracle(item, impl):
    if not valid_case(item):
        return None
    case = item["case"]
    obs, pipeline = case[0], case[3]
    if pipeline == 2:
        return None            # negative control, not judged: see coverage_extra
    if isinstance(impl, str):
        return "harness error / panic: " + impl[:200]
    n = len(case[5])
    if obs == 0:
        per_req = impl[1]
        for r in range(1, n + 1):
            ev, cl = per_req[r - 1]
            for e in ev:
                w = own_event(r, e)
                if w:
                    return "probe %d of request %d saw %s" % (e[0], r, w)
            for cid, d in cl:
                if d != r:
                    return "cleanup %d of request %d ran while code of request %d was executing" % (cid, r, d)
        return None
    conc = impl[0]
    for r in range(1, n + 1):
        (html_eq, html_len, solo_len, win, solo_win), fin, solo_fin, ev, solo_ev, cl, solo_cl, solo_skipped = conc[r - 1]
        for e in ev:
            w = own_event(r, e)
            if w:
                return "probe %d of request %d saw %s" % (e[0], r, w)
        for cid, d in cl:
            if d != r:
                return "cleanup %d of request %d ran while code of request %d was executing" % (cid, r, d)
        if not html_eq:
            return "response of request %d (%d bytes) differs from its solo render (%d bytes): %r vs %r" % (
                r, html_len, solo_len, C.show_bytes(win), C.show_bytes(solo_win))
        if bool(fin) != bool(solo_fin):
            return "request %d %s concurrently but %s alone" % (
                r, "finished" if fin else "did not finish", "finished" if solo_fin else "did not finish")
        if ev != solo_ev:
            return "request %d observed %r, alone %r" % (r, [e for e in ev if e not in solo_ev][:3],
                                                         [e for e in solo_ev if e not in ev][:3])
        if cl != solo_cl:
            return "cleanups of request %d ran as %r, alone as %r" % (r, cl, solo_cl)
        if solo_skipped:
            return "%d steps that request %d took concurrently were not possible when it ran alone" % (solo_skipped, r)
    return None


def nontrivial(item, model):
    case = item["case"]
    progs, sched = case[5], case[6]
    if not any(has_async(p) for p in progs):
        return False
    if case[4]:
        return len(sched) >= 4
    started, open_, overlap = set(), set(), False
    for a in sched:
        if a[0] in (0, 4):
            started.add(a[1])
            open_.add(a[1])
        elif a[0] in (3, 5):
            open_.discard(a[1])
        elif a[1] in open_ and len(open_) >= 2:
            overlap = True
    return overlap


def describe(it):
    c = it["case"]
    names = ["text", "leaf", "dyn", "el", "seq", "provide", "suspend", "suspense", "resource", "cleanup", "alloc", "item", "dynl", "bgread",
             "ctxleaf", "router", "resource2", "ownerapi", "sharedctx", "for", "transition", "unsuspend", "serverfn"]

    def pv(p):
        if not isinstance(p, list) or not p:
            return repr(p)
        head = names[p[0]] if isinstance(p[0], int) and 0 <= p[0] < len(names) else str(p[0])
        return head + "(" + ", ".join(pv(x) if isinstance(x, list) else str(x) for x in p[1:]) + ")"

    acts = {0: "start", 1: "gate", 2: "run", 3: "finish", 4: "create", 5: "abort", 6: "run-late"}
    if c[4]:
        sched = "fine picks %r" % (c[6],)
    else:
        sched = " ".join("%s%s" % (acts.get(a[0], "?"), tuple(a[1:])) for a in c[6] if isinstance(a, list) and a)
    return "%s | arenas=%s stream=%s pipeline=%s | %s | %s" % (
        "trace" if c[0] == 0 else "responses+solo", "sandboxed" if c[1] else "global",
        {0: "in-order", 1: "ooo", 2: "async (builder collects)", 3: "in-order (eager)"}.get(c[2], c[2]),
        {0: "transcribed build_response", 1: "real from_app", 2: "unscoped body (control)", 3: "real leptos_axum handlers"}.get(c[3], c[3]),
        " || ".join(pv(p) for p in c[5]), sched)


def coverage_extra(results):
    ctl = [r for r in results if r["item"].get("kind") == "control-unscoped-body" and not isinstance(r["impl"], str)]
    leaked = 0
    for r in ctl:
        n = len(r["item"]["case"][5])
        conc = r["impl"][0]
        if any(own_event(q, e) for q in range(1, n + 1) for e in conc[q - 1][3]) or any(
                not conc[q - 1][0][0] for q in range(1, n + 1)):
            leaked += 1
    cfgs = {}
    for r in results:
        c = r["item"]["case"]
        key = "arenas=%s,%s,pipeline=%d,%s" % ("sandboxed" if c[1] else "global", ["in-order", "ooo", "async", "in-order-eager"][c[2] & 3], c[3],
                                               "fine" if c[4] else "coarse")
        cfgs[key] = cfgs.get(key, 0) + 1
    return dict(configurations=cfgs, control_unscoped_body=dict(cases=len(ctl), leak_observed=leaked))


# ------------------------------------------------------------------------------------------ flow
def build_sandboxed():
    """second build of the same crate: --features sandboxed, its own target dir"""
    exe, log = C.build_harness(HARNESS, {"CARGO_TARGET_DIR": _sb_target()}, features="sandboxed")
    return (HARNESS_ENV["H_ISO_SB"] if exe else None), log


def _check_module():
    return importlib.machinery.SourceFileLoader("verif_check", os.path.join(C.ROOT, "check")).load_module()


def main(tier, seed, replay):
    exe, log = build_sandboxed()
    if exe is None or not os.path.exists(exe):
        p = C.write_replay(PID, dict(kind="harness-build", property=PID,
                                     note="harness/iso --features sandboxed no longer builds against the working tree",
                                     log=log))
        print("VIOLATION property=%s replay=%s no-failing-input-found" % (PID, os.path.relpath(p, C.OUT)))
        return 1
    chk = _check_module()
    return chk.generic(sys.modules[__name__], PID, tier, seed, replay, "--no-coq" in sys.argv)


def setup():
    C.build_model(PID)
    exe, log = C.build_harness(HARNESS)
    if exe is None:
        raise RuntimeError(log[-2000:])
    exe, log = build_sandboxed()
    if exe is None:
        raise RuntimeError(log[-2000:])
