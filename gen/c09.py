"""C09 — computations run only when something they read has changed."""
from . import common as C
from . import rxlib as X

PID = "C09"
PROPS_V = "theories/Props/Properties_C09.v"
MODEL_NAME = "Reactive/Graph.v"
HARNESS = "rx"
HARNESS_ARGS = ["c09"]
ALLOWED_AXIOMS = []
RUN_IMPORT = "Reactive.GraphRun"
READY = True
SHRINK_PREFIX = 1
valid_case = X.valid_case
describe = X.describe

RULE = ("same program / history generator as C01 (DAGs of 3-12 nodes, every signal flavour, memos with PartialEq and "
        "always-changed and parity compare, derived signals and type-erased wrappers, conditional / untracked / repeated reads, "
        "equal-value writes, arena signals / memos disposed in the middle of the history), half of the "
        "cases with 1-3 effects (Effect::new, RenderEffect, watch, isomorphic; some writing signals) and schedules (poll the "
        "k-th ready task, run to idle). Observation = every body invocation with the values it read. A case is non-trivial "
        "when some body ran at least twice; distinct = distinct case hash.")
TRUSTED = [
    "Coq 8.16.1 kernel (coqc); no axioms: every theorem of Properties_C09.v is 'Closed under the global context'",
    "extraction to OCaml with ExtrOcamlBasic only, ocamlfind ocamlopt 4.13.1, extract/driver.ml sexp I/O",
    "harness/rx (Rust): real reactive_graph objects, harness-owned executor (explicit run queue), every body invocation logged",
    "modelled, not verified: RwLock/Arc/Weak semantics (single thread), OBSERVER thread-local, futures::task::AtomicWaker "
    "(register / wake take the waker), arena storage, i64 arithmetic without overflow",
    "the ghost 'since' field (causes recorded since a node's last run) exists only in the model; the harness side is the independent Python cause tracker",
]
ASSUMPTIONS = [
    "single thread; bodies deterministic; memo bodies do not write signals",
    "DAG by creation order; static graphs (no node created inside a computation)",
    "a memo 'recomputed to an unequal value' is read as 'its compare function reported changed' (always-changed memos count as "
    "changed, a parity-compare memo only when the parity changed); disposing a source is not a change",
]
LEVEL_TEXT = ("Coq proofs, over the same executable model as C01/C02 instrumented with ghost causes, that a memo body is invoked "
              "again only after a tracked source was written or a tracked memo changed, at most once per change, never because "
              "of untracked reads, and that the repaired effect check runs an effect once per change; tied to /repo by the "
              "differential comparison of full invocation traces and an independent cause tracker in Python.")
LEVEL_NOTE = "see Properties_C09.v; trusted: Coq kernel, extraction, Rust harness; AtomicWaker modelled."
TECHNIQUE = "Coq proof (invariant with ghost cause sets) + differential correspondence of the extracted model with the Rust code"


def generate(rng, tier):
    n1, n2 = (8000, 10000) if tier == "quick" else (80000, 100000)
    for i in range(n1):
        prog = X.gen_program(rng, rng.randint(3, 10), 0, p_always=0.2)
        ops = X.gen_ops(rng, prog, rng.randint(10, 50), w=(0.40, 0.06, 0.54, 0, 0, 0), vals=(0, 1, 1, 2), p_drop=0.3)
        yield dict(case=C.norm([prog, ops]), kind="memos", compare=True)
    for i in range(n2):
        prog = X.gen_program(rng, rng.randint(4, 11), rng.randint(1, 3), p_always=0.15)
        ops = X.gen_ops(rng, prog, rng.randint(8, 36), w=(0.32, 0.05, 0.2, 0.18, 0.2, 0.05), vals=(0, 1, 1, 2), p_drop=0.3)
        yield dict(case=C.norm([prog, ops]), kind="memos+effects", compare=True)


def oracle(item, impl):
    return X.run_oracle(item, impl, X.C09Hooks())


def nontrivial(item, model):
    if isinstance(model, str):
        return False
    runs = {}
    for e in model:
        if e[0] == 1:
            runs[e[1]] = runs.get(e[1], 0) + 1
    return any(n >= 2 for n in runs.values())


def coverage_extra(results):
    runs = sum(sum(1 for e in r["impl"] if e[0] == 1) for r in results if not isinstance(r["impl"], str))
    return dict(body_invocations=runs)
