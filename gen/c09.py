"""C09 — computations run only when something they read has changed."""
from . import common as C
from . import rxlib as X

PID = "C09"
PROPS_V = "theories/Props/Properties_C09.v"
MODEL_NAME = "Reactive/Graph.v"
HARNESS = "rx"
HARNESS_ARGS = ["c09"]
ALLOWED_AXIOMS = []
RUN_IMPORT = "Reactive.GraphRun"
READY = True
SHRINK_PREFIX = 1
valid_case = X.valid_case
describe = X.describe

RULE = ("same program / history generator as C01 (DAGs of 3-12 nodes, every signal flavour, memos with PartialEq and "
        "always-changed and parity compare, derived signals and type-erased wrappers, conditional / untracked / repeated reads, "
        "equal-value writes, arena signals / memos disposed in the middle of the history), half of the "
        "cases with 1-3 effects (Effect::new, RenderEffect, watch, isomorphic; some writing signals) and schedules (poll the "
        "k-th ready task, run to idle); plus the 'zones' (untrack zones with several reads), 'immediate' (ImmediateEffect subscribers, "
        "oracle only) and 'deep' (chains of 270-700 memos) families of C01. Since the anchor coverage audit half of the cases of every stream carry API VARIANTS on their nodes (fields the model's decoder does not read, so the traces are still compared with the model): every signal / memo / wrapper is read through one of get, with, *read(), track() + get_untracked(), try_get (and the untracked siblings); every signal is written through one of set, update, maybe_update(true), a write() guard, try_set, try_update, a SignalSetter (from(WriteSignal) / from(RwSignal) / map), update_untracked + notify, a MappedSignal / ArcMappedSignal view, write_untracked + notify (and notified through notify(), an untouched write guard or update(|_| {})); memos are built with new / new_with_compare, new_owning (the body returns the changed flag) or as the other handle type and converted; derived signals also as MaybeSignal::derive, MaybeProp (from / derive), Signal<Option<T>>::from, Signal::from(MaybeSignal), derive_local / stored_local / Signal<_, LocalStorage>::from, From<T>; effects also as Effect::new_sync, Effect::watch_sync, RenderEffect::new_isomorphic / new_with_value, ImmediateEffect::new_isomorphic / new_scoped / new_mut; an effect is also disposed through Dispose::dispose / Effect::stop on its handle; a case flag makes the executor hand out a NEW waker on every poll (older wakers are dead) and another one switches untrack to untrack_with_diagnostics. A 'wide' family has 17-40 direct subscribers on one signal; a 'silent' family (oracle only) interleaves operations that are NOT writes (maybe_update returning false, write().untrack(), ...): nothing may run because of them; an 'adopt' family (oracle only) creates effects in the middle of the history. A 'cleanup' family (and a quarter of the memos+effects cases) has effect bodies / watch dependency fns that register "
        "Owner::on_cleanup callbacks reading a signal the body does not read ((10 j): value 0, no event, so still compared with the model): the "
        "history re-runs the effect, then writes that signal, and nothing may run. Observation = every body invocation with the values it read. A case is non-trivial "
        "when some body ran at least twice; distinct = distinct case hash.")
TRUSTED = [
    "Coq 8.16.1 kernel (coqc); no axioms: every theorem of Properties_C09.v is 'Closed under the global context'",
    "extraction to OCaml with ExtrOcamlBasic only, ocamlfind ocamlopt 4.13.1, extract/driver.ml sexp I/O",
    "harness/rx (Rust): real reactive_graph objects, harness-owned executor (explicit run queue), every body invocation logged",
    "modelled, not verified: RwLock/Arc/Weak semantics (single thread), OBSERVER thread-local, futures::task::AtomicWaker "
    "(register / wake take the waker), arena storage, i64 arithmetic without overflow",
    "the ghost 'since' field (causes recorded since a node's last run) exists only in the model; the harness side is the independent Python cause tracker",
    "API variants (coverage/C01.md, C09.md, C02.md): the variant fields of a case are ignored by the model's decoder (GraphRun.dec_decl / dec_op read the fields before them), so the model runs the construct each variant must be equivalent to (get for every read path, set for every write path, Effect::new for new_sync, Effect::watch for watch_sync, RenderEffect::new for new_isomorphic / new_with_value, owner cleanup for Dispose::dispose / Effect::stop); that equivalence is COMPARED (trace equality on every run) and judged by the Python oracle, NOT PROVED: the theorems speak about the modelled constructs",
]
ASSUMPTIONS = [
    "single thread; bodies deterministic; memo bodies do not write signals",
    "DAG by creation order; the Coq model has static graphs; nodes created inside a computation ('dynamic' family: memo / effect "
    "bodies that create memos and effects at run time) are checked by the Python cause tracker only (a freshly created "
    "instance's first run needs no cause)",
    "a memo 'recomputed to an unequal value' is read as 'its compare function reported changed' (always-changed memos count as "
    "changed, a parity-compare memo only when the parity changed); disposing a source is not a change",
    "ImmediateEffect (effect/immediate.rs, not among the anchors; not in the Coq model: 'immediate' cases are oracle-only) "
    "reacts in the middle of the marking phase of a write and re-enters by design ('they might recurse'): its own "
    "invocations, the memo runs it pulls while the marking is under way, and the next run of a memo pulled that way (the "
    "marks of the same write may still reach it) are not held to 'once per change'; every other memo run is. Observed on the "
    "unchanged code: an ImmediateEffect that reads a memo runs twice for one change of it (once from the memo's "
    "mark_dirty of its subscribers inside the effect's source check, once because that check then reports a change)",
    "deep chains (270-700 memos) are part of the generated graphs; stacked diamonds are kept to at most 4 per chain "
    "(the push phase re-propagates on every incoming path)",
    "an operation that does not notify is not a write: maybe_update / try_maybe_update whose closure returns false, a write() guard that is untracked before it is dropped, update_untracked / write_untracked without a following notify() leave the value as it is in the generated cases; a value stored without notification (update_untracked that really changes it) is outside the property (the graph cannot know) and is not generated",
    "what an on_cleanup callback reads is not 'read by the computation': the callbacks of the previous run execute before the next run starts, outside its tracking scope (Owner::with_cleanup around with_observer); the generated callbacks read plain signals only",
]
LEVEL_TEXT = ("Coq proofs, over the same executable model as C01/C02 instrumented with ghost causes, that a memo body is invoked "
              "again only after a tracked source was written or a tracked memo changed, at most once per change, never because "
              "of untracked reads, and that the repaired effect check runs an effect once per change; tied to /repo by the "
              "differential comparison of full invocation traces and an independent cause tracker in Python.")
LEVEL_NOTE = "see Properties_C09.v; trusted: Coq kernel, extraction, Rust harness; AtomicWaker modelled."
TECHNIQUE = "Coq proof (invariant with ghost cause sets) + differential correspondence of the extracted model with the Rust code"


def _main_stream(rng, tier):
    n1, n2 = (8000, 10000) if tier == "quick" else (80000, 100000)
    # what an on_cleanup callback reads is never a reason to run
    for i in range(800 if tier == "quick" else 8000):
        yield dict(case=C.norm(X.gen_cleanup_case(rng)), kind="cleanup", compare=True)
    for i in range(n1):
        prog = X.gen_program(rng, rng.randint(3, 10), 0, p_always=0.2, new_wrappers=True)
        ops = X.gen_ops(rng, prog, rng.randint(10, 50), w=(0.40, 0.06, 0.54, 0, 0, 0), vals=(0, 1, 1, 2), p_drop=0.3)
        if i % 2:
            X.add_variants(rng, prog, 0.6)       # other entry points of the same mechanism (see rxlib)
        yield dict(case=C.norm(X.with_flags(rng, prog, ops, 0.15 if i % 2 else 0)), kind="memos", compare=True)
    for i in range(n2):
        prog = X.gen_program(rng, rng.randint(4, 11), rng.randint(1, 3), p_always=0.15, new_wrappers=True)
        ops = X.gen_ops(rng, prog, rng.randint(8, 36), w=(0.32, 0.05, 0.2, 0.18, 0.2, 0.05), vals=(0, 1, 1, 2), p_drop=0.3)
        if i % 2:
            X.add_variants(rng, prog, 0.6)
            ops = X.vary_disposals(rng, prog, ops)
        if i % 4 == 1:
            X.add_cleanups(rng, prog, 0.6)      # on_cleanup callbacks that read signals the body does not read
        yield dict(case=C.norm(X.with_flags(rng, prog, ops, 0.3 if i % 2 else 0)), kind="memos+effects", compare=True)
    for i in range(1000 if tier == "quick" else 10000):
        yield dict(case=C.norm(X.gen_zone_case(rng)), kind="zones", compare=True)
    for i in range(40 if tier == "quick" else 400):
        yield dict(case=C.norm(X.gen_wide_case(rng, rng.randint(17, 40), rng.choice([0, 1, 2, 3]))), kind="wide", compare=True)
    # operations that are NOT writes (maybe_update returning false, write().untrack(), ...): nothing may run
    for i in range(1500 if tier == "quick" else 15000):
        prog = X.gen_program(rng, rng.randint(3, 9), rng.choice([0, 1, 1, 2]), allow_wr=False, p_always=0.15)
        X.add_variants(rng, prog, 0.4)
        ops = X.add_silent(rng, prog, X.gen_ops(rng, prog, rng.randint(8, 30), w=(0.3, 0.04, 0.3, 0.12, 0.2, 0.04), vals=(0, 1, 1, 2)), n=4)
        yield dict(case=C.norm([prog, ops + [[4]]]), kind="silent", compare=False)
    # effects created in the middle of the history under an existing (possibly paused) owner (oracle only)
    for i in range(500 if tier == "quick" else 5000):
        yield dict(case=C.norm(X.gen_adopt_case(rng)), kind="adopt", compare=False)
    # ImmediateEffect subscribers (not modelled: oracle only; memo invocations started after each write are checked)
    for i in range(2000 if tier == "quick" else 20000):
        ne = rng.choice([1, 1, 2])
        prog = X.gen_program(rng, rng.randint(ne + 2, 9), ne, eff_kinds=(5,), allow_wr=False, p_untr=0.05, p_der=0.2, p_always=0.15)
        ops = X.gen_ops(rng, prog, rng.randint(6, 30), w=(0.45, 0.05, 0.5, 0.0, 0.0, 0.0), vals=(0, 1, 1, 2))
        if i % 2:
            X.add_variants(rng, prog, 0.6)
        yield dict(case=C.norm([prog, ops]), kind="immediate", compare=False)
    # nodes created at run time (not modelled: oracle only)
    for i in range(2000 if tier == "quick" else 20000):
        we = rng.random() < 0.4
        prog = X.gen_dynamic_program(rng, rng.choice([1, 1, 2]), with_effects=we)
        if we:
            ops = X.gen_ops(rng, prog, rng.randint(6, 30), w=(0.35, 0.04, 0.25, 0.15, 0.16, 0.05), vals=(0, 1, 1, 2)) + [[4]]
        else:
            ops = X.gen_ops(rng, prog, rng.randint(6, 30), w=(0.42, 0.05, 0.53, 0, 0, 0), vals=(0, 1, 1, 2))
        if i % 2:
            X.add_variants(rng, prog, 0.5)
        yield dict(case=C.norm(X.with_flags(rng, prog, ops, 0.3 if i % 2 else 0)), kind="dynamic", compare=False)


def generate(rng, tier):
    deep = []
    for i in range(4 if tier == "quick" else 16):
        big = tier != "quick" and i % 3 == 0
        depth = rng.randint(500, 700) if big else rng.randint(270, 400)
        deep.append(dict(case=C.norm(X.gen_deep_case(rng, depth, n_diamonds=0 if big else rng.choice([0, 2, 4]), with_effect=(i % 2 == 1))),
                         kind="deep", compare=True))
    return X.interleave(_main_stream(rng, tier), deep, 5000 if tier == "quick" else 12000)

def oracle(item, impl):
    return X.run_oracle(item, impl, X.C09Hooks())


def nontrivial(item, model):
    if isinstance(model, str):
        return False
    runs = {}
    for e in model:
        if e[0] == 1:
            runs[e[1]] = runs.get(e[1], 0) + 1
    return any(n >= 2 for n in runs.values())


def coverage_extra(results):
    runs = sum(sum(1 for e in r["impl"] if e[0] == 1) for r in results if not isinstance(r["impl"], str))
    return dict(body_invocations=runs)
