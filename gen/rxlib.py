"""Shared by gen/c01.py, c09.py, c02.py: program / history generation for the reactive-graph
harness (h_rx), a walker that parses the event trace the harness prints, and the three
model-independent oracles (from-scratch recomputation, cause tracker, idle consistency).

Case = (prog ops).
  node : (0 flavour init)            signal; flavour 0 ArcRwSignal, 1 signal() pair, 2 RwSignal,
                                     3 ArcTrigger-backed cell, 4 arc_signal() pair
         (1 cmp flavour expr)        memo; cmp 0 PartialEq / 1 always-changed / 2 new_with_compare(parity differs): coarser
                                     than equality; flavour 0 ArcMemo / 1 Memo
         (2 flavour expr)            derived; flavour 0 closure / 1 Signal::derive / 2 ArcSignal::derive;
                                     wrappers (expr is (1 j): wrap node j, or (0 z): stored constant):
                                     3 Signal::from / Signal::stored, 4 ArcSignal::from / ArcSignal::stored,
                                     5 MappedSignal / ArcMappedSignal over an (Arc)RwSignal j, 6 MaybeSignal
         (3 kind body handler [par]) effect; kind 0 Effect::new, 1 RenderEffect, 2 watch, 3 watch(immediate),
                                     4 Effect::new_isomorphic, 5 ImmediateEffect (not modelled: compare=False),
                                     6 `signal.to_stream()` (traits.rs ToStream: an Effect::new_isomorphic inside the library that sends
                                     signal.get() into a channel; body must be (1 j), j a signal; its runs are read off the stream);
                                     par: the effect under whose owner this effect's owner is created (-1 / absent:
                                     under the root): a static tree of owners
         (4 cmp src V P (T ...))     Selector over the closure src; cmp 0 Selector::new, 1 new_with_fn(==),
                                     2 new_with_fn(same bucket of ten), 3 new_with_fn(value >= key).  The nodes
                                     before it belong to it: V, P = (0 5 0) the cells of its value and of the value its
                                     internal effect returned last, T = (0 6 key) one trigger per key
         (5 decl)                    template: a memo (1 cmp flavour expr) or an effect (3 kind body handler) that is
                                     created at RUN TIME by the one body that evaluates (9 i); created under the current
                                     owner, it sees the nodes its creator sees.  In the trace an instance has an id of its
                                     own (ids follow the indices of the program, in creation order): event (12 id i)
  expr : (0 z) | (1 j) get | (2 j) get_untracked | (3 e) untrack | (4 a b) + | (5 a b) < | (6 c a b) if | (7 s e) set
         | (8 e j) selector e .selected(key of its j-th trigger)
         | (9 k) create the node of template k (only as a prefix of a body: (4 (9 k) rest)); value 0
         | (11) the effect body hands a clone of Owner::current() to the outside (the harness keeps it until the case ends, as
           one does to pause / resume the effect later): value 0, no event; a handle that is still around must not keep
           anything under a disposed owner running
         | (10 j) Owner::on_cleanup(move || { signal_j.get(); }) in an effect body: value 0, no event (the model reads it as
           the constant 0): what a cleanup callback reads is never a reason to run
  op   : (0 s v) set | (1 s) notify | (2 n) read | (3 k) poll k-th ready | (4) run to idle
         | (5 e) pause | (6 e) resume: Owner::pause / resume on the owner effect e was created under (reaches e and
           every effect below it) | (7 e) dispose: the RenderEffect handles of that subtree are dropped, then the
           owner is cleaned up | (8 n) dispose the arena signal / memo n (its later
           reads by bodies give 0 and track nothing; no later set / notify / top-level read of n)
API variants (fields the model's decoder does not read: the model runs the construct they are equivalent to, so the
traces are compared as before).  var = rv + 8 * cv:
  signal (0 flavour init var)     rv: how it is read: 0 get / get_untracked, 1 with / with_untracked, 2 *read() / *read_untracked(),
                                  3 track() + get_untracked() / try_get_untracked, 4 try_get / try_with_untracked;
                                  cv: how it is written: 0 set, 1 update, 2 maybe_update(.. true), 3 write() guard, 4 try_set,
                                  5 try_update, 6 SignalSetter (from(WriteSignal / RwSignal) / map), 7 update_untracked + notify,
                                  8 set through a MappedSignal / ArcMappedSignal view, 9 write_untracked + notify;
                                  notify: cv % 3 = 0 notify(), 1 an untouched write() guard dropped, 2 update(|_| {}) / mapped.notify()
  memo (1 cmp flavour expr var)   rv as above; cv: 0 new / new_with_compare, 1 new_owning (the body returns the changed flag, same
                                  comparator), 2 built as the other handle type and converted (Memo::from(ArcMemo) / ArcMemo::from(Memo))
  derived (2 flavour expr var)    rv as above (3 only over a plain node); cv: closures: flavour 0: 1 MaybeSignal::derive, 2 MaybeProp::derive;
                                  flavour 1 / 2: 1 derive_local; wrappers: flavour 3 / 4 over a constant: 1 From<T>, 2 stored_local;
                                  flavour 3 over an Arc signal: 2 Signal<_, LocalStorage>::from; flavour 5 over an ArcRwSignal:
                                  1 MappedSignal::from(ArcMappedSignal); flavour 7 MaybeProp::from (1: straight from ReadSignal / RwSignal /
                                  Memo, Some(z)), 8 Signal<Option<T>>::from(Signal<T> / T), 9 Signal::from(MaybeSignal)
  effect (3 kind body handler par var)   var: 1 the Send + Sync sibling (Effect::new_sync, watch_sync, RenderEffect::new_isomorphic,
                                  ImmediateEffect::new_isomorphic; kind 4: a closure without the previous-value argument),
                                  2 RenderEffect::new_with_value / ImmediateEffect::new_scoped / Effect::new(|| ..) without the argument /
                                  the deprecated free function watch(..) (its stop closure is what (7 e how) calls),
                                  3 ImmediateEffect::new_mut / the deprecated create_effect
  op (7 e how)                    how 1 Dispose::dispose on the effect's handle (RenderEffect: the handle is dropped), 2 Effect::stop;
                                  the owner is left alone (only for effects without owners below them)
  op (9 s how)                    NOT a write (oracle only): 0 maybe_update(|_| false), 1 write() + untrack(), 2 try_maybe_update -> (false, _),
                                  3 update_untracked(|_| {}), 4 write_untracked() guard dropped
  op (10 e k)                     the effect declared by template k is created now, under the owner of effect e (oracle only)
  op (12 g r s v)                 another THREAD takes a read guard (read_untracked()) of ArcMemo g; then signal s is set to v; then a third
                                  thread reads ArcMemo r (g, or a memo over g) with get_untracked(): the read may wait for the guard, its
                                  value must be current (oracle only; last op of a case: bodies that run on those threads are not logged)
  case (prog ops flags)           flags: 1 every poll hands the task a new waker (older ones are dead), 2 untrack_with_diagnostics,
                                  4 before every (3 k) / (4) each task that is NOT ready is polled once (spurious wake-up: nothing may happen)
  template (5 decl)               decl may carry the variant field of its kind: (1 cmp flavour expr var) / (3 kind body handler -1 var)
Events printed by harness and model:
  (0 n v) top-level read | (1 i) body starts | (2 who j v t) read inside body `who` (-1: none)
  | (3 i v) body ends | (5 i)/(6 i v) watch handler | (7) idle | (8 e) task polled | (9) no idle
  after 64 polls | (10) model error | (11) next operation starts
"""
from . import common as C

SIG, MEMO, DER, EFF, SEL, TPL = 0, 1, 2, 3, 4, 5


def is_cell(nd):
    return nd[0] == SIG and nd[1] == 5


def is_key(nd):
    return nd[0] == SIG and nd[1] == 6


def is_plain(nd):
    """a node ordinary expressions and operations may name"""
    return nd[0] in (MEMO, DER) or (nd[0] == SIG and nd[1] not in (5, 6))


def sel_fn(cmp, key, v):
    """f(key, value) of a selector"""
    if cmp == 2:
        return 1 if key // 10 == v // 10 else 0
    if cmp == 3:
        return 1 if v >= key else 0
    return 1 if key == v else 0


def parent_of(nd):
    return nd[4] if nd[0] == EFF and len(nd) > 4 and nd[4] >= 0 else None


def subtree(prog, o):
    """effects created under the owner of effect o or below (o included), children first, o last:
    the order in which Owner::cleanup reaches them"""
    out = []
    for c, nd in enumerate(prog):
        if c != o and parent_of(nd) == o:
            out += subtree(prog, c)
    return out + [o]


# ----------------------------------------------------------------------------- static helpers
def reads_of(e, acc=None, untr=False):
    """[(node, tracked?)] in evaluation-independent order; tracked? is static (Rd outside Untr)"""
    if acc is None:
        acc = []
    k = e[0]
    if k == 1:
        acc.append((e[1], not untr))
    elif k == 2:
        acc.append((e[1], False))
    elif k == 3:
        reads_of(e[1], acc, True)
    elif k in (4, 5):
        reads_of(e[1], acc, untr)
        reads_of(e[2], acc, untr)
    elif k == 6:
        reads_of(e[1], acc, untr)
        reads_of(e[2], acc, untr)
        reads_of(e[3], acc, untr)
    elif k == 7:
        reads_of(e[2], acc, untr)
    elif k == 8:
        acc.append((e[1], not untr))      # through the selector: its source is in the cone
    elif k == 9:
        acc.append((e[1], False))         # what the created node reads is in the creator's cone
    return acc


def writes_of(e, acc=None):
    if acc is None:
        acc = []
    k = e[0]
    if k == 7:
        acc.append(e[1])
        writes_of(e[2], acc)
    elif k == 3:
        writes_of(e[1], acc)
    elif k in (4, 5):
        writes_of(e[1], acc)
        writes_of(e[2], acc)
    elif k == 6:
        writes_of(e[1], acc)
        writes_of(e[2], acc)
        writes_of(e[3], acc)
    return acc


def has_untracked(e):
    k = e[0]
    if k in (2, 3):
        return True
    if k in (4, 5):
        return has_untracked(e[1]) or has_untracked(e[2])
    if k == 6:
        return has_untracked(e[1]) or has_untracked(e[2]) or has_untracked(e[3])
    if k == 7:
        return has_untracked(e[2])
    return False


def bodies(nd):
    if nd[0] == MEMO:
        return [nd[3]]
    if nd[0] == DER:
        return [nd[2]]
    if nd[0] == EFF:
        return [nd[2], nd[3]]
    if nd[0] == SEL:
        return [nd[2]]
    if nd[0] == TPL:
        return bodies(nd[1])
    return []


def split_creates(body):
    """(templates created by the prefix of the body, the rest of the body)"""
    ks = []
    while isinstance(body, list) and len(body) == 3 and body[0] == 4 and isinstance(body[1], list) and body[1][:1] == [9]:
        ks.append(body[1][1])
        body = body[2]
    return ks, body


def has_create(e):
    if not isinstance(e, list) or not e:
        return False
    if e[0] == 9:
        return True
    return any(has_create(x) for x in e[1:] if isinstance(x, list))


def tpl_kind(nd):
    """MEMO / EFF for a template node, else None"""
    return nd[1][0] if nd[0] == TPL else None


def creators(prog):
    """template -> (creator node, position in its prefix); None if some template has two creators"""
    out = {}
    for i, nd in enumerate(prog):
        d = nd[1] if nd[0] == TPL else nd
        if d[0] not in (MEMO, EFF):
            continue
        body = d[3] if d[0] == MEMO else d[2]
        for n, k in enumerate(split_creates(body)[0]):
            if k in out:
                return None
            out[k] = (i, n)
    return out


def scope_of(prog, cr, i, own=True):
    """memo templates whose instance the body of node i can name: those its own prefix creates (own=True), and those
    its creators created before creating it"""
    vis = set()
    d = prog[i][1] if prog[i][0] == TPL else prog[i]
    if own and d[0] in (MEMO, EFF):
        vis |= set(split_creates(d[3] if d[0] == MEMO else d[2])[0])
    x = i
    seen = 0
    while x in cr and seen <= len(prog):
        c, n = cr[x]
        dc = prog[c][1] if prog[c][0] == TPL else prog[c]
        vis |= set(split_creates(dc[3] if dc[0] == MEMO else dc[2])[0][:n])
        x = c
        seen += 1
    return {k for k in vis if 0 <= k < len(prog) and tpl_kind(prog[k]) == MEMO}


def cone(prog, i, memo=None):
    """all nodes node i may read, transitively (any mode)"""
    if memo is None:
        memo = {}
    if i in memo:
        return memo[i]
    memo[i] = set()
    out = set()
    for b in bodies(prog[i]):
        for j, _ in reads_of(b):
            if 0 <= j < len(prog) and j != i:
                out.add(j)
                out |= cone(prog, j, memo)
    memo[i] = out
    return out


def valid_prog(prog):
    """generator preconditions: a DAG by index, effects are sinks, writes only from effects to signals"""
    owned = set()      # cells / triggers that belong to a selector
    cr = None          # template -> its creator (computed when the first template shows up)
    for i, nd in enumerate(prog):
        if not isinstance(nd, list) or not nd or nd[0] not in (0, 1, 2, 3, 4, 5):
            return False
        want = {SIG: (3, 4), MEMO: (4, 5), DER: (3, 4), EFF: (4, 5, 6), SEL: (6,), TPL: (2,)}[nd[0]]
        if len(nd) not in want:
            return False
        if nd[0] == TPL:
            d = nd[1]
            if not (isinstance(d, list) and d and ((d[0] == MEMO and len(d) in (4, 5))
                                                    or (d[0] == EFF and (len(d) == 4 or (len(d) == 6 and d[4] == -1)) and d[1] in (0, 1, 2, 3, 4)))):
                return False
            if not valid_var(d):
                return False
            if d[0] == EFF and d[1] not in (2, 3) and d[3] != [0, 0]:
                return False
        if not valid_var(nd):
            return False
        if nd[0] == EFF and len(nd) >= 5:
            q = nd[4]
            if not isinstance(q, int) or q < -1 or q >= i:
                return False
            if q >= 0 and (prog[q][0] != EFF or prog[q][1] == 5 or nd[1] == 5):
                return False
        if nd[0] == SEL:
            if not (isinstance(nd[1], int) and 0 <= nd[1] <= 3 and isinstance(nd[5], list) and nd[5]):
                return False
            mine = [nd[3], nd[4]] + nd[5]
            if len(set(mine)) != len(mine) or any((not isinstance(x, int)) or not (0 <= x < i) or x in owned for x in mine):
                return False
            if not (is_cell(prog[nd[3]]) and is_cell(prog[nd[4]]) and all(is_key(prog[t]) for t in nd[5])):
                return False
            if len({prog[t][2] for t in nd[5]}) != len(nd[5]):
                return False
            owned |= set(mine)
        d = nd[1] if nd[0] == TPL else nd
        for bi, b in enumerate(bodies(nd)):
            if not valid_expr(b):
                return False
            ks, rest = split_creates(b)
            if has_create(rest) or (ks and (d[0] not in (MEMO, EFF) or bi == 1 or (d[0] == EFF and d[1] == 5))):
                return False
            if ks:
                if cr is None:
                    cr = creators(prog)
                    if cr is None:
                        return False
                for k in ks:
                    if not (isinstance(k, int) and 0 <= k < i and prog[k][0] == TPL):
                        return False
                    if tpl_kind(prog[k]) == EFF and d[0] != EFF:
                        return False       # effects are created by effects

            sc = frozenset()
            if d[0] in (MEMO, EFF) and (ks or nd[0] == TPL):
                if cr is None:
                    cr = creators(prog)
                    if cr is None:
                        return False
                sc = frozenset(scope_of(prog, cr, i, own=(bi == 0)))
            if not valid_refs(prog, i, rest, sc):
                return False
            ws = writes_of(b)
            if ws and d[0] != EFF:
                return False
        if nd[0] == EFF and nd[1] not in (2, 3) and nd[3] != [0, 0]:
            return False
        if nd[0] == EFF and not (isinstance(nd[1], int) and 0 <= nd[1] <= 6):
            return False
        if nd[0] == EFF and nd[1] == 6 and not (nd[2][0] == 1 and len(nd[2]) == 2 and 0 <= nd[2][1] < i
                                                  and prog[nd[2][1]][0] == SIG and prog[nd[2][1]][1] in (0, 1, 2, 4)):
            return False
        if nd[0] == DER and nd[1] >= 3 and not valid_wrapper(prog, i):
            return False
        if nd[0] == EFF and has_create(nd[2]) and ((nd[1] in (0, 2, 3) and var_of(nd) == 2) or (nd[1] == 4 and var_of(nd) == 1)):
            return False      # these constructors do not keep the value (the RenderEffect handles) of a run
        if nd[0] == EFF and nd[1] == 5 and var_of(nd) == 3 and any(prog[j][0] in (MEMO, SEL) for j in cone(prog, i)):
            return False      # ImmediateEffect::new_mut panics when it recurses (documented); through memos it does
    return True


def var_of(nd):
    """the API variant field of a node (0 when absent)"""
    pos = {SIG: 3, MEMO: 4, DER: 3, EFF: 5}.get(nd[0])
    return nd[pos] if pos is not None and len(nd) > pos else 0


def valid_var(nd):
    pos = {SIG: 3, MEMO: 4, DER: 3, EFF: 5}.get(nd[0])
    if pos is None or len(nd) <= pos:
        return True
    v = nd[pos]
    if not isinstance(v, int) or v < 0:
        return False
    if nd[0] == EFF:
        return v in {0: (0, 1, 2, 3), 1: (0, 1, 2), 2: (0, 1, 2), 3: (0, 1, 2), 4: (0, 1), 5: (0, 1, 2, 3)}.get(nd[1], (0,))
    rv, cv = v % 8, v // 8
    if rv > 4:
        return False
    return cv <= {SIG: 9, MEMO: 2, DER: 2}[nd[0]]


def valid_refs(prog, i, e, scope=frozenset()):
    """every node an expression of node i names is declared before i and is of the right kind; `scope`: the memo
    templates whose instance the body can name"""
    k = e[0]
    if k in (1, 2):
        return 0 <= e[1] < i and (is_plain(prog[e[1]]) or e[1] in scope)
    if k == 3:
        return valid_refs(prog, i, e[1], scope)
    if k in (4, 5):
        return valid_refs(prog, i, e[1], scope) and valid_refs(prog, i, e[2], scope)
    if k == 6:
        return all(valid_refs(prog, i, x, scope) for x in e[1:])
    if k == 7:
        return 0 <= e[1] < i and prog[e[1]][0] == SIG and is_plain(prog[e[1]]) and valid_refs(prog, i, e[2], scope)
    if k == 8:
        return 0 <= e[1] < i and prog[e[1]][0] == SEL and 0 <= e[2] < len(prog[e[1]][5])
    if k == 9:
        return False       # only as the prefix of a body
    if k == 11:
        nd = prog[i][1] if prog[i][0] == TPL else prog[i]
        return nd[0] == EFF and nd[1] in (0, 1, 2, 3, 4)
    if k == 10:
        nd = prog[i][1] if prog[i][0] == TPL else prog[i]
        return (nd[0] == EFF and nd[1] in (0, 1, 2, 3, 4) and 0 <= e[1] < i and prog[e[1]][0] == SIG
                and prog[e[1]][1] in (0, 1, 2, 4))
    return True


def wrappable(prog, j, flavour):
    """can node j be put into wrapper `flavour`"""
    nd = prog[j]
    if flavour == 5:
        return nd[0] == SIG and nd[1] in (0, 2)
    if flavour not in (3, 4, 6, 7, 8, 9):
        return False
    if nd[0] == SIG:
        return nd[1] not in (3, 5, 6)    # the ArcTrigger-backed cell is not a signal type
    if nd[0] == MEMO:
        return True
    if nd[0] == DER:
        return nd[1] <= 4
    return False


def valid_wrapper(prog, i):
    nd = prog[i]
    if nd[1] not in (3, 4, 5, 6, 7, 8, 9):
        return False
    b = nd[2]
    if b[0] == 0:
        return nd[1] != 5
    if not (b[0] == 1 and 0 <= b[1] < i and wrappable(prog, b[1], nd[1])):
        return False
    # a derived signal built by a constructor variant has a representation the conversions do not take
    return not (prog[b[1]][0] == DER and var_of(prog[b[1]]) // 8 != 0)


def valid_expr(e, depth=0):
    if not isinstance(e, list) or not e or depth > 30:
        return False
    k = e[0]
    if k == 0:
        return len(e) == 2 and isinstance(e[1], int)
    if k in (1, 2):
        return len(e) == 2 and isinstance(e[1], int)
    if k == 3:
        return len(e) == 2 and valid_expr(e[1], depth + 1)
    if k in (4, 5):
        return len(e) == 3 and valid_expr(e[1], depth + 1) and valid_expr(e[2], depth + 1)
    if k == 6:
        return len(e) == 4 and all(valid_expr(x, depth + 1) for x in e[1:])
    if k == 7:
        return len(e) == 3 and isinstance(e[1], int) and valid_expr(e[2], depth + 1)
    if k == 8:
        return len(e) == 3 and isinstance(e[1], int) and isinstance(e[2], int)
    if k in (9, 10):
        return len(e) == 2 and isinstance(e[1], int)
    if k == 11:
        return len(e) == 1
    return False


def disposable(prog, n):
    """arena handles only (Arc handles are kept alive by the closures that read them), not written by
    any effect and not wrapped (a wrapper keeps the inner value alive)"""
    nd = prog[n]
    if not ((nd[0] == SIG and nd[1] in (1, 2)) or (nd[0] == MEMO and nd[2] == 1)):
        return False
    for other in prog:
        for b in bodies(other):
            if n in writes_of(b):
                return False
        if other[0] == DER and other[1] >= 3 and other[2][0] == 1 and other[2][1] == n:
            return False
        if other[0] == EFF and other[1] == 6 and other[2] == [1, n]:
            return False          # to_stream reads with get(): it panics on a disposed signal (documented)
    return True


def handle_disposable(prog, e):
    """(7 e how): the effect alone is disposed through its handle: nothing lives below it"""
    nd = prog[e]
    if nd[0] != EFF or nd[1] == 6 or any(parent_of(x) == e for x in prog) or has_create(nd[2]):
        return False          # (the effect inside to_stream has no handle the user could dispose)
    return True


def adoptable(prog, k):
    """(10 e k): template k declares an Effect::new / watch / new_isomorphic that nothing in the program creates and
    that creates nothing itself (a RenderEffect would run at once, paused or not: its first run is its creation)"""
    if not (isinstance(k, int) and 0 <= k < len(prog) and prog[k][0] == TPL):
        return False
    d = prog[k][1]
    if d[0] != EFF or d[1] not in (0, 2, 3, 4) or has_create(d[2]) or has_create(d[3]):
        return False
    cr = creators(prog)
    return cr is not None and k not in cr


def valid_ops(prog, ops):
    gone = set()
    dead = set()       # effects whose owner was cleaned up (with its subtree)
    for o in ops:
        if not isinstance(o, list) or not o:
            return False
        k = o[0]
        if k in (0, 1, 2, 8) and len(o) >= 2 and o[1] in gone:
            return False
        if k == 8:
            if len(o) != 2 or not (0 <= o[1] < len(prog)) or not disposable(prog, o[1]):
                return False
            gone.add(o[1])
            continue
        if k == 0:
            if len(o) != 3 or not (0 <= o[1] < len(prog)) or prog[o[1]][0] != SIG or not is_plain(prog[o[1]]):
                return False
        elif k == 1:
            if len(o) != 2 or not (0 <= o[1] < len(prog)) or prog[o[1]][0] != SIG or not is_plain(prog[o[1]]):
                return False
        elif k == 2:
            if len(o) != 2 or not (0 <= o[1] < len(prog)) or not is_plain(prog[o[1]]):
                return False
        elif k == 3:
            if len(o) != 2 or o[1] < 0:
                return False
        elif k == 4:
            if len(o) != 1:
                return False
        elif k in (5, 6):
            if len(o) != 2 or not (0 <= o[1] < len(prog)) or prog[o[1]][0] != EFF:
                return False
        elif k == 7:
            if len(o) not in (2, 3) or not (0 <= o[1] < len(prog)) or prog[o[1]][0] != EFF:
                return False
            if len(o) == 3 and o[2] != 0 and not (o[2] in (1, 2) and handle_disposable(prog, o[1])):
                return False
            if len(o) == 2 or o[2] == 0:
                dead |= set(subtree(prog, o[1]))
        elif k == 9:
            if (len(o) != 3 or not (0 <= o[1] < len(prog)) or prog[o[1]][0] != SIG or not is_plain(prog[o[1]])
                    or o[1] in gone or o[2] not in (0, 1, 2, 3, 4)):
                return False
        elif k == 12:
            if len(o) != 5 or o is not ops[-1] or any(not (isinstance(x, int) and 0 <= x < len(prog) and prog[x][0] == MEMO and prog[x][2] == 0
                                                           and var_of(prog[x]) // 8 != 2 and x not in gone) for x in o[1:3]):
                return False
            if not (isinstance(o[3], int) and 0 <= o[3] < len(prog) and prog[o[3]][0] == SIG and prog[o[3]][1] in (0, 3, 4)
                    and isinstance(o[4], int)):
                return False
            if any(nd[0] == MEMO and nd[1] == 2 for nd in prog):
                return False
        elif k == 10:
            if len(o) != 3 or not (0 <= o[1] < len(prog)) or prog[o[1]][0] != EFF or prog[o[1]][1] == 5:
                return False
            if not adoptable(prog, o[2]) or o[1] in dead:
                return False       # (an owner that was cleaned up is cut off from its parent)
        else:
            return False
    return True


def writes_terminate(prog):
    """no effect writes a signal that an effect of smaller-or-equal index may read: every chain of
    effect-triggers-effect goes strictly upwards, so every history reaches idle"""
    memo = {}
    iseff = lambda nd: nd[0] == EFF or tpl_kind(nd) == EFF
    for e, nd in enumerate(prog):
        if not iseff(nd):
            continue
        for b in bodies(nd):
            for s in writes_of(b):
                if any(tpl_kind(x) is not None for x in prog):
                    return False      # programs that create nodes at run time: no writing effects
                for e2, nd2 in enumerate(prog):
                    if iseff(nd2) and e2 <= e and s in cone(prog, e2, memo):
                        return False
    return True


def valid_case(item):
    c = item["case"]
    if not (isinstance(c, list) and len(c) in (2, 3) and isinstance(c[0], list) and isinstance(c[1], list)):
        return False
    if len(c) == 3 and c[2] not in (0, 1, 2, 3, 4, 5, 6, 7):
        return False
    if item.get("compare") and any(o and o[0] in (9, 10, 12) for o in c[1] if isinstance(o, list)):
        return False          # the model has no such operation
    if not valid_prog(c[0]) or not valid_ops(c[0], c[1]):
        return False
    if item.get("kind", "").startswith("selfwrite"):
        return True
    return writes_terminate(c[0])


# ----------------------------------------------------------------------------- generation
def gen_expr(rng, readable, depth, p_untr=0.12, sigs=None):
    r = rng.random()
    if depth == 0 or r < 0.34:
        if readable and rng.random() < 0.93:
            j = rng.choice(readable)
            u = rng.random()
            if u < 1 - p_untr:
                return [1, j]
            if u < 1 - p_untr / 2:
                return [2, j]
            return [3, [1, j]]
        return [0, rng.randint(0, 3)]
    if r < 0.60:
        return [4, gen_expr(rng, readable, depth - 1, p_untr, sigs), gen_expr(rng, readable, depth - 1, p_untr, sigs)]
    if r < 0.74:
        return [5, gen_expr(rng, readable, depth - 1, p_untr, sigs), gen_expr(rng, readable, depth - 1, p_untr, sigs)]
    if r < 0.93:
        # conditional reads: the condition is usually a signal so branches really switch
        cnd = [1, rng.choice(sigs)] if sigs and rng.random() < 0.6 else gen_expr(rng, readable, depth - 1, p_untr, sigs)
        if rng.random() < 0.5:
            cnd = [5, cnd, [0, rng.randint(1, 2)]]
        return [6, cnd, gen_expr(rng, readable, depth - 1, p_untr, sigs), gen_expr(rng, readable, depth - 1, p_untr, sigs)]
    if rng.random() < p_untr * 4:
        return [3, gen_expr(rng, readable, depth - 1, p_untr, sigs)]
    return gen_expr(rng, readable, depth - 1, p_untr, sigs)


def gen_program(rng, n, n_eff=0, p_untr=0.12, p_der=0.15, p_always=0.12, eff_kinds=(0, 0, 1, 2, 3, 4),
                allow_wr=True, extra_sigs=True, p_wrap=0.45, p_coarse=0.15, new_wrappers=False):
    """n nodes: signals first (plus a few later ones), memos / derived, n_eff effects spread over the tail"""
    nsig = max(1, min(rng.randint(1, 3), n - n_eff - 1))
    n = max(n, nsig + n_eff)
    prog = []
    kinds = [SIG] * nsig
    rest = n - nsig
    eff_pos = set()
    if n_eff:
        # effects may sit between memos (they only read lower nodes); bias towards the end
        slots = list(range(nsig + 1, n)) if n - nsig - 1 >= n_eff else list(range(nsig, n))
        rng.shuffle(slots)
        for s in sorted(slots[:n_eff]):
            eff_pos.add(s)
    for i in range(nsig, n):
        if i in eff_pos:
            kinds.append(EFF)
        else:
            r = rng.random()
            if extra_sigs and r < 0.08:
                kinds.append(SIG)
            elif r < 0.08 + p_der:
                kinds.append(DER)
            else:
                kinds.append(MEMO)
    for i, k in enumerate(kinds):
        readable = [j for j in range(i) if kinds[j] != EFF]
        sigs = [j for j in range(i) if kinds[j] == SIG]
        # prefer recent nodes so that chains and diamonds form
        if len(readable) > 4 and rng.random() < 0.5:
            readable = readable[-4:] + sigs[:1]
        if k == SIG:
            prog.append([0, rng.choice([0, 0, 1, 1, 2, 3, 4]), rng.randint(0, 3)])
        elif k == MEMO:
            r = rng.random()
            prog.append([1, 1 if r < p_always else (2 if r < p_always + p_coarse else 0), rng.randint(0, 1),
                         gen_expr(rng, readable, rng.choice([1, 2, 2, 3]), p_untr, sigs)])
        elif k == DER:
            nd = None
            if rng.random() < p_wrap:
                # a type-erased wrapper around an earlier node (prefer memos and recent nodes)
                fl = rng.choice([3, 3, 3, 4, 4, 5, 6, 7, 7, 8, 9] if new_wrappers else [3, 3, 3, 4, 4, 5, 6])
                cands = [j for j in range(i) if kinds[j] != EFF and wrappable(prog, j, fl)]
                memos = [j for j in cands if kinds[j] == MEMO]
                if cands and rng.random() < 0.93:
                    j = rng.choice(memos) if memos and rng.random() < 0.6 else rng.choice(cands[-4:])
                    nd = [2, fl, [1, j]]
                elif fl != 5:
                    nd = [2, fl, [0, rng.randint(0, 3)]]
            if nd is None:
                nd = [2, rng.randint(0, 2), gen_expr(rng, readable, rng.choice([1, 2]), p_untr, sigs)]
            prog.append(nd)
        else:
            kind = rng.choice(eff_kinds)
            body = gen_expr(rng, readable, rng.choice([1, 2, 3]), p_untr, sigs)
            h = [0, 0]
            if kind in (2, 3):
                h = gen_expr(rng, readable, rng.choice([0, 1]), 0.0, sigs)
            prog.append([3, kind, body, h])
    if allow_wr:
        add_writes(rng, prog)
    return prog


def add_writes(rng, prog):
    """let some effects write signals, keeping [writes_terminate]"""
    memo = {}
    effs = [i for i, nd in enumerate(prog) if nd[0] == EFF]
    sigs = [i for i, nd in enumerate(prog) if nd[0] == SIG and is_plain(nd)]
    for e in effs:
        if prog[e][1] == 5 or rng.random() > 0.35:
            continue
        ok = [s for s in sigs
              if s < e and all(not (e2 <= e and s in cone(prog, e2, memo)) for e2 in effs)]
        if not ok:
            continue
        s = rng.choice(ok)
        mine = sorted(j for j in cone(prog, e, memo) if is_plain(prog[j]) and j < e)
        val = [0, rng.randint(0, 3)]
        if mine and rng.random() < 0.6:
            val = [4, [1 if rng.random() < 0.7 else 2, rng.choice(mine)], [0, rng.randint(0, 1)]]
        wr = [7, s, val]
        if rng.random() < 0.4 and mine:
            wr = [6, [5, [1, rng.choice(mine)], [0, 2]], wr, [0, 0]]
        nd = prog[e]
        if nd[1] in (2, 3) and rng.random() < 0.6:
            nd[3] = [4, nd[3], wr]
        elif rng.random() < 0.5:
            nd[2] = [4, nd[2], wr]
        else:
            nd[2] = [4, wr, nd[2]]
        memo.clear()


def add_disposals(rng, prog, ops, p_drop):
    """dispose one or two arena signals / memos in the middle of the history; later set / notify /
    top-level read of a disposed node are dropped (bodies that read it keep doing so)"""
    if rng.random() >= p_drop:
        return ops
    cands = [n for n in range(len(prog)) if disposable(prog, n)]
    # prefer nodes that somebody reads
    read_by = set()
    for nd in prog:
        for b in bodies(nd):
            for j, _ in reads_of(b):
                read_by.add(j)
    pref = [n for n in cands if n in read_by]
    if pref and rng.random() < 0.85:
        cands = pref
    if not cands:
        return ops
    rng.shuffle(cands)
    for n in cands[:rng.choice([1, 1, 2])]:
        pos = rng.randint(1, max(1, len(ops) - 1))
        ops = ops[:pos] + [[8, n]] + [o for o in ops[pos:] if not (o[0] in (0, 1, 2, 8) and len(o) > 1 and o[1] == n)]
    return ops


def gen_ops(rng, prog, n_ops, w=(0.34, 0.05, 0.36, 0.10, 0.10, 0.05), vals=(0, 1, 2, 3), p_drop=0.0):
    """weights: write, notify, read, tick, run, pause/resume/dispose"""
    if p_drop:
        return add_disposals(rng, prog, gen_ops(rng, prog, n_ops, w, vals), p_drop)
    sigs = [i for i, nd in enumerate(prog) if nd[0] == SIG and is_plain(nd)]
    readable = [i for i, nd in enumerate(prog) if is_plain(nd)]
    effs = [i for i, nd in enumerate(prog) if nd[0] == EFF]
    derived = [i for i in readable if prog[i][0] != SIG]
    ops = []
    for _ in range(n_ops):
        r = rng.random()
        acc = 0
        for k, wk in enumerate(w):
            acc += wk
            if r < acc:
                break
        if k == 0:
            ops.append([0, rng.choice(sigs), rng.choice(vals)])
        elif k == 1:
            ops.append([1, rng.choice(sigs)])
        elif k == 2:
            pool = derived if derived and rng.random() < 0.85 else readable
            ops.append([2, rng.choice(pool)])
        elif k == 3 and effs:
            ops.append([3, rng.randint(0, 5)])
        elif k == 4 and effs:
            ops.append([4])
        elif k == 5 and effs:
            ops.append([rng.choice([5, 5, 6, 6, 6, 7]), rng.choice(effs)])
        else:
            ops.append([2, rng.choice(readable)])
    return ops


def gen_zone_case(rng, n_ops=None):
    """untrack ZONES with several reads: an outer memo `tracked + untrack(|| stale_memo + signal ...)`, the memo in the
    zone being pulled (recomputed) from inside the zone before the other reads are made; the history writes the
    untracked sources, the inner memo's input and the tracked part, and reads the outer memo in between"""
    prog = []
    nsig = rng.randint(2, 4)
    for _ in range(nsig):
        prog.append([0, rng.choice([0, 0, 1, 1, 2, 3, 4]), rng.randint(0, 3)])
    sigs = list(range(nsig))
    inner = []
    for _ in range(rng.randint(1, 3)):
        readable = sigs + inner
        src = rng.choice(inner) if inner and rng.random() < 0.5 else rng.choice(sigs)
        body = [1, src] if rng.random() < 0.5 else [4, [1, src], gen_expr(rng, readable, 1, 0.0, sigs)]
        prog.append([1, rng.choice([0, 0, 0, 1, 2]), rng.randint(0, 1), body])
        inner.append(len(prog) - 1)
    outers = []
    for _ in range(rng.randint(1, 3)):
        readable = [j for j in range(len(prog))]
        parts = [[1, rng.choice(inner)]]                      # the memo first ...
        for _ in range(rng.randint(1, 3)):                    # ... then signals / other nodes, in the same zone
            parts.append([1, rng.choice(sigs if rng.random() < 0.7 else readable)])
        if rng.random() < 0.25:
            rng.shuffle(parts)
        zone = parts[0]
        for x in parts[1:]:
            zone = [4, zone, x]
        zone = [3, zone]
        tracked = [1, rng.choice(sigs)] if rng.random() < 0.8 else gen_expr(rng, readable, 1, 0.0, sigs)
        r = rng.random()
        if r < 0.5:
            body = [4, tracked, zone]
        elif r < 0.75:
            body = [4, zone, tracked]
        else:
            body = [6, tracked, zone, [4, zone, [0, 1]]]
        prog.append([1, rng.choice([0, 0, 0, 1]), rng.randint(0, 1), body])
        outers.append(len(prog) - 1)
    if rng.random() < 0.5:
        prog.append([1, 0, rng.randint(0, 1), [4, [1, rng.choice(outers)], [0, 1]]])
        outers.append(len(prog) - 1)
    if rng.random() < 0.3:
        prog.append([2, rng.choice([0, 1, 2, 3, 4]), [1, rng.choice(outers)]])
        outers.append(len(prog) - 1)
    ops = []
    for _ in range(n_ops or rng.randint(6, 24)):
        r = rng.random()
        if r < 0.45:
            ops.append([0, rng.choice(sigs), rng.randint(0, 5)])
        elif r < 0.5:
            ops.append([1, rng.choice(sigs)])
        elif r < 0.9:
            ops.append([2, rng.choice(outers)])
        else:
            ops.append([2, rng.choice(inner)])
    ops.append([2, outers[-1]])
    return [prog, ops]


def gen_deep_case(rng, depth, n_diamonds=0, with_effect=False):
    """a chain of `depth` memos over one or two signals, a few of its links being small diamonds (the push phase of
    the real code re-propagates on every incoming path, so stacked diamonds cost 2^k: k stays small), read at the far
    end, in the middle and near the signal between writes"""
    prog = [[0, rng.choice([0, 1, 2, 3, 4]), rng.randint(0, 3)], [0, rng.choice([0, 1, 2]), rng.randint(0, 3)]]
    at = set(rng.sample(range(5, max(6, depth - 5)), min(n_diamonds, max(0, depth - 12)))) if n_diamonds else set()
    prev = 0
    marks = []
    while len(prog) < depth + 2:
        i = len(prog)
        cmpk = 1 if rng.random() < 0.03 else 0
        fl = rng.randint(0, 1)
        if i in at:
            prog.append([1, cmpk, fl, [4, [1, prev], [0, 1]]])
            prog.append([1, 0, fl, [1, prev] if rng.random() < 0.5 else [4, [1, prev], [1, 1]]])
            prog.append([1, 0, fl, [4, [1, i], [1, i + 1]]])
            prev = i + 2
        else:
            r = rng.random()
            if r < 0.6:
                body = [1, prev]
            elif r < 0.9:
                body = [4, [1, prev], [0, rng.randint(0, 1)]]
            elif r < 0.95:
                body = [4, [1, prev], [3, [1, 1]]]
            else:
                body = [6, [5, [1, 1], [0, 2]], [1, prev], [4, [1, prev], [0, 1]]]
            prog.append([1, cmpk, fl, body])
            prev = i
        marks.append(prev)
    far = prev
    if with_effect:
        prog.append([3, rng.choice([0, 1, 4]), [1, far], [0, 0]])
    mid = marks[len(marks) // 2]
    near = marks[min(3, len(marks) - 1)]
    ops = [[2, far]] if rng.random() < 0.8 else []
    for _ in range(rng.randint(3, 6)):
        ops.append([0, 0, rng.randint(0, 6)])
        if with_effect and rng.random() < 0.5:
            ops.append([4])
        r = rng.random()
        if r < 0.55:
            ops.append([2, far])
        elif r < 0.7:
            ops += [[2, mid], [2, far]]
        elif r < 0.8:
            ops += [[2, near], [2, far]]
        elif r < 0.9:
            ops += [[0, 1, rng.randint(0, 3)], [2, far]]
        else:
            ops += [[2, rng.choice(marks)], [2, far]]
    if with_effect:
        ops.append([4])
    return [prog, ops]


def gen_dynamic_program(rng, n_creators, eff_kinds=(0, 0, 1, 2, 3, 4), with_effects=True, p_untr=0.03, depth2=0.35, keep_owner=0.0):
    """nodes created at run time: creators (memos / effects) whose bodies begin with (9 k) for the templates declared
    just before them; a template effect may itself be a creator (nesting of depth 2)"""
    prog = []
    for _ in range(rng.randint(2, 3)):
        prog.append([0, rng.choice([0, 0, 1, 1, 2, 3, 4]), rng.randint(0, 3)])
    sigs = list(range(len(prog)))
    if rng.random() < 0.5:
        prog.append([1, rng.choice([0, 0, 1, 2]), rng.randint(0, 1), gen_expr(rng, sigs, 1, p_untr, sigs)])

    def plain():
        return [j for j, nd in enumerate(prog) if is_plain(nd)]

    def body_over(readable, depth):
        e = gen_expr(rng, readable, depth, p_untr, sigs)
        return e

    def make_creator(is_eff, as_template, level, inherited):
        """appends the templates, then the creator; returns the creator's index"""
        mine = []          # memo templates visible to what is created later in this prefix
        created = []
        for _ in range(rng.randint(1, 2)):
            want_eff = is_eff and rng.random() < (0.6 if with_effects else 0.0)
            if want_eff and level == 0 and rng.random() < depth2:
                k = make_creator(True, True, level + 1, inherited + mine)
            elif want_eff:
                kind = rng.choice(eff_kinds)
                b = body_over(plain() + inherited + mine, rng.choice([0, 1, 2]))
                h = body_over(plain() + inherited + mine, rng.choice([0, 1])) if kind in (2, 3) else [0, 0]
                prog.append([5, [3, kind, b, h]])
                k = len(prog) - 1
            else:
                fl = rng.randint(0, 1)
                b = body_over(plain() + inherited + mine, rng.choice([1, 1, 2]))
                prog.append([5, [1, rng.choice([0, 0, 0, 1, 2]), fl, b]])
                k = len(prog) - 1
                mine.append(k)
            created.append(k)
        rest = body_over(plain() + inherited + mine, rng.choice([1, 2]))
        if mine and rng.random() < 0.85:
            rest = [4, [1, rng.choice(mine)], rest]
        if is_eff and rng.random() < keep_owner:
            # the effect hands out its owner (Owner::current()), before or after it creates what lives under it
            rest = [4, [11], rest]
        body = rest
        for k in reversed(created):
            body = [4, [9, k], body]
        if is_eff:
            kind = rng.choice(eff_kinds)
            h = body_over(plain() + inherited, rng.choice([0, 1])) if kind in (2, 3) else [0, 0]
            d = [3, kind, body, h]
        else:
            d = [1, rng.choice([0, 0, 0, 1, 2]), rng.randint(0, 1) if not as_template else 0, body]
        prog.append([5, d] if as_template else d)
        return len(prog) - 1

    for _ in range(n_creators):
        make_creator(with_effects and rng.random() < 0.7, False, 0, [])
        if rng.random() < 0.3:
            prog.append([1, 0, rng.randint(0, 1), gen_expr(rng, plain(), 1, p_untr, sigs)])
    return prog


def add_variants(rng, prog, p=0.5):
    """API variants on the nodes of a generated program (see the module docstring): other entry points of the same
    mechanism; the model ignores the fields"""
    for nd in prog:
        if rng.random() >= p:
            continue
        if nd[0] == TPL:
            d = nd[1]
            if d[0] == MEMO and len(d) == 4:
                d.append(rng.randint(0, 4) + 8 * rng.choice([0, 1, 1, 2]))
            elif d[0] == EFF and len(d) == 4 and d[1] != 4:
                d += [-1, rng.choice({0: (1,), 1: (1, 2), 2: (1,), 3: (1,)}[d[1]])]
            continue
        if nd[0] == SIG and nd[1] in (0, 1, 2, 4) and len(nd) == 3:
            nd.append(rng.randint(0, 4) + 8 * rng.randint(0, 9))
        elif nd[0] == MEMO and len(nd) == 4:
            nd.append(rng.randint(0, 4) + 8 * rng.choice([0, 1, 1, 2]))
        elif nd[0] == DER and len(nd) == 3:
            wrapped = any(o[0] == DER and o[1] >= 3 and o[2][0] == 1 and prog[o[2][1]] is nd for o in prog)
            nd.append(rng.randint(0, 4) + 8 * (0 if wrapped else rng.randint(0, 2)))
        elif nd[0] == EFF and nd[1] != 6:
            choices = {0: (1, 1, 2, 3), 1: (1, 2), 2: (1, 1, 2), 3: (1, 1, 2), 4: (1,), 5: (1, 2)}[nd[1]]
            if has_create(nd[2]):
                choices = tuple(c for c in choices if not ((nd[1] in (0, 2, 3) and c == 2) or nd[1] == 4)) or (0,)
            if nd[1] == 5 and not any(prog[j][0] in (MEMO, SEL) for j in cone(prog, prog.index(nd))):
                choices = (1, 2, 3, 3)      # new_mut: only where it cannot recurse
            par = nd[4] if len(nd) > 4 else -1
            nd[4:] = [par, rng.choice(choices)]
    return prog


def add_streams(rng, prog, p=0.5):
    """replace an effect that has no owner below it by `signal.to_stream()` over one of the signals before it"""
    for e, nd in enumerate(prog):
        if nd[0] != EFF or nd[1] in (1, 5) or rng.random() >= p or any(parent_of(x) == e for x in prog) or has_create(nd[2]):
            continue
        sigs = [j for j in range(e) if prog[j][0] == SIG and prog[j][1] in (0, 1, 2, 4)]
        if sigs:
            old = list(nd)
            nd[1:4] = [6, [1, rng.choice(sigs)], [0, 0]]
            if len(nd) > 5:
                nd[5] = 0
            if not writes_terminate(prog):
                nd[:] = old
    return prog


def add_cleanups(rng, prog, p=0.5):
    """effect bodies register an on_cleanup callback that reads a signal, preferably one the body does not read"""
    memo = {}
    for e, nd in enumerate(prog):
        if nd[0] != EFF or nd[1] not in (0, 1, 2, 3, 4) or rng.random() >= p or has_create(nd[2]):
            continue
        sigs = [j for j in range(e) if prog[j][0] == SIG and prog[j][1] in (0, 1, 2, 4)]
        other = [j for j in sigs if j not in cone(prog, e, memo)]
        if not sigs:
            continue
        j = rng.choice(other) if other and rng.random() < 0.85 else rng.choice(sigs)
        nd[2] = [4, nd[2], [10, j]] if rng.random() < 0.5 else [4, [10, j], nd[2]]
    return prog


def gen_threads_case(rng):
    """ArcMemos over Arc signals; between writes a memo is read on another thread while a third thread holds a read
    guard of it (or of the memo below it)"""
    prog = [[0, rng.choice([0, 4, 3]), rng.randint(0, 3)], [0, rng.choice([0, 4]), rng.randint(0, 3)]]
    memos = []
    for _ in range(rng.randint(1, 3)):
        src = rng.choice(memos) if memos and rng.random() < 0.6 else 0
        body = rng.choice([[1, src], [4, [1, src], [0, rng.randint(0, 2)]], [4, [1, src], [1, src]], [4, [1, src], [1, 1]]])
        # (no coarse comparator: the bodies that run on the other threads are not logged, so the oracle cannot know
        # which value of a parity class a subscriber legitimately kept)
        prog.append([1, rng.choice([0, 0, 1]), 0, body] + ([8] if rng.random() < 0.3 else []))
        memos.append(len(prog) - 1)
    ops = [[2, memos[-1]]] if rng.random() < 0.8 else []
    for _ in range(rng.randint(0, 2)):
        ops.append([0, rng.choice([0, 0, 1]), rng.randint(0, 6)])
        ops.append([2, rng.choice(memos)])
    r = rng.choice(memos)
    below = [m for m in memos if m <= r]
    ops.append([12, rng.choice(below) if rng.random() < 0.5 else r, r, 0, rng.randint(7, 9)])
    return [prog, ops]


def gen_cleanup_case(rng):
    """an effect (watch dependency fn) reads a; its cleanup callback reads b; the history re-runs the effect, then
    writes b: nothing may run"""
    prog = [[0, rng.choice([0, 1, 2, 4]), rng.randint(0, 3)], [0, rng.choice([0, 1, 2, 4]), rng.randint(0, 3)]]
    if rng.random() < 0.4:
        prog.append([1, 0, rng.randint(0, 1), [1, 0]])
    src = len(prog) - 1 if len(prog) > 2 else 0
    kind = rng.choice([0, 0, 1, 2, 3, 4])
    body = [4, [1, src], [10, 1]] if rng.random() < 0.5 else [4, [10, 1], [1, src]]
    prog.append([3, kind, body, [2, 0] if kind in (2, 3) and rng.random() < 0.5 else [0, 0]])
    if rng.random() < 0.5:
        add_variants(rng, prog, 0.6)
    ops = [[4]]
    for _ in range(rng.randint(2, 6)):
        r = rng.random()
        ops.append([0, 0, rng.randint(0, 5)] if r < 0.5 else ([0, 1, rng.randint(0, 5)] if r < 0.9 else [1, 1]))
        ops.append([4] if rng.random() < 0.8 else [3, 0])
    ops += [[0, 0, 6], [4], [0, 1, 6], [4], [0, 1, 7], [4]]
    return with_flags(rng, prog, ops, 0.2)


def with_flags(rng, prog, ops, p=0.3):
    """the case, in a part of the cases with flags (fresh waker per poll, untrack_with_diagnostics)"""
    if rng.random() < p:
        return [prog, ops, rng.choice([1, 1, 2, 3, 4, 4, 5, 7])]
    return [prog, ops]


def vary_disposals(rng, prog, ops, p=0.5):
    """(7 e) -> (7 e how): the effect is disposed through its handle where nothing lives below it"""
    out = []
    for o in ops:
        if o[0] == 7 and len(o) == 2 and rng.random() < p and handle_disposable(prog, o[1]):
            o = [7, o[1], rng.choice([1, 2])]
        out.append(o)
    return out


def add_silent(rng, prog, ops, n=3):
    """insert operations that are not writes (maybe_update returning false, an untracked write guard ...)"""
    sigs = [i for i, nd in enumerate(prog) if nd[0] == SIG and is_plain(nd) and nd[1] != 3]
    if not sigs:
        return ops
    ops = list(ops)
    for _ in range(rng.randint(1, n)):
        pos = rng.randint(0, len(ops))
        s_ = rng.choice(sigs)
        if any(o[0] == 8 and o[1] == s_ for o in ops[:pos]):
            continue
        ops.insert(pos, [9, s_, rng.randint(0, 4)])
    return ops


def gen_adopt_case(rng):
    """effects created in the middle of the history under the owner of an existing effect, which may be paused at
    that moment: (10 e k)"""
    ne = rng.choice([1, 2, 2, 3])
    prog = gen_program(rng, rng.randint(ne + 2, ne + 5), ne, p_untr=0.05, allow_wr=False, eff_kinds=(0, 0, 1, 2, 3, 4))
    if ne > 1 and rng.random() < 0.5:
        add_owner_tree(rng, prog, p_child=0.7)
    readable = [j for j, nd in enumerate(prog) if is_plain(nd)]
    sigs = [j for j, nd in enumerate(prog) if nd[0] == SIG and is_plain(nd)]
    effs = [j for j, nd in enumerate(prog) if nd[0] == EFF]
    tpls = []
    for _ in range(rng.randint(1, 2)):
        kind = rng.choice([0, 0, 2, 3, 4])
        body = gen_expr(rng, readable, rng.choice([0, 1, 2]), 0.05, sigs)
        h = gen_expr(rng, readable, rng.choice([0, 1]), 0.0, sigs) if kind in (2, 3) else [0, 0]
        prog.append([5, [3, kind, body, h]])
        tpls.append(len(prog) - 1)
    ops = [[4]] if rng.random() < 0.7 else []
    for _ in range(rng.randint(4, 14)):
        r = rng.random()
        if r < 0.22:
            ops.append([rng.choice([5, 5, 6]), rng.choice(effs)])
        elif r < 0.42:
            ops.append([10, rng.choice(effs), rng.choice(tpls)])
        elif r < 0.72:
            ops.append([0, rng.choice(sigs), rng.randint(0, 3)])
        elif r < 0.77:
            ops.append([7, rng.choice(effs)])
        else:
            ops.append([4] if rng.random() < 0.7 else [3, rng.randint(0, 3)])
    if rng.random() < 0.6:
        for e in effs:
            if parent_of(prog[e]) is None:
                ops.append([6, e])
        for s_ in sigs:
            ops.append([0, s_, rng.randint(4, 6)])
    ops.append([4])
    dead, keep = set(), []
    for o in ops:
        if o[0] == 7:
            dead |= set(subtree(prog, o[1]))
        if o[0] == 10 and o[1] in dead:
            continue
        keep.append(o)
    return [prog, keep]


def gen_wide_case(rng, n_memos, n_effs, tree=False):
    """width instead of depth: two signals with n_memos direct subscribers (memos of every flavour, some conditional),
    n_effs effects reading a signal and a few memos; with `tree`, all effects but the first live under the owner of the
    first (an owner with many children) and the history pauses / resumes / disposes that owner"""
    prog = [[0, rng.choice([0, 1, 2, 3, 4]), rng.randint(0, 3)], [0, rng.choice([0, 1, 2, 4]), rng.randint(0, 3)]]
    memos = []
    for _ in range(n_memos):
        r = rng.random()
        if r < 0.5:
            body = [4, [1, 0], [0, rng.randint(0, 2)]]
        elif r < 0.75:
            body = [4, [1, 0], [1, 1]]
        elif r < 0.9:
            body = [6, [5, [1, 1], [0, 2]], [1, 0], [0, 7]]
        else:
            body = [4, [1, 0], [3, [1, 1]]]
        prog.append([1, rng.choice([0, 0, 0, 1, 2]), rng.randint(0, 1), body])
        memos.append(len(prog) - 1)
    first = None
    effs = []
    for k in range(n_effs):
        body = [1, rng.choice([0, 0, 1])]
        for m in rng.sample(memos, min(len(memos), rng.randint(1, 3))):
            body = [4, body, [1, m]]
        nd = [3, rng.choice([0, 0, 1, 2, 3, 4]), body, [0, 0]]
        if tree and first is not None:
            nd.append(first)
        prog.append(nd)
        effs.append(len(prog) - 1)
        if first is None:
            first = len(prog) - 1
    ops = [[4]] if effs else []
    for _ in range(rng.randint(3, 7)):
        r = rng.random()
        if tree and effs and r < 0.3:
            ops.append([rng.choice([5, 6, 6]), first])
        elif tree and effs and r < 0.34:
            ops.append([7, rng.choice(effs[1:] or effs)])
        ops.append([0, rng.choice([0, 0, 1]), rng.randint(0, 4)])
        if effs:
            ops.append([4] if rng.random() < 0.7 else [3, rng.randint(0, n_effs)])
        for m in rng.sample(memos, min(len(memos), 3)):
            ops.append([2, m])
    if tree and effs:
        ops += [[6, first], [0, 0, 5], [0, 1, 5]]
    if effs:
        ops.append([4])
    return [prog, ops]


def interleave(main, extras, every):
    """yield the items of `main`, one of `extras` after every `every` of them (expensive cases spread over the
    shards the driver cuts the stream into), the rest at the end"""
    extras = list(extras)
    for n, it in enumerate(main):
        yield it
        if extras and (n + 1) % every == 0:
            yield extras.pop(0)
    for it in extras:
        yield it


def add_owner_tree(rng, prog, p_child=0.6):
    """put the owners of the effects into a tree: an effect's owner is created under the owner of an
    earlier effect (ImmediateEffect stays outside)"""
    effs = [i for i, nd in enumerate(prog) if nd[0] == EFF and nd[1] != 5]
    for n, e in enumerate(effs):
        if n and rng.random() < p_child:
            # prefer the previous effect, so that chains of depth 3 and more form
            q = effs[n - 1] if rng.random() < 0.6 else rng.choice(effs[:n])
            prog[e] = prog[e][:4] + [q] + prog[e][5:]
    return prog


SEL_VALUES = (0, 1, 2, 3, 5, 9, 10, 11, 15, 19, 20, 21, 25, 30)


def gen_selector_program(rng, n_eff, n_sel=1, eff_kinds=(0, 0, 1, 2, 3, 4), p_memo=0.4):
    """signals, optionally a memo or two, n_sel selectors (each: two cells, 1-4 key triggers, the selector), then
    memos / effects that call selected(key) besides ordinary reads"""
    prog = []
    for _ in range(rng.randint(1, 3)):
        prog.append([0, rng.choice([0, 0, 1, 1, 2, 3, 4]), rng.choice(SEL_VALUES)])
    sigs = list(range(len(prog)))
    if rng.random() < p_memo:
        prog.append([1, rng.choice([0, 0, 1]), rng.randint(0, 1), gen_expr(rng, sigs, 1, 0.05, sigs)])
    sels = []
    for _ in range(n_sel):
        readable = [j for j, nd in enumerate(prog) if is_plain(nd)]
        r = rng.random()
        if r < 0.55:
            src = [1, rng.choice(readable)]
        elif r < 0.8:
            src = [4, [1, rng.choice(readable)], [0, rng.choice([1, 5, 10])]]
        else:
            src = gen_expr(rng, readable, 1, 0.05, sigs)
        if sels and rng.random() < 0.25:
            e0, ts0 = rng.choice(sels)
            src = [4, src, [8, e0, rng.randrange(len(ts0))]]       # a selector over another selector
        cmp = rng.choice([0, 1, 2, 2, 3])
        v = len(prog)
        prog += [[0, 5, 0], [0, 5, 0]]
        keys = []
        for _ in range(rng.randint(1, 4)):
            k = rng.choice(SEL_VALUES) if rng.random() < 0.8 else rng.randint(0, 35)
            if k not in keys:
                keys.append(k)
        ts = []
        for k in keys:
            ts.append(len(prog))
            prog.append([0, 6, k])
        prog.append([4, cmp, src, v, v + 1, ts])
        sels.append((len(prog) - 1, ts))

    def sel_expr(depth):
        e, ts = rng.choice(sels)
        x = [8, e, rng.randrange(len(ts))]
        if rng.random() < 0.08:
            x = [3, x]
        if depth and rng.random() < 0.5:
            readable = [j for j, nd in enumerate(prog) if is_plain(nd)]
            y = sel_expr(depth - 1) if rng.random() < 0.5 else gen_expr(rng, readable, 1, 0.05, sigs)
            r = rng.random()
            if r < 0.5:
                return [4, x, y] if rng.random() < 0.5 else [4, y, x]
            if r < 0.8:
                return [6, x, y, gen_expr(rng, readable, 0, 0.05, sigs)]
            return [6, y, x, [0, rng.randint(0, 3)]]
        return x

    placed = 0
    while placed < n_eff:
        readable = [j for j, nd in enumerate(prog) if is_plain(nd)]
        if rng.random() < 0.25:
            prog.append([1, rng.choice([0, 0, 1, 2]), rng.randint(0, 1), sel_expr(rng.choice([0, 1]))])
            continue
        kind = rng.choice(eff_kinds)
        body = sel_expr(rng.choice([0, 1, 1, 2])) if rng.random() < 0.85 else gen_expr(rng, readable, 2, 0.05, sigs)
        h = [0, 0]
        if kind in (2, 3):
            h = gen_expr(rng, readable, rng.choice([0, 1]), 0.0, sigs)
        prog.append([3, kind, body, h])
        placed += 1
    return prog


def same_for_subscribers(nd, a, b):
    """do the subscribers of node nd get told about a change from value a to value b?  Equality, except
    for a memo whose comparator is coarser (cmp 2: only a change of parity is a change)"""
    if nd[0] == MEMO and nd[1] == 2:
        return a % 2 == b % 2
    return a == b


# ----------------------------------------------------------------------------- trace walker
class Malformed(Exception):
    pass


class Hooks:
    """override what you need; `w` is the walker (w.sig: current signal values, w.lastlog, w.endval ...)"""
    def start(self, w, i, handler): pass
    def created(self, w, i, k): pass          # instance i of template k has just been created
    def end(self, w, i, v, handler, changed): pass
    def read(self, w, who, j, v, t): pass
    def write(self, w, s, who): pass          # after the value is stored (notify: same, value unchanged)
    def op(self, w, o): pass                  # before the op executes
    def after_op(self, w, o): pass
    def top(self, w, n, v): pass
    def poll(self, w, e): pass
    def idle(self, w): pass


class Walker:
    def __init__(self, prog, ops, trace, hooks):
        # instances of templates are appended to the program as they are created (their id = their index)
        self.prog, self.ops, self.tr, self.hooks = list(prog), ops, trace, hooks
        self.nstatic = len(prog)
        self.cap = {}          # instance -> {template: instance} it sees (captured when it was created)
        self.tpl_of = {}       # instance -> its template
        self.kids = {}         # node / instance -> instances its last run created
        self.okids = {}        # static effect -> instances created under its owner by an operation (10 e k)
        self.born_paused = set()   # ... those created while that owner was paused and not resumed since
        self.envs = []         # environments of the running bodies (innermost last)
        self.pos = 0
        self.sig = {i: nd[2] for i, nd in enumerate(prog) if nd[0] == SIG}
        self.lastlog = {}      # i -> [(j, v, t)] of the last (or the running) body run
        self.endval = {}       # memo -> last computed value
        self.prevval = {}      # memo -> the value before that
        self.runs = {}         # i -> number of body runs started
        self.running = []      # stack of (i, handler?)
        # a selector's internal effect is an effect nobody pauses or disposes
        self.alive = {i: True for i, nd in enumerate(prog) if nd[0] in (EFF, SEL)}
        self.paused = {i: False for i, nd in enumerate(prog) if nd[0] in (EFF, SEL)}
        self.selval = {}       # selector -> value its internal effect stored last
        self.selprev = {}      # ... and the one before
        self.sel_of_key = {t: i for i, nd in enumerate(prog) if nd[0] == SEL for t in nd[5]}
        self.diverged = False
        self.in_notify = 0     # > 0: inside the marking phase of a write (bodies run there only for ImmediateEffects)
        self.notifying = []    # the signals whose subscribers are being marked right now (innermost last)
        self.gone = set()      # disposed signals / memos
        self.epoch = 0         # bumped at every write (memoisation of truth values)

    def peek(self):
        return self.tr[self.pos] if self.pos < len(self.tr) else None

    def take(self, kind):
        e = self.peek()
        if e is None or e[0] != kind:
            raise Malformed("expected event kind %d at %d, found %r" % (kind, self.pos, e))
        self.pos += 1
        return e

    def blocks(self):
        while True:
            e = self.peek()
            if e is not None and e[0] in (1, 5):
                self.block()
            else:
                return

    def block(self):
        e = self.peek()
        handler = e[0] == 5
        self.pos += 1
        i = e[1]
        if not (0 <= i < len(self.prog)) or self.prog[i][0] not in (MEMO, EFF, SEL) or (handler and self.prog[i][0] != EFF):
            raise Malformed("body start of a node that has no body: %r" % (e,))
        nd = self.prog[i]
        if nd[0] == TPL:
            raise Malformed("body start of a template (instances have ids of their own): %r" % (e,))
        body = nd[3] if (nd[0] == MEMO or handler) else nd[2]
        if not handler:
            self.runs[i] = self.runs.get(i, 0) + 1
            self.lastlog[i] = []
            # owner.with_cleanup (effects and memos run under an owner of their own): what the previous run
            # created under it is disposed
            for c in self.kids.get(i, []):
                self.kill(c)
            self.kids[i] = []
        self.hooks.start(self, i, handler)
        self.running.append((i, handler))
        self.envs.append(dict(self.cap.get(i, {})))
        try:
            v = self.exec(body, i, handler)
        finally:
            self.envs.pop()
        self.running.pop()
        e2 = self.take(6 if handler else 3)
        if e2[1] != i:
            raise Malformed("body end of %d while %d runs" % (e2[1], i))
        if e2[2] != v:
            raise Malformed("body %d returned %d but its reads give %d" % (i, e2[2], v))
        changed = None
        if nd[0] == MEMO:
            old = self.endval.get(i)
            changed = True if nd[1] == 1 else (old is None or not same_for_subscribers(nd, old, v))
            self.prevval[i] = old
            self.endval[i] = v
        if nd[0] == SEL:
            self.selprev[i] = self.selval.get(i)
            self.selval[i] = v
            self.epoch += 1
        self.hooks.end(self, i, v, handler, changed)

    def kill(self, c):
        """instance c is disposed with the owner it was created under (and so is what it created)"""
        nd = self.prog[c]
        if nd[0] == EFF:
            self.alive[c] = False
        elif nd[0] == MEMO and nd[2] == 1:
            self.gone.add(c)          # an arena Memo; an ArcMemo lives as long as its handle
            self.epoch += 1
        for d in self.kids.get(c, []) + self.okids.get(c, []):
            self.kill(d)

    def adopt(self, e, k):
        """(10 e k): an instance of effect template k is created under the owner of effect e; a child owner
        inherits the paused flag of its parent"""
        ev = self.take(12)
        i = len(self.prog)
        if ev[1] != i or ev[2] != k:
            raise Malformed("creation event %r does not fit instance %d of template %d" % (ev, i, k))
        self.prog.append(self.prog[k][1])
        self.tpl_of[i] = k
        self.cap[i] = {}
        self.okids.setdefault(e, []).append(i)
        self.alive[i] = True
        self.paused[i] = bool(self.paused.get(e))
        if self.paused[i]:
            self.born_paused.add(i)
        self.hooks.created(self, i, k)

    def resolve(self, j):
        """a template named by the running body: its instance in the body's environment"""
        if 0 <= j < self.nstatic and self.prog[j][0] == TPL:
            env = self.envs[-1] if self.envs else {}
            if j not in env:
                raise Malformed("template %d has no instance in this scope" % j)
            return env[j]
        return j

    def create(self, who, k):
        e = self.take(12)
        i = len(self.prog)
        if e[1] != i or e[2] != k:
            raise Malformed("creation event %r does not fit instance %d of template %d" % (e, i, k))
        nd = self.prog[k][1]
        self.prog.append(nd)
        self.tpl_of[i] = k
        self.cap[i] = dict(self.envs[-1])
        self.envs[-1][k] = i
        self.kids.setdefault(who, []).append(i)
        if nd[0] == EFF:
            self.alive[i] = True
            self.paused[i] = False
        self.hooks.created(self, i, k)
        self.blocks()          # a RenderEffect runs once at creation

    def descendants(self, o):
        """the effects Owner::pause / resume / cleanup on the owner of (static) effect o reach: the static subtree and
        whatever those effects created at run time"""
        out = []
        def down(c):
            out.append(c)
            for d in self.kids.get(c, []) + self.okids.get(c, []):
                if self.prog[d][0] == EFF:
                    down(d)
        for d in subtree(self.prog[:self.nstatic], o):
            down(d)
        return out

    def exec(self, e, who, untr):
        k = e[0]
        if k == 0:
            return e[1]
        if k == 9:
            self.create(who, e[1])
            return 0
        if k in (10, 11):
            return 0
        if k == 1:
            return self.read(who, self.resolve(e[1]), True, untr)
        if k == 2:
            return self.read(who, self.resolve(e[1]), False, untr)
        if k == 3:
            return self.exec(e[1], who, True)
        if k == 4:
            x = self.exec(e[1], who, untr)
            y = self.exec(e[2], who, untr)
            return x + y
        if k == 5:
            x = self.exec(e[1], who, untr)
            y = self.exec(e[2], who, untr)
            return 1 if x < y else 0
        if k == 6:
            return self.exec(e[2], who, untr) if self.exec(e[1], who, untr) != 0 else self.exec(e[3], who, untr)
        if k == 7:
            v = self.exec(e[2], who, untr)
            self.do_write(e[1], v, who)
            return v
        if k == 8:
            return self.read_sel(who, e[1], e[2], untr)
        raise Malformed("bad expression")

    def selected_now(self, t):
        """what selected(key of trigger t) returns: f(key, the value the selector holds)"""
        sel = self.sel_of_key[t]
        if sel not in self.selval:
            raise Malformed("selected() before the selector %d has a value" % sel)
        return sel_fn(self.prog[sel][1], self.prog[t][2], self.selval[sel])

    def read_sel(self, who, sel, j, untr):
        t = self.prog[sel][5][j]
        tr = 1 if (not untr and who >= 0) else 0
        e = self.take(2)
        if e[1] != who or e[2] != t or e[3] != 0 or e[4] != tr:
            raise Malformed("read event %r does not fit selected() on trigger %d by %d (tracked=%d)" % (e, t, who, tr))
        r = self.selected_now(t)
        if who >= 0 and self.running and not self.running[-1][1] and self.running[-1][0] == who:
            self.lastlog[who].append((t, r, tr))
        self.hooks.read(self, who, t, r, tr)
        return r

    def do_write(self, s, v, who):
        if v is not None:
            self.sig[s] = v
        self.epoch += 1
        self.hooks.write(self, s, who)
        self.in_notify += 1
        self.notifying.append(s)
        try:
            self.blocks()      # synchronous subscribers (ImmediateEffect) run inside the write
        finally:
            self.in_notify -= 1
            self.notifying.pop()

    def read(self, who, j, m, untr):
        nd = self.prog[j]
        t = 1 if (m and not untr and who >= 0) else 0
        if j in self.gone:
            v = 0              # try_get on a disposed handle: None, nothing tracked, nothing recomputed
        elif nd[0] == DER:
            v = self.exec(nd[2], who, untr or not m)
        else:
            if nd[0] == MEMO:
                self.blocks()
            v = None
        e = self.take(2)
        if e[1] != who or e[2] != j or e[4] != t or (v is not None and e[3] != v):
            raise Malformed("read event %r does not fit the read of %d by %d (tracked=%d, value %r)" % (e, j, who, t, v))
        v = e[3]
        if who >= 0 and self.running and not self.running[-1][1] and self.running[-1][0] == who:
            self.lastlog[who].append((j, v, t))
        self.hooks.read(self, who, j, v, t)
        return v

    def run(self):
        self.blocks()                     # RenderEffect / ImmediateEffect first runs at creation
        for o in self.ops:
            if self.diverged:
                break
            self.take(11)
            self.hooks.op(self, o)
            k = o[0]
            if k == 0:
                self.do_write(o[1], o[2], -1)
            elif k == 1:
                self.do_write(o[1], None, -1)
            elif k == 2:
                v = self.read(-1, o[1], True, False)
                e = self.take(0)
                if e[1] != o[1] or e[2] != v:
                    raise Malformed("top-level read event %r" % (e,))
                self.hooks.top(self, o[1], v)
            elif k == 3:
                e = self.take(8)
                self.hooks.poll(self, e[1])
                self.blocks()
            elif k == 4:
                while self.peek() is not None and self.peek()[0] == 8:
                    e = self.take(8)
                    self.hooks.poll(self, e[1])
                    self.blocks()
                e = self.peek()
                if e is not None and e[0] == 9:
                    self.pos += 1
                    self.diverged = True
                else:
                    self.take(7)
                    self.hooks.idle(self)
            elif k == 5:
                for d in self.descendants(o[1]):
                    self.paused[d] = True
            elif k == 6:
                for d in self.descendants(o[1]):
                    self.paused[d] = False
                    self.born_paused.discard(d)
            elif k == 7:
                for d in subtree(self.prog[:self.nstatic], o[1]):
                    self.kill(d)
                self.blocks()
            elif k == 8:
                self.gone.add(o[1])
                self.epoch += 1
            elif k == 9:
                pass                      # not a write: nothing happens
            elif k == 10:
                self.adopt(o[1], o[2])
            elif k == 12:
                self.do_write(o[3], o[4], -1)
                v = self.read(-1, o[2], True, False)
                e = self.take(0)
                if e[1] != o[2] or e[2] != v:
                    raise Malformed("cross-thread read event %r" % (e,))
                self.hooks.top(self, o[2], v)
            self.hooks.after_op(self, o)
        if self.pos != len(self.tr):
            raise Malformed("trailing events from %d: %r" % (self.pos, self.tr[self.pos:self.pos + 3]))


# ----------------------------------------------------------------------------- from-scratch values
class Truth:
    """value node j has by the property text: recompute its function from the CURRENT values of what
    it tracks; a read made through untrack / get_untracked contributes the value logged by the
    node's last run (same position in the read sequence).  None = not determined by the text
    (the recomputation would need an untracked value the last run did not read)."""

    def __init__(self, w):
        self.w = w
        self.memo = {}
        self.epoch = -1

    def of(self, j):
        w = self.w
        if self.epoch != (w.epoch, w.pos):
            self.memo = {}
            self.epoch = (w.epoch, w.pos)
        if j in self.memo:
            return self.memo[j]
        nd = w.prog[j]
        if j in w.gone:
            v = 0
        elif is_key(nd):
            # the selector's value is state (written by its internal effect); whether that effect has
            # caught up with its source is checked on the effect itself
            v = w.selected_now(j) if w.sel_of_key.get(j) in w.selval else None
        elif nd[0] == SIG:
            v = w.sig[j]
        elif nd[0] == MEMO:
            log = list(w.lastlog.get(j, []))
            # is every tracked entry of the last run still current, as far as its source tells its
            # subscribers?  Then nothing obliges j to run again and its value is the one of that run
            # (a source memo with a coarse comparator may have moved inside one class)
            fresh = bool(w.runs.get(j))
            for (x, vx, t) in log:
                if t and w.prog[x][0] != DER and not (x in w.gone):
                    cx = self.of(x)
                    if cx is None or not same_for_subscribers(w.prog[x], cx, vx):
                        fresh = False
                        break
            if fresh and j in w.endval:
                # nothing obliges j to run again: its value is the one of its last run (re-evaluating the body
                # over the log gives the same; a body that creates nodes cannot be replayed over its old log)
                v = w.endval[j]
            else:
                st = {"log": log, "p": 0, "ok": True, "fresh": fresh, "env": dict(w.cap.get(j, {}))}
                v = self.ev(nd[3], False, st)
                if not st["ok"]:
                    v = None
        else:
            raise Malformed("truth of a derived signal is evaluated inline")
        self.memo[j] = v
        return v

    def fresh_value(self, k, env):
        """the value of a memo the body under evaluation creates: its function over current values"""
        nd = self.w.prog[k][1]
        if nd[0] != MEMO:
            return None
        st = {"log": [], "p": 0, "ok": True, "fresh": False, "sync": False, "env": dict(env)}
        v = self.ev(nd[3], False, st)
        return v if st["ok"] else None

    def ev(self, e, untr, st):
        k = e[0]
        if k == 0:
            return e[1]
        if k in (10, 11):
            return 0
        if k == 9:
            if st is not None:
                st.setdefault("env", {})[e[1]] = ("fresh", dict(st.get("env", {})))
                st["sync"] = False     # the recomputation creates new nodes: the old log names the old ones
            return 0
        if k in (1, 2):
            j = e[1]
            if 0 <= j < self.w.nstatic and self.w.prog[j][0] == TPL:
                tgt = (st or {}).get("env", {}).get(j)
                if tgt is None:
                    return None
                if isinstance(tgt, tuple):
                    return self.fresh_value(j, tgt[1])
                j = tgt
            return self.rd(j, k == 1, untr, st)
        if k == 3:
            return self.ev(e[1], True, st)
        if k in (4, 5):
            x = self.ev(e[1], untr, st)
            y = self.ev(e[2], untr, st)
            if x is None or y is None:
                return None
            return x + y if k == 4 else (1 if x < y else 0)
        if k == 6:
            c = self.ev(e[1], untr, st)
            if c is None:
                return None
            return self.ev(e[2], untr, st) if c != 0 else self.ev(e[3], untr, st)
        if k == 7:
            return self.ev(e[2], untr, st)
        if k == 8:
            return self.rd(self.w.prog[e[1]][5][e[2]], True, untr, st)
        return None

    def rd(self, j, m, untr, st):
        nd = self.w.prog[j]
        tracked = m and not untr
        if nd[0] == DER:
            v = self.ev(nd[2], untr or not m, st)
            ent = self.next(st, j, tracked)
            return v
        ent = self.next(st, j, tracked)
        if j in self.w.gone:
            # disposing is not a change: a computation that need not run again keeps what its last
            # run saw; one that runs again reads 0
            if ent is not None and (not tracked or (st is not None and st.get("fresh"))):
                return ent[1]
            return 0
        if tracked:
            cur = self.of(j)
            if (st is not None and st.get("fresh") and ent is not None and nd[0] == MEMO and nd[1] == 2
                    and cur is not None and same_for_subscribers(nd, cur, ent[1])):
                return ent[1]      # the last run's value of a coarse memo that reported no change since
            return cur
        # untracked: the value the last run saw at this position
        if ent is None:
            st["ok"] = False
            return None
        return ent[1]

    def next(self, st, j, tracked):
        """log entry of the last run at this position, if the read sequence still matches"""
        if st is None:
            return None
        p = st["p"]
        if st.get("sync", True) and p < len(st["log"]) and st["log"][p][0] == j and bool(st["log"][p][2]) == bool(tracked):
            st["p"] = p + 1
            return st["log"][p]
        st["sync"] = False
        return None

    def derived_now(self, d):
        """a derived signal read outside any body: pure function of current values, untracked parts
        read the current values too (there is no last run)"""
        return self.ev_now(self.w.prog[d][2])

    def ev_now(self, e):
        k = e[0]
        if k == 0:
            return e[1]
        if k in (10, 11):
            return 0
        if k in (1, 2):
            nd = self.w.prog[e[1]]
            if nd[0] == DER:
                return self.ev_now(nd[2])
            return self.of(e[1])
        if k == 3:
            return self.ev_now(e[1])
        if k in (4, 5):
            x, y = self.ev_now(e[1]), self.ev_now(e[2])
            if x is None or y is None:
                return None
            return x + y if k == 4 else (1 if x < y else 0)
        if k == 6:
            c = self.ev_now(e[1])
            if c is None:
                return None
            return self.ev_now(e[2]) if c != 0 else self.ev_now(e[3])
        if k == 7:
            return self.ev_now(e[2])
        if k == 8:
            return self.of(self.w.prog[e[1]][5][e[2]])
        return None


# ----------------------------------------------------------------------------- oracle C01
class C01Hooks(Hooks):
    """every read of a memo / derived signal / signal returns its from-scratch value"""

    def __init__(self, only_effect_reads=False):
        self.fail = None
        self.truth = None
        self.only_eff = only_effect_reads
        self.checked = 0
        self.cause = {}        # i -> since its last run started, something it tracked was written / changed
        self.had_cause = {}

    # "a read made through untrack contributes the value it had when the computation last ran": as long as
    # nothing a memo TRACKS has been written (or recomputed to a different value), its value must stay what it
    # was, whatever happened to the values it read through untrack / get_untracked
    def start(self, w, i, handler):
        if handler:
            return
        self.had_cause[i] = self.cause.get(i, False)
        self.cause[i] = False

    def mark(self, w, j):
        for i in list(w.lastlog.keys()):
            if any(t and a == j for (a, _, t) in w.lastlog[i]):
                self.cause[i] = True

    def write(self, w, s, who):
        self.mark(w, s)

    def after_op(self, w, o):
        if o[0] == 8:
            # disposal is not a change, but a computation that runs again reads 0 for the disposed node
            self.mark(w, o[1])

    def end(self, w, i, v, handler, changed):
        nd = w.prog[i]
        if handler:
            return
        if nd[0] == SEL:
            for t in nd[5]:
                self.mark(w, t)
            return
        if nd[0] != MEMO:
            return
        old = w.prevval.get(i)
        if (not self.only_eff and not self.fail and w.runs.get(i, 0) > 1 and not self.had_cause.get(i)
                and old is not None and old != v and not self.in_immediate(w)):
            self.fail = ("memo %d went from %d to %d although nothing it tracks was written or recomputed to a different "
                         "value since its previous run: a value read through untrack / get_untracked must contribute what "
                         "it was when the computation last ran" % (i, old, v))
        if changed:
            self.mark(w, i)
        if self.in_immediate(w):
            # pulled in the middle of the marking phase of a write: it may have seen a mixture, and the marks of
            # that same write may still reach it afterwards; the run they cause has its cause in that write
            self.cause[i] = True

    @staticmethod
    def in_immediate(w):
        """inside the marking phase of a write, or inside an ImmediateEffect: an ImmediateEffect reacts in the
        middle of the marking phase (its source check pulls memos while later subscribers of the written signal
        are not marked yet) and sees not-yet-marked memos by design; so does whatever it pulls.  Everything is
        checked again by the reads made after the write has returned."""
        return w.in_notify > 0 or any(w.prog[i][0] == EFF and w.prog[i][1] == 5 for (i, _) in w.running)

    def read(self, w, who, j, v, t):
        if self.fail:
            return
        if self.truth is None:
            self.truth = Truth(w)
        nd = w.prog[j]
        if self.only_eff and not (who >= 0 and w.prog[who][0] == EFF):
            return
        if not self.only_eff and self.in_immediate(w):
            return
        if nd[0] == DER or is_key(nd):
            return            # its value is the replay of the reads just made, each checked separately
                              # (selected(): a function of the selector's state, see Truth.of)
        want = self.truth.of(j)
        if want is None:
            return
        self.checked += 1
        if want != v:
            what = {SIG: "signal", MEMO: "memo"}[nd[0]]
            self.fail = ("read of %s %d by %s returned %d, recomputing it from the current values gives %d"
                         % (what, j, "body %d" % who if who >= 0 else "the top level", v, want))


# ----------------------------------------------------------------------------- oracle C09
class C09Hooks(Hooks):
    """a body runs again only if, since its previous run, a signal it tracked was written / notified
    or a memo it tracked recomputed to a changed value"""

    def __init__(self):
        self.fail = None
        self.cause = {}
        self.nruns = 0

    def tracked_set(self, w, i):
        return {j for (j, _, t) in w.lastlog.get(i, []) if t}

    def start(self, w, i, handler):
        if handler or self.fail:
            return
        self.nruns += 1
        if (w.prog[i][0] == EFF and w.prog[i][1] == 5) or C01Hooks.in_immediate(w):
            # ImmediateEffect (immediate.rs, outside the anchors) reacts in the middle of the marking phase of a write
            # and re-enters by design ("they might recurse"): its own invocations, and what it pulls while the
            # marking is still under way, are not held to "once per change"; the runs started by reads made after
            # the write has returned are
            self.cause[i] = False
            return
        if w.runs.get(i, 0) > 1 and not self.cause.get(i):
            what = "memo" if w.prog[i][0] == MEMO else "effect"
            self.fail = ("%s %d ran again (run %d) although nothing it tracked in its previous run was "
                         "written or recomputed to a different value" % (what, i, w.runs[i]))
        self.cause[i] = False

    def mark(self, w, j):
        for i in list(w.lastlog.keys()):
            if any(t and a == j for (a, _, t) in w.lastlog[i]):
                self.cause[i] = True

    def write(self, w, s, who):
        self.mark(w, s)

    def end(self, w, i, v, handler, changed):
        if not handler and w.prog[i][0] == MEMO and changed:
            self.mark(w, i)
        if not handler and C01Hooks.in_immediate(w):
            # pulled by an ImmediateEffect in the middle of the marking phase of a write: it has seen new values
            # already, and the marks of that same write may still reach it afterwards (directly, or through a memo
            # that is marked later and then reports a change): its next run is not held to "once per change" either
            self.cause[i] = True


# ----------------------------------------------------------------------------- oracle C02
class C02Hooks(Hooks):
    """idle consistency, no run when disposed / paused, wake order of direct subscribers"""

    def __init__(self):
        self.fail = None
        self.truth = None
        self.c01 = C01Hooks(only_effect_reads=True)
        self.paused_since_run = {}
        self.hit_after_resume = {}
        self.sub_time = {}       # (effect, signal) -> time of the first tracked read in the last run
        self.clock = 0
        self.prev_idle = False   # the executor was idle and nothing but reads happened since
        self.expect_order = None
        self.polled = []
        self.idles = 0
        self.stale_exempt = 0
        self.known = None        # id of the known finding the failure belongs to

    def logged_cone(self, w, i, seen=None):
        if seen is None:
            seen = set()
        for (j, _, t) in w.lastlog.get(i, []):
            if t and j not in seen and j not in w.gone:      # a disposed source forwards nothing
                seen.add(j)
                if w.prog[j][0] == MEMO:
                    self.logged_cone(w, j, seen)
        return seen

    def created(self, w, i, k):
        if w.prog[i][0] == EFF and w.paused.get(i):
            # created under a paused owner: its first notification may be consumed during the pause
            self.paused_since_run[i] = True

    def start(self, w, i, handler):
        self.c01.start(w, i, handler)
        if w.prog[i][0] != EFF or self.fail:
            return
        if not w.alive[i]:
            self.fail = "effect %d ran after it was disposed" % i
        elif w.paused[i]:
            self.fail = "effect %d ran while its owner was paused" % i
            if i in w.born_paused:
                # F-C02-g: Owner::new() (the owner every effect makes for itself) starts out unpaused even when it is
                # created under a paused owner (Owner::child() copies the flag)
                self.fail += " (it was created under the paused owner and has not been resumed since)"
                self.known = "F-C02-g"
        if not handler:
            self.paused_since_run[i] = False
            for key in [k for k in self.sub_time if k[0] == i]:
                del self.sub_time[key]

    def read(self, w, who, j, v, t):
        self.clock += 1
        # ImmediateEffect is not among the effect kinds of the property: it runs in the middle of the
        # marking phase and sees not-yet-marked memos by design; only its convergence at idle is checked
        if not (who >= 0 and w.prog[who][0] == EFF and w.prog[who][1] == 5):
            self.c01.read(w, who, j, v, t)
        if self.c01.fail and not self.fail:
            self.fail = "glitch: " + self.c01.fail
        if who >= 0 and w.prog[who][0] == EFF and t and w.prog[j][0] == SIG and (who, j) not in self.sub_time:
            self.sub_time[(who, j)] = self.clock

    def write(self, w, s, who):
        for e in w.alive:
            if s in self.logged_cone(w, e):
                self.hit_after_resume[e] = True

    def end(self, w, i, v, handler, changed):
        # a selector's internal effect has stored a new value: by the selector's contract the
        # subscribers of key k are told iff f(k, .) differs between the previous and the new value
        if w.prog[i][0] != SEL:
            return
        prev = w.selprev.get(i)
        if prev is None:
            return
        flipped = {t for t in w.prog[i][5] if sel_fn(w.prog[i][1], w.prog[t][2], prev) != sel_fn(w.prog[i][1], w.prog[t][2], v)}
        if flipped:
            for e in w.alive:
                if flipped & self.logged_cone(w, e):
                    self.hit_after_resume[e] = True

    def op(self, w, o):
        k = o[0]
        if k == 5:
            for d in w.descendants(o[1]):
                if w.alive.get(d):
                    self.paused_since_run[d] = True
        if k == 6:
            for d in w.descendants(o[1]):
                if w.paused.get(d):
                    self.hit_after_resume[d] = False
        # wake order: idle, then one top-level write, then run-to-idle
        self.expect_order = None
        if k == 0 or k == 1:
            if self.prev_idle:
                s = o[1]
                direct = [e for e in w.alive if w.alive[e] and not w.paused[e] and w.prog[e][1] != 5 and (e, s) in self.sub_time]
                pure = all(all(w.prog[j][0] == SIG for (j, _, t) in w.lastlog.get(e, []) if t) for e in w.alive if w.alive[e])
                if pure and len(direct) >= 2:
                    self.pending_order = sorted(direct, key=lambda e: self.sub_time[(e, s)])
                else:
                    self.pending_order = None
            else:
                self.pending_order = None
            self.prev_idle = False
        elif k == 4:
            self.expect_order = getattr(self, "pending_order", None)
            self.pending_order = None
            self.polled = []
        elif k == 2:
            pass
        else:
            self.prev_idle = False
            self.pending_order = None

    def poll(self, w, e):
        self.polled.append(e)

    def idle(self, w):
        self.idles += 1
        if self.truth is None:
            self.truth = Truth(w)
        if self.expect_order and not self.fail:
            got = [e for e in self.polled if e in self.expect_order]
            first = []
            for e in got:
                if e not in first:
                    first.append(e)
            if first != self.expect_order:
                self.fail = ("effects %r read the written signal directly and subscribed in this order, but were "
                             "woken in order %r" % (self.expect_order, first))
        self.prev_idle = True
        if self.fail:
            return
        for e in sorted(w.alive):
            if not w.alive[e] or w.paused[e] or w.prog[e][1] == 5 and False:
                continue
            if w.runs.get(e, 0) == 0:
                if not self.paused_since_run.get(e):
                    self.fail = "effect %d has never run although the executor is idle" % e
                    return
                continue
            stale = None
            for (j, v, t) in w.lastlog.get(e, []):
                if not t or w.prog[j][0] == DER or j in w.gone:
                    continue
                want = self.truth.of(j)
                if want is not None and not same_for_subscribers(w.prog[j], want, v):
                    stale = (j, v, want)
                    break
            if stale:
                if self.paused_since_run.get(e) and not self.hit_after_resume.get(e):
                    self.stale_exempt += 1
                    continue       # changes made during the pause are not replayed
                self.fail = ("executor idle, but effect %d last ran with node %d = %d whose current value is %d "
                             "(lost change)" % ((e,) + stale))
                return


class NarrowD(Hooks):
    """does the run contain the failing shape of F-C02-d?  An effect (or watch dependency fn) reads memo j with
    tracking, then writes a signal j depends on, then j is pulled AGAIN inside the same run (by the effect itself or
    by a memo it pulls)."""

    def __init__(self):
        self.fail = None
        self.hit = False
        self.st = {}          # effect -> {"reads": memos read in the running run, "armed": those written under}

    def start(self, w, i, handler):
        if w.prog[i][0] == EFF and not handler:
            self.st[i] = {"reads": set(), "armed": set()}

    def enclosing(self, w):
        for (i, h) in reversed(w.running):
            if w.prog[i][0] == EFF:
                return i
        return None

    def read(self, w, who, j, v, t):
        e = self.enclosing(w)
        if e is None or e not in self.st or w.prog[j][0] != MEMO:
            return
        st = self.st[e]
        if j in st["armed"]:
            self.hit = True
        if who == e and t:
            st["reads"].add(j)

    def write(self, w, s, who):
        e = self.enclosing(w)
        if e is None or e not in self.st:
            return
        st = self.st[e]
        memo = {}
        for j in st["reads"]:
            if s in cone(w.prog[:w.nstatic], j, memo) if j < w.nstatic else False:
                st["armed"].add(j)


def run_oracle(item, impl, hooks):
    """walk the implementation's trace with the given hooks; returns a failure message or None"""
    if isinstance(impl, str):
        if impl.startswith("!hang"):
            return "the case did not return (deadlock or livelock)"
        return "harness reported " + impl
    if len(item["case"][0]) > 100:
        # deep chains: the walker and the from-scratch evaluator recurse once per level
        import sys, threading
        box = []
        old = sys.getrecursionlimit()
        sys.setrecursionlimit(max(old, 40 * len(item["case"][0]) + 1000))
        threading.stack_size(512 << 20)
        try:
            th = threading.Thread(target=lambda: box.append(_run_oracle(item, impl, hooks)))
            th.start()
            th.join()
        finally:
            threading.stack_size(0)
            sys.setrecursionlimit(old)
        return box[0] if box else "oracle crashed: the walker thread died"
    return _run_oracle(item, impl, hooks)


def _run_oracle(item, impl, hooks):
    prog, ops = item["case"][0], item["case"][1]
    w = Walker(prog, ops, impl, hooks)
    try:
        w.run()
    except Malformed as ex:
        return "trace does not parse as a run of the program: %s" % ex
    except (IndexError, KeyError, TypeError) as ex:
        return "trace does not parse as a run of the program: %r" % (ex,)
    if any(e and e[0] == 10 for e in impl):
        return "model error event in the implementation trace"
    return hooks.fail


# ----------------------------------------------------------------------------- rendering
def show_expr(e):
    k = e[0]
    if k == 0:
        return str(e[1])
    if k == 1:
        return "n%d" % e[1]
    if k == 2:
        return "n%d.untracked" % e[1]
    if k == 3:
        return "untrack(%s)" % show_expr(e[1])
    if k == 4:
        return "(%s + %s)" % (show_expr(e[1]), show_expr(e[2]))
    if k == 5:
        return "(%s < %s)" % (show_expr(e[1]), show_expr(e[2]))
    if k == 6:
        return "(if %s then %s else %s)" % (show_expr(e[1]), show_expr(e[2]), show_expr(e[3]))
    if k == 7:
        return "set(n%d, %s)" % (e[1], show_expr(e[2]))
    if k == 8:
        return "n%d.selected(key#%d)" % (e[1], e[2])
    if k == 9:
        return "create(n%d)" % e[1]
    if k == 10:
        return "on_cleanup(|| n%d.get())" % e[1]
    if k == 11:
        return "keep(Owner::current())"
    return "?"


RV_NAMES = ["get", "with", "read", "track+get_untracked", "try_get"]
WV_NAMES = ["set", "update", "maybe_update(true)", "write() guard", "try_set", "try_update", "SignalSetter", "update_untracked+notify",
            "mapped view", "write_untracked+notify"]


def show_var(nd):
    v = var_of(nd)
    if not v:
        return ""
    if nd[0] == EFF:
        return " [constructor variant %d]" % v
    rv, cv = v % 8, v // 8
    bits = []
    if rv:
        bits.append("read by " + RV_NAMES[rv % 5])
    if cv and nd[0] == SIG:
        bits.append("written by " + WV_NAMES[cv % 10])
    elif cv and nd[0] == MEMO:
        bits.append(["", "new_owning", "converted handle"][cv % 3])
    elif cv:
        bits.append("constructor variant %d" % cv)
    return " [" + ", ".join(bits) + "]"


def describe(item):
    try:
        prog, ops = item["case"][0], item["case"][1]
        flags = item["case"][2] if len(item["case"]) > 2 else 0
        out = []
        sf = ["ArcRwSignal", "signal()", "RwSignal", "ArcTrigger cell", "arc_signal()"]
        ek = ["Effect::new", "RenderEffect", "watch", "watch(immediate)", "Effect::new_isomorphic", "ImmediateEffect", "to_stream of"]
        for i, nd in enumerate(prog):
            if nd[0] == TPL:
                d = nd[1]
                if d[0] == MEMO:
                    out.append("n%d = template %s%s(%s)%s" % (i, ["ArcMemo", "Memo"][d[2] % 2],
                                                              ["", "[always changed]", "[changed iff parity differs]"][d[1] % 3], show_expr(d[3]), show_var(d)))
                else:
                    h = "" if d[1] not in (2, 3) else " handler %s" % show_expr(d[3])
                    out.append("n%d = template %s(%s)%s%s" % (i, ek[d[1] % 7], show_expr(d[2]), h, show_var(d)))
            elif is_cell(nd):
                out.append("n%d = <selector cell>" % i)
            elif is_key(nd):
                out.append("n%d = <selector key %d>" % (i, nd[2]))
            elif nd[0] == SEL:
                cn = ["Selector::new", "Selector::new_with_fn[==]", "Selector::new_with_fn[same bucket of ten]",
                      "Selector::new_with_fn[value >= key]"]
                out.append("n%d = %s(%s) keys %s" % (i, cn[nd[1] % 4], show_expr(nd[2]), [prog[t][2] for t in nd[5]]))
            elif nd[0] == SIG:
                out.append("n%d = %s(%d)%s" % (i, sf[nd[1] % 5], nd[2], show_var(nd)))
            elif nd[0] == MEMO:
                out.append("n%d = %s%s(%s)%s" % (i, ["ArcMemo", "Memo"][nd[2] % 2],
                                                 ["", "[always changed]", "[changed iff parity differs]"][nd[1] % 3], show_expr(nd[3]), show_var(nd)))
            elif nd[0] == DER:
                wn = ["closure", "Signal::derive", "ArcSignal::derive", "Signal::from", "ArcSignal::from", "MappedSignal", "MaybeSignal::from",
                      "MaybeProp::from", "Signal<Option>::from", "Signal::from(MaybeSignal)"]
                out.append("n%d = %s(%s)%s" % (i, wn[nd[1]] if 0 <= nd[1] < len(wn) else "derived", show_expr(nd[2]), show_var(nd)))
            else:
                h = "" if nd[1] not in (2, 3) else " handler %s" % show_expr(nd[3])
                own = "" if parent_of(nd) is None else " [owner under n%d's]" % nd[4]
                out.append("n%d = %s(%s)%s%s%s" % (i, ek[nd[1] % 7], show_expr(nd[2]), h, own, show_var(nd)))
        on = ["set", "notify", "read", "poll#", "run-to-idle", "pause", "resume", "dispose", "dispose-source", "not-a-write", "create-under-owner-of", "?", "read-on-another-thread-while-a-guard-is-held"]
        os_ = []
        for o in ops:
            os_.append(on[o[0]] + ("(" + ",".join(str(x) for x in o[1:]) + ")" if len(o) > 1 else ""))
        fl = "" if not flags else "  ||  flags: " + ", ".join(x for b, x in ((1, "new waker on every poll"), (2, "untrack_with_diagnostics"), (4, "spurious polls of tasks that are not ready")) if flags & b)
        return "; ".join(out) + "  ||  " + " ".join(os_) + fl
    except Exception:
        return None
