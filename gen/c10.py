"""C10 — async derived values and resources settle on the latest inputs."""
from . import common as C

PID = "C10"
PROPS_V = "theories/Props/Properties_C10.v"
MODEL_NAME = "Reactive/Async.v"
HARNESS = "rx2"
HARNESS_ARGS = ["c10"]
ALLOWED_AXIOMS = []
RUN_IMPORT = "Reactive.AsyncRun"
READY = True

RULE = ("cases drawn from one PRNG (VERIF_SEED): one async node of a random source shape (0: fetcher reads two signals; 1: two "
        "memos; 2: memo m3 then memo m2 with m3 depending on m2; 3: resource-like, a hand-tracked memo over (refetch counter, "
        "source) with or without an initial value; 4: leptos_server ArcResource::new / Resource::new; 5: leptos_server "
        "ArcOnceResource::new / OnceResource::new), as ArcAsyncDerived, arena AsyncDerived, new_unsync with a tracked refetch "
        "counter (what LocalResource::new builds) or the real leptos_server ArcLocalResource::new / LocalResource::new (shape 0), "
        "shape 4 / 5 through every Resource / OnceResource constructor (new, new_blocking, new_str, new_str_blocking, "
        "new_with_options, From conversions) and, from wrap 2 on, through the wrapper's own Track / ReadUntracked / "
        "IntoFuture / by_ref / map / refetch instead of its Deref target, "
        "with no dependent / an Effect "
        "reading it / an Effect reading it and a memo; followed by a history of signal writes (values 0..5 so that memo values "
        "sometimes stay and sometimes change), refetches, manual set(Some v), notify (only after a manual set), completion of "
        "any created fetch future in any order, polls of the node's task and of the dependent's task in any order, "
        "run-until-idle with a pick order, creation of awaiters (inside or outside an owner providing a SuspenseContext) and hand "
        "polls of them at arbitrary points, each poll with a fresh waker (only the latest one must be invoked); the "
        "boundary's pending-task count is observed after every event. At the end every "
        "future is completed, the executor runs until idle and every awaiter is polled. A case is non-trivial when at least "
        "two fetch futures are created and at least one tracked write happens while a fetch is in flight or a task is ready; "
        "distinct = distinct case hash. 15 % of the cases are transition programs (shape 6): one task awaits "
        "AsyncTransition::run(action), the action being a random tree (depth <= 3) of items that create an ArcAsyncDerived / "
        "AsyncDerived / ArcResource / Resource or await a nested AsyncTransition::run, followed by a history of future "
        "completions, task polls and run-until-idle in any order; observed: every node's value and loading flag, and for each "
        "run what the values created inside its action looked like when the code after run(..).await resumed; non-trivial "
        "when an action creates a value after a nested run has returned.")
TRUSTED = [
    "transitions (Reactive/Transition.v): modelled, not verified: std::sync::mpsc as the list of registered ready channels, "
    "futures::future::join_all (every pending receiver polled at each poll, so any of them wakes the task), the node side "
    "reduced to 'the task stores the value and fires the ready channel at the first poll after its future completed'",
    "Coq 8.16.1 kernel (coqc); no axioms",
    "extraction to OCaml with ExtrOcamlBasic only, ocamlfind ocamlopt 4.13.1, extract/driver.ml sexp I/O",
    "harness/rx2 (Rust): src/exec.rs executor (tasks polled only on request), src/c10.rs building the node through "
    "ArcAsyncDerived::new / AsyncDerived::new / ArcAsyncDerived::new_with_manual_dependencies (exactly as "
    "leptos_server::ArcResource::new_with_options does), fetch futures = oneshot receivers, awaiters = IntoFuture polled by "
    "hand with counting wakers; the loading flag is read through ready()",
    "modelled, not verified: memos (ArcMemo) are assumed to behave to their specification — cached value refreshed when "
    "pulled, subscribers other than the current observer marked when the value changes (that is C01/C09's subject); "
    "channel.rs flag + AtomicWaker; async_lock::RwLock (uncontended in atomic polls); Effect's task loop for the dependent",
    "leptos_server: ArcResource / Resource and ArcOnceResource / OnceResource are driven through their real constructors, "
    "refetch(), IntoFuture, ready() and reads; ArcLocalResource / LocalResource through their real constructors, refetch(), "
    "IntoFuture (also under an owner providing a LocalResourceNotifier: it must fire iff the resource was awaited there) and "
    "reads, the loading flag being observed through a throw-away await; the Executor::tick() task every load of a local "
    "resource first awaits is run by the harness at once and the node's task polled again, so a load starts within one "
    "history poll as for every other node (schedules that interleave other events between a load's first poll and its "
    "tick are not explored); serialization / hydration is out of scope",
]
ASSUMPTIONS = [
    "paused dependents: in a tenth of the cases the dependents (an effect; dep = 3: also a nested ArcAsyncDerived that reads the "
    "node) live under an owner that the history pauses and resumes (events 10 / 11), with a load published during the pause and "
    "another one after it; the oracle demands that once the pause is lifted every later publication reaches every dependent "
    "(what was published during the pause is not replayed, and a dependent that is still paused at the end may be stale). "
    "Owner::pause is not in the Coq model (Async.v's dependent has no paused flag): these cases are judged by the Python "
    "oracle alone (compared, not proved)",
    "the _with_initial constructors (value present at once, the first load still runs) are not in the Coq model: 12 % of the "
    "shape 0 / 1 cases use them and are judged by the Python oracle alone (compared, not proved)",
    "awaits through by_ref() are generated outside the Suspense boundary only (that future does not register a boundary)",
    "transitions: one task awaits one outermost AsyncTransition::run; nested runs are awaited inside the enclosing action "
    "(properly nested); two transitions running concurrently in different tasks share the one global slot and are not "
    "generated; reloads started by a task poll while a transition is installed are not generated",
    "single-threaded executor, atomic polls (the cross-thread windows belong to C19)",
    "the fetcher is a pure function of the inputs it reads when the future is created; futures do not read signals after an await",
    "manual writes store Some(v); a write guard that leaves None while a load is pending, or notify() before any value "
    "exists, makes a pending awaiter panic at `unwrap()` in AsyncDerivedFuture::poll — not generated, reported as an observation",
    "an initial (hydrated) value equals the fetcher applied to the initial inputs",
    "Owner::paused() is false for the node itself (its own task loop); for the dependents see above",
    "Suspense: awaits (AsyncDerivedFuture / OnceResourceFuture polls) under the boundary are modelled; synchronous reads under "
    "the boundary (which take a task of the boundary and spawn a helper task that returns it once the node is ready) are "
    "generated in a tenth of the cases, which are not compared with the Coq model (it has no such event) but judged by the "
    "Python oracle alone, the helper tasks running as soon as they are ready",
]

N_QUICK = 5000
N_THOROUGH = 60000


def fetch(a, b):
    return a * 1000 + b


def inputs(shape, sig):
    if shape == 5:
        return (7, 7)
    if shape == 4:
        shape = 3
    if shape == 0:
        return (sig[0], sig[1])
    if shape == 1:
        return (sig[0] // 2, sig[1])
    if shape == 2:
        m2 = sig[0] * 10
        return (1 if m2 > 25 else 0, m2)
    return (sig[0] // 2, 0)


def gen_case(rng):
    shape = rng.choice([0, 0, 1, 1, 2, 2, 3, 4, 4, 5, 5])
    if shape == 0:
        wrap = rng.choice([0, 1, 2, 3, 3, 4, 4, 5, 6, 7])
    elif shape == 4:
        wrap = rng.randrange(14)       # constructor x (inner node | the wrapper's own impls), see c10.rs
    elif shape == 5:
        wrap = rng.randrange(10)
    elif shape in (1, 2):
        wrap = rng.randint(0, 1)
    else:
        wrap = 0
    dep = rng.choice([0, 1, 2, 2])
    initial = [0] if (shape == 3 and rng.random() < 0.4) else []
    evs = []
    nf = 1            # futures created so far is unknown to the generator: aim a bit beyond
    na = 0
    manual = False
    n = rng.choice([4, 8, 12, 18, 26])
    for _ in range(n):
        r = rng.random()
        if r < 0.22:
            i = rng.choice([0, 0, 0, 1, 2]) if shape != 0 else rng.choice([0, 1, 1, 2])
            evs.append([0, i, rng.randint(0, 5)])
            nf += 1
        elif r < 0.28:
            evs.append([1])
            nf += 1
        elif r < 0.33 and shape != 5 and not (shape == 0 and wrap in (3, 4)):
            evs.append([2, rng.randint(7000, 7006)] + ([rng.randint(1, 3)] if rng.random() < 0.5 else []))
            manual = True
        elif r < 0.36 and manual:
            evs.append([3])
        elif r < 0.52:
            evs.append([4, rng.randint(0, min(nf, 8))])
        elif r < 0.66:
            evs.append([5, rng.choice([0, 0, 1])])
        elif r < 0.76:
            evs.append([6, [rng.randint(0, 3) for _ in range(rng.randint(0, 3))]])
        elif r < 0.84 or na == 0:
            if rng.random() < 0.2:
                evs.append([7, 0, 1])       # await through by_ref()
            else:
                evs.append([7, rng.choice([0, 1, 1])])
            na += 1
        else:
            # awaiters are polled again and again, each time with a fresh waker
            evs.append([8, rng.randint(0, na - 1)])
    return [shape, wrap, dep, initial, evs]


# ------------------------------------------------------------------ transitions (case shape 6)
def gen_items(rng, depth, budget):
    out = []
    for _ in range(rng.choice([1, 2, 2, 3, 4]) if depth else rng.choice([1, 2, 3, 4])):
        if budget[0] <= 0:
            break
        budget[0] -= 1
        if depth < 3 and rng.random() < 0.35:
            out.append([1, gen_items(rng, depth + 1, budget)])
        else:
            out.append([0, rng.randint(0, 3)])
    return out


def t_layout(prog):
    """runs in the order they start: (first node, one past the last node) created inside each run's action"""
    runs = []
    n = [0]

    def walk(items):
        r = len(runs)
        runs.append([n[0], None])
        for it in items:
            if it[0] == 0:
                n[0] += 1
            else:
                walk(it[1])
        runs[r][1] = n[0]
    walk(prog)
    return runs, n[0]


def gen_transition(rng):
    """one task awaiting AsyncTransition::run(action); the action creates async derived values / resources and awaits
    nested runs; the history completes the fetch futures and polls the tasks in any order"""
    prog = gen_items(rng, 0, [rng.choice([3, 5, 8, 12])])
    runs, nn = t_layout(prog)
    evs = []
    for _ in range(rng.choice([3, 6, 10, 16, 24])):
        r = rng.random()
        if r < 0.35:
            evs.append([4, rng.randint(0, nn)])
        elif r < 0.75:
            evs.append([5, rng.choice([0, 0, rng.randint(0, nn + 1)])])
        else:
            evs.append([6, [rng.randint(0, 4) for _ in range(rng.randint(0, 3))]])
    return [6, prog, evs]


def oracle_transition(case, impl):
    prog, evs = case[1], case[2]
    runs, nn = t_layout(prog)
    if len(impl) != len(evs) + 2:
        return "observation count differs from event count"
    for j, o in enumerate(impl):
        where = "start" if j == 0 else ("end" if j == len(impl) - 1 else "event %d" % (j - 1))
        for k, nd in enumerate(o[0]):
            v = opt(nd[0])
            if v not in (None, 100 + k):
                return "%s: node %d reads %r, which its fetcher never produced" % (where, k, v)
        if len(o[1]) > len(runs):
            return "%s: %d runs started, the program has %d" % (where, len(o[1]), len(runs))
        for r, ro in enumerate(o[1]):
            if ro[0] != 1:
                continue
            lo, hi = runs[r]
            snap = ro[1]
            if len(snap) != hi - lo:
                return ("%s: the task awaiting run %d was resumed when %d of the %d async values of its action existed"
                        % (where, r, len(snap), hi - lo))
            for i, nd in enumerate(snap):
                if opt(nd[0]) != 100 + lo + i or nd[1] != 0:
                    return ("%s: the task awaiting AsyncTransition::run #%d was resumed while async value %d, created inside "
                            "its action, %s (it read %r)" % (where, r, lo + i,
                                                             "is still loading" if nd[1] else "has no value", opt(nd[0])))
    fin = impl[-1]
    if len(fin[0]) != nn:
        return "every future completed and the executor is idle, but only %d of %d async values were created" % (len(fin[0]), nn)
    for k, nd in enumerate(fin[0]):
        if opt(nd[0]) != 100 + k or nd[1] != 0:
            return "every future completed and the executor is idle, but node %d holds %r (loading=%d)" % (k, opt(nd[0]), nd[1])
    if len(fin[1]) != len(runs) or any(ro[0] != 1 for ro in fin[1]):
        return "every future completed and the executor is idle, but a task awaiting AsyncTransition::run was never resumed"
    if fin[2]:
        return "tasks %r are still ready after run-until-idle" % (fin[2],)
    return None


def valid_transition(case):
    if len(case) not in (3, 4) or (len(case) == 4 and case[3] not in (0, 1)):
        return False

    def ok_items(items, d):
        if d > 4 or not isinstance(items, list):
            return False
        for it in items:
            if not isinstance(it, list) or len(it) != 2:
                return False
            if it[0] == 0:
                if it[1] not in (0, 1, 2, 3):
                    return False
            elif it[0] == 1:
                if not ok_items(it[1], d + 1):
                    return False
            else:
                return False
        return True
    if not ok_items(case[1], 0):
        return False
    for e in case[2]:
        if not isinstance(e, list) or len(e) != 2 or e[0] not in (4, 5, 6):
            return False
        if e[0] == 6:
            if not isinstance(e[1], list) or any((not isinstance(p, int)) or p < 0 for p in e[1]):
                return False
        elif not isinstance(e[1], int) or e[1] < 0:
            return False
    return True


def show_items(items):
    KN = ["ArcAsyncDerived", "AsyncDerived", "ArcResource", "Resource"]
    return "; ".join(KN[it[1]] if it[0] == 0 else "run{%s}.await" % show_items(it[1]) for it in items)


def generate(rng, tier):
    n = N_QUICK if tier == "quick" else N_THOROUGH
    for _ in range(n):
        if rng.random() < 0.15:
            yield dict(case=gen_transition(rng), kind="transition")
            continue
        c = gen_case(rng)
        if c[0] != 5 and rng.random() < 0.1:
            # dependents (an effect, dep = 3: also a nested async derived value reading the node) under an owner that
            # the history pauses and resumes: a load is published during the pause, another one after it. Not in the
            # Coq model: oracle only
            c[2] = rng.choice([1, 2, 3, 3])
            evs = c[4]
            k1 = rng.randint(0, len(evs))
            k2 = rng.randint(k1, len(evs))
            sig = 0 if c[0] != 0 else rng.choice([0, 1])
            during = [[0, sig, rng.randint(0, 5)], [6, []]] + [[4, f] for f in range(rng.randint(2, 6))] + [[6, []]]
            after = [[0, sig, rng.randint(0, 5)], [6, []]] if rng.random() < 0.8 else []
            c[4] = [[6, []]] + evs[:k1] + [[10]] + during + evs[k1:k2] + [[11]] + after + evs[k2:]
            if rng.random() < 0.3:
                c[4] += [[10]] + ([[11]] if rng.random() < 0.5 else [])
            yield dict(case=c, kind="paused-dependents", compare=False)
            continue
        if c[0] in (0, 1) and (c[0] == 1 or c[1] in (0, 1, 2, 5)) and rng.random() < 0.12:
            # the `_with_initial` constructors (value present at once, first load still runs) are not in the Coq
            # model either
            c[3] = [9001]
            yield dict(case=c, kind="with-initial", compare=False)
        elif rng.random() < 0.1:
            # synchronous reads under the Suspense boundary (event 9) are not in the Coq model: such cases are
            # judged by the oracle alone
            evs = c[4]
            for _ in range(rng.randint(1, 3)):
                evs.insert(rng.randint(0, len(evs)), [9])
            yield dict(case=c, kind="suspense-read", compare=False)
        else:
            yield dict(case=c, kind="shape%d" % c[0])


def opt(v):
    return v[0] if v else None


def oracle(item, impl):
    case = item["case"]
    if case[0] == 6 and len(case) > 3 and case[3] != 0:
        return None          # model-only witness of the restore = false variant
    if len(case) > 5 and case[5] != 0:
        return None          # pre-fix model witnesses: nothing to demand of the implementation
    if isinstance(impl, str):
        return "panic / harness error: " + impl
    if case[0] == 6:
        return oracle_transition(case, impl)
    shape, wrap, dep, initial, evs = case[:5]
    if len(impl) != len(evs) + 2:
        return "observation count differs from event count"
    sig = [0, 0, 0]
    legit = {None}
    if initial:
        legit.add(initial[0])
    seen_inputs = {inputs(shape, sig)}
    manual_vals = []
    resolved = {}
    parked = {}          # awaiter -> wake count right after it was last polled and stayed pending
    sus_flags = []       # per awaiter: created under the Suspense boundary
    sus_polled = False   # a child under the boundary awaited the node since the last load started
    first_started = (bool(initial) and shape == 3) or shape == 5
    paused = ever_paused = False
    published_since_resume = False      # a value was stored / loading went off while the dependents were not paused
    for j, e in enumerate(evs):
        if e[0] == 10:
            paused = ever_paused = True
        elif e[0] == 11:
            if paused:
                published_since_resume = False
            paused = False
        elif not paused and impl[j + 1][1] == 0 and impl[j + 1][:2] != impl[j][:2]:
            published_since_resume = True
        if e[0] == 0 and e[1] < 3:
            sig[e[1]] = e[2]
            seen_inputs.add(inputs(shape, sig))
        elif e[0] == 2:
            manual_vals.append(e[1])
        o = impl[j + 1]
        before = impl[j]
        # Suspense: a boundary whose child awaited the value is told about the next load
        if e[0] == 7:
            sus_flags.append(bool(e[1]))
        if e[0] == 9:
            # the boundary holds a task for a synchronous reader while the node is loading
            if o[1] == 1 and o[6] < 1:
                return ("event %d: a child of the Suspense boundary read the value synchronously while it is loading, but "
                        "the boundary has no pending task" % j)
            if shape != 5:
                sus_polled = True
        if shape != 5:
            if e[0] == 8 and e[1] < len(sus_flags) and sus_flags[e[1]] and e[1] not in resolved:
                sus_polled = True
            polls_node = (e[0] == 5 and e[1] == 0 and 0 in before[2]) or (e[0] == 6 and 0 in before[2])
            first = polls_node and not first_started
            if polls_node:
                first_started = True
            # (dep = 3: the nested value's own fetch futures are in the same count, a new future says nothing
            # about the node)
            reload = o[5] > before[5]
            if dep != 3 and (first or reload):
                if sus_polled and o[1] == 1 and not (first and reload) and o[6] < 1:
                    return ("event %d: a load started and is in flight, a child of the Suspense boundary had awaited or read the "
                            "value, but the boundary has no pending task" % j)
                sus_polled = False
        val = opt(o[0])
        # synchronous read: a previous value or none, never anything fabricated
        ok_vals = legit | set(manual_vals) | {fetch(*t) for t in seen_inputs}
        if val not in ok_vals:
            return "event %d: a synchronous read returns %r, which is neither an earlier result nor none" % (j, val)
        for k, a in enumerate(o[3]):
            if a[0] == 0:
                if e[0] == 8 and e[1] == k:
                    parked[k] = a[1]
                # an awaiter that parked while the node was loading is woken when loading goes off
                if k in parked and o[1] == 0 and a[1] <= parked[k] and not (e[0] == 8 and e[1] == k):
                    return "event %d: loading is off but awaiter %d, parked earlier, was never woken" % (j, k)
            if a[0] == 2:
                return "event %d: awaiter %d panicked" % (j, k)
            if a[0] == 1 and k not in resolved:
                resolved[k] = a[1]
                if e[0] != 8 or e[1] != k:
                    return "event %d: awaiter %d resolved without being polled" % (j, k)
                if a[1] != val:
                    return "event %d: awaiter %d resumed with %r while the node holds %r" % (j, k, a[1], val)
    fin = impl[-1]
    if not paused and fin[1] == 0 and fin[:2] != impl[-2][:2]:
        published_since_resume = True
    val = opt(fin[0])
    want = fetch(*inputs(shape, sig))
    if manual_vals:
        if val not in (want, manual_vals[-1]):
            return "settled on %r: neither fetch(latest inputs) = %r nor the last manual write %r" % (val, want, manual_vals[-1])
    elif val != want:
        return "settled on %r, but the fetcher applied to the latest inputs %r gives %r" % (val, inputs(shape, sig), want)
    if fin[6] != 0:
        return "all futures completed and the executor is idle, but the Suspense boundary still has %d pending tasks" % fin[6]
    if fin[1] != 0:
        return "all futures completed and the executor is idle, but the node still reports loading"
    if fin[2]:
        return "tasks %r are still ready after run-until-idle" % (fin[2],)
    for k, a in enumerate(fin[3]):
        if a[0] == 0:
            return "awaiter %d was never resumed with a value" % k
        if a[0] == 2:
            return "awaiter %d panicked" % k
        if k not in resolved and a[1] != val:
            return "awaiter %d resumed at the end with %r while the node holds %r" % (k, a[1], val)
    if dep:
        logs = [x for o in impl for x in o[4]]
        if not logs:
            return "the dependent effect never ran"
        # a paused dependent hears nothing and what it missed is not replayed; once the pause is lifted every later
        # transition must reach it
        must_know = (not ever_paused) or (not paused and published_since_resume)
        if must_know and opt(logs[-1]) != val:
            return "the dependent last saw %r but the node settled on %r: a transition %swas not notified" % (
                opt(logs[-1]), val, "after the pause was lifted " if ever_paused else "")
        if dep == 3:
            nv = opt(fin[7]) if len(fin) > 7 else "missing"
            if must_know and nv != (val + 1 if val is not None else -1):
                return ("the nested async derived value holds %r but the node it reads settled on %r: a transition %swas not "
                        "notified" % (nv, val, "after the pause was lifted " if ever_paused else ""))
    return None


def nontrivial(item, model):
    case = item["case"]
    if case[0] == 6:
        # a nested run, and the outer action creates something after it
        def after_nested(items):
            seen = False
            for it in items:
                if it[0] == 1:
                    if after_nested(it[1]):
                        return True
                    seen = True
                elif seen:
                    return True
            return False
        return len(case) == 3 and after_nested(case[1]) and any(e[0] == 4 for e in case[2])
    if len(case) > 5 and case[5] != 0:
        return False
    if not isinstance(model, list) or not model:
        return False
    nfut = model[-1][5]
    if nfut < 2:
        return False
    evs = case[4]
    for j, e in enumerate(evs):
        if e[0] in (0, 1):
            o = model[j]      # observation before this event
            if o[1] == 1 or o[2]:
                return True
    return False


def valid_case(item):
    try:
        case = item["case"]
        if case and case[0] == 6:
            return valid_transition(case)
        if len(case) not in (5, 6):
            return False
        shape, wrap, dep, initial, evs = case[:5]
        maxw = {0: 7, 1: 1, 2: 1, 3: 0, 4: 13, 5: 9}
        if shape not in maxw or not isinstance(wrap, int) or not 0 <= wrap <= maxw[shape] or dep not in (0, 1, 2, 3):
            return False
        pausing = dep == 3 or any(isinstance(e, list) and e and e[0] in (10, 11) for e in evs)
        if pausing:
            # oracle-only cases; the dependents have run once (a run-until-idle) before the first pause
            if item.get("compare", True) or dep == 0 or shape == 5:
                return False
            seen_run = False
            for e in evs:
                if isinstance(e, list) and e and e[0] == 6:
                    seen_run = True
                if isinstance(e, list) and e and e[0] == 10 and not seen_run:
                    return False
        if not isinstance(initial, list) or len(initial) > 1:
            return False
        if initial and shape != 3:
            # `_with_initial` constructors: oracle-only cases
            if item.get("compare", True) or initial != [9001] or not (shape == 1 or (shape == 0 and wrap in (0, 1, 2, 5))):
                return False
        elif initial and initial[0] != 0:
            return False
        ar = {0: 3, 1: 1, 2: 2, 3: 1, 4: 2, 5: 2, 6: 2, 7: 2, 8: 2, 9: 1, 10: 1, 11: 1}
        local = shape == 0 and wrap in (3, 4)
        if any(isinstance(e, list) and e and e[0] == 9 for e in evs) and item.get("compare", True):
            return False
        manual = False
        na = 0
        for e in evs:
            if not isinstance(e, list) or not e or e[0] not in ar:
                return False
            if e[0] == 2 and len(e) == 3:
                if e[2] not in (1, 2, 3):
                    return False
            elif e[0] == 7 and len(e) == 3:
                if e[1:] != [0, 1]:
                    return False
            elif len(e) != ar[e[0]]:
                return False
            if e[0] == 6:
                if not isinstance(e[1], list) or any((not isinstance(p, int)) or p < 0 for p in e[1]):
                    return False
            elif any((not isinstance(x, int)) or x < 0 for x in e[1:]):
                return False
            if e[0] == 0 and (e[1] > 2 or e[2] > 5):
                return False
            if e[0] in (2, 3) and (shape == 5 or local):
                return False
            if e[0] == 7 and e[1] > 1:
                return False
            if e[0] == 2:
                manual = True
            if e[0] == 3 and not manual:
                return False
            if e[0] == 5 and e[1] > (2 if dep == 3 else 1):
                return False
            if e[0] == 7:
                na += 1
            if e[0] == 8 and e[1] >= na:
                return False
        return True
    except Exception:
        return False


EV = {0: "write-signal", 1: "refetch", 2: "set", 3: "notify", 4: "complete", 5: "poll-task", 6: "run-until-idle",
      7: "new-awaiter", 8: "poll-awaiter", 9: "read-under-suspense", 10: "pause-dependents", 11: "resume-dependents"}
SH = {0: "reads signals s0,s1", 1: "reads memos s0/2, s1", 2: "reads m3 then m2 (m3 depends on m2 = s0*10)",
      3: "resource-like (memo over (refetch, s0/2), manual dependency)", 4: "leptos_server Resource over s0/2",
      5: "leptos_server OnceResource"}


def describe(it):
    case = it["case"]
    if case[0] == 6:
        return "one task awaits AsyncTransition::run{%s}%s: %s" % (
            show_items(case[1]), " [model variant restore = false]" if len(case) > 3 and case[3] else "",
            "; ".join("%s%s" % (EV.get(e[0], "?"), tuple(e[1:])) for e in case[2]))
    shape, wrap, dep, initial, evs = case[:5]
    if shape == 0:
        wn = ["Arc", "arena", "unsync+refetch (LocalResource-like)", "leptos_server ArcLocalResource", "leptos_server LocalResource",
              "AsyncDerived<_, LocalStorage>::new_unsync", "AsyncDerived::from_local(ArcAsyncDerived::new_unsync)",
              "AsyncDerived::from(ArcAsyncDerived::new)"][wrap]
    elif shape == 4:
        wn = ["ArcResource::new (inner node)", "Resource::new (inner node)", "ArcResource::new", "Resource::new",
              "ArcResource::new_blocking", "Resource::new_blocking", "ArcResource::new_str", "Resource::new_str",
              "ArcResource::new_str_blocking", "Resource::new_str_blocking", "ArcResource::new_with_options",
              "Resource::new_with_options", "ArcResource::from(Resource)", "Resource::from(ArcResource::new_str)"][wrap]
    elif shape == 5:
        wn = ["ArcOnceResource::new", "OnceResource::new", "ArcOnceResource::new_blocking", "OnceResource::new_blocking",
              "ArcOnceResource::new_str", "OnceResource::new_str", "ArcOnceResource::new_str_blocking",
              "OnceResource::new_str_blocking", "ArcOnceResource::new_with_options", "OnceResource::new_with_options"][wrap]
    else:
        wn = ["Arc", "arena"][wrap]
    head = "%s node, %s, dependent=%s, initial=%r" % (wn, SH[shape], dep, initial)
    if len(case) > 5 and case[5]:
        head += " [pre-fix model variant %d]" % case[5]
    return head + ": " + "; ".join("%s%s" % (EV.get(e[0], "?"), tuple(e[1:]) if len(e) > 1 else "") for e in evs)


def coverage_extra(results):
    futs = awaiters = overlapped = 0
    tr = tr_nested = 0
    for r in results:
        m = r["model"]
        if r["item"]["case"][0] == 6:
            tr += 1
            tr_nested += sum(1 for ro in m[-1][1]) - 1 if isinstance(m, list) and m else 0
            continue
        if isinstance(m, list) and m:
            futs += m[-1][5]
            awaiters += len(m[-1][3])
    return dict(fetch_futures_created=futs, awaiters=awaiters, transition_cases=tr, nested_transitions=tr_nested)


LEVEL_TEXT = ("Coq proofs about an executable Gallina transcription of the spawn_derived! task loop (as a resumable state machine), "
              "ArcAsyncDerivedInner::{mark_dirty, mark_check, update_if_necessary}, notify_subs, the await future's poll, manual "
              "set / notify and refetch, for all histories of source writes, refetches, manual writes, future completions in any "
              "order, task polls in any order and awaiters attached at any point: fetches are serial (the version test never "
              "fails), once every future has completed and no task is ready the node holds the fetcher applied to the current "
              "inputs and is not loading, no awaiter stays parked once loading is off, a synchronous read only ever returns none "
              "or a value that was produced earlier, and every stored value marks the subscribed dependent; tied to /repo by running "
              "the extracted model and the real ArcAsyncDerived / AsyncDerived / resource-style node / leptos_server resources (Resource, OnceResource, "
              "LocalResource and their Arc forms) on the same generated "
              "histories on a harness-owned executor and comparing value, loading flag, ready tasks, awaiter states, the "
              "dependent's log and the number of fetches after every event, plus an independent Python oracle at quiescence.")
LEVEL_TEXT += (" Transitions: Coq proof, for every tree of nested AsyncTransition::run actions and every completion / poll order, "
               "that the code after run(..).await resumes only when every async derived value created inside that action holds "
               "its value (model: global slot + stack of open runs remembering the previously installed transition), with the "
               "slot-clearing variant refuted; compared with the real AsyncTransition::run on the same generated programs.")
LEVEL_NOTE = ("Trusted: Coq kernel, extraction + OCaml driver, Rust harness + executor; modelled not verified: memos (assumed to "
              "behave to their spec), channel flag/waker, async RwLock. Sequential atomic polls only (threads: C19). The two "
              "pre-fix behaviours are kept as model variants with refutation witnesses.")
TECHNIQUE = "Coq proof (invariants of a resumable task state machine over all event histories) + differential correspondence of the extracted model with the Rust code"
