"""C13 — calling a server function remotely equals calling it directly (server_fn)."""
from . import common as C

PID = "C13"
PROPS_V = "theories/Props/Properties_C13.v"
MODEL_NAME = "ServerFn/ErrorCodec.v, ServerFn/Protocol.v"
HARNESS = "serverfn"
HARNESS_ARGS = ["c13"]
ALLOWED_AXIOMS = []
READY = False
RUN_IMPORT = "ServerFn.Run"

RULE = "(filled in below)"
TRUSTED = []
ASSUMPTIONS = []
LEVEL_TEXT = ""
LEVEL_NOTE = ""
TECHNIQUE = "Coq proof + differential correspondence of the extracted model with the Rust code"

KINDS = ["WrappedServerError", "Registration", "Request", "Response", "ServerError", "MiddlewareError",
         "Deserialization", "Serialization", "Args", "MissingArg"]
TAGS = ["WrappedServerFn", "Registration", "Request", "Response", "ServerError", "MiddlewareError",
        "Deserialization", "Serialization", "Args", "MissingArg"]

# ------------------------------------------------------------------ text generators
# code points whose `{:?}` rendering the Coq model reproduces exactly (checked against rustc's
# tables): everything below U+0378 plus this list.  Only these appear in strings whose Debug
# form reaches a compared observation; oracle-only cases use arbitrary Unicode.
DEBUG_EXTRA = [0x20AC, 0x4E2D, 0x1F600, 0x2000, 0x200A, 0x200B, 0x200C, 0x200D, 0x200F, 0x2010, 0x2027,
               0x2028, 0x202E, 0x202F, 0x2030, 0x205E, 0x205F, 0x2060, 0x2064, 0x2065, 0x206F, 0x2070,
               0x3000, 0x3001, 0xE000, 0xF8FF, 0xF900, 0xFE00, 0xFE0F, 0xFE10, 0xFEFF, 0xFFEF, 0xFFF0,
               0xFFF8, 0xFFF9, 0xFFFB, 0xFFFC, 0xFFFD, 0xFFFE, 0xFFFF, 0x10000, 0x1F3FB]
DELIMS = ["|", "%", "=", "&", "+", "#", "?", "/", " ", "\"", "\\", "'", "\n", "\t", "\r", "\x00", "\x7f",
          ":", ";", ",", "{", "}", "<", ">"]


def debug_safe(b):
    """may a compared observation contain the `{:?}` form of this byte string?"""
    try:
        t = bytes(b).decode("utf-8")
    except UnicodeDecodeError:
        return True                     # Debug is only reached for valid UTF-8
    return all(ord(ch) < 0x378 or ord(ch) in DEBUG_EXTRA for ch in t)


def safe_char(rng):
    r = rng.random()
    if r < 0.35:
        return rng.choice(DELIMS)
    if r < 0.60:
        return rng.choice("abcXYZ019 _-.~*")
    if r < 0.75:
        return chr(rng.randint(0, 0x7F))
    if r < 0.90:
        return chr(rng.randint(0x80, 0x377))
    return chr(rng.choice(DEBUG_EXTRA))


def any_char(rng):
    r = rng.random()
    if r < 0.5:
        return safe_char(rng)
    cp = rng.choice([rng.randint(0, 0x7F), rng.randint(0x80, 0x7FF), rng.randint(0x800, 0xD7FF),
                     rng.randint(0xE000, 0xFFFF), rng.randint(0x10000, 0x10FFFF)])
    return chr(cp)


def text(rng, maxlen=10, ch=safe_char):
    n = rng.choice([0, 0, 1, 2, 3, rng.randint(0, maxlen), rng.randint(0, maxlen)])
    s = "".join(ch(rng) for _ in range(n))
    r = rng.random()
    if r < 0.10:                       # a message that itself looks like a wire string
        s = rng.choice(TAGS) + "|" + s
    elif r < 0.14:
        s = "|" + s
    elif r < 0.18:
        s = s + "|"
    return s


def gen_err(rng, ch=safe_char):
    """(cust kind payload)"""
    cust = rng.choice([0, 0, 1])
    kind = rng.randint(0, 9)
    if kind == 0:
        payload = [rng.choice([0, 1, 9, 10, 99, 100, 255, rng.randint(0, 255)])] if cust == 1 else []
    else:
        payload = C.norm(text(rng, 10, ch))
    return cust, kind, payload


def wire_like(rng):
    """bytes offered to `de`: mutations of genuine wire strings and arbitrary byte strings"""
    r = rng.random()
    body = text(rng, 8).encode()
    tag = rng.choice(TAGS).encode()
    if r < 0.25:
        s = tag + b"|" + body
    elif r < 0.35:                     # no delimiter
        s = tag + body.replace(b"|", b"")
    elif r < 0.50:                     # unknown / mangled kind
        t = bytearray(tag)
        if t and rng.random() < 0.7:
            i = rng.randrange(len(t))
            t[i] = rng.choice([t[i] ^ 0x20, rng.randint(32, 126)])
        else:
            t = bytearray(text(rng, 5).replace("|", "").encode())
        s = bytes(t) + b"|" + body
    elif r < 0.65:                     # custom-error payloads
        s = b"WrappedServerFn|" + rng.choice([b"", b"0", b"7", b"255", b"256", b"+5", b"-5", b"+", b"-", b"007",
                                                b"1e3", b" 5", b"5 ", b"99999999999999999999", body,
                                                str(rng.randint(0, 400)).encode()])
    elif r < 0.85:                     # invalid UTF-8 somewhere
        s = bytearray(tag + b"|" + body)
        bad = rng.choice([b"\xff", b"\xc3", b"\xe2\x82", b"\xf0\x9f\x98", b"\xc0\xaf", b"\xed\xa0\x80", b"\x80",
                          b"\xf4\x90\x80\x80", b"\xe0\x80", b"\xf8"])
        i = rng.randint(0, len(s))
        s = bytes(s[:i] + bad + s[i:])
        if rng.random() < 0.3:
            s = s[:rng.randint(0, len(s))]
    else:
        s = bytes(rng.randint(0, 255) for _ in range(rng.randint(0, 12)))
    return list(s)


STD64 = "ABCDEFGHIJKLMNOPQRSTUVWXYZabcdefghijklmnopqrstuvwxyz0123456789+/"
URL64 = "ABCDEFGHIJKLMNOPQRSTUVWXYZabcdefghijklmnopqrstuvwxyz0123456789-_"


def rand_bytes(rng, maxlen=14):
    n = rng.choice([0, 1, 2, 3, 4, 5, 6, rng.randint(0, maxlen), rng.randint(30, 70) if rng.random() < 0.15 else 7])
    return bytes(rng.choice([0, 255, 0x80, rng.randint(0, 255), rng.randint(0, 255)]) for _ in range(n))


def b64_mutant(rng, alphabet, pad):
    """a string offered to a base64 decoder: genuine encodings and near misses"""
    import base64 as B
    data = rand_bytes(rng)
    enc = B.b64encode(data).decode()
    if alphabet is URL64:
        enc = enc.replace("+", "-").replace("/", "_")
    if not pad:
        enc = enc.rstrip("=")
    r = rng.random()
    other = STD64 if alphabet is URL64 else URL64
    if r < 0.25:
        return enc
    s = list(enc)
    k = rng.choice([1, 1, 1, 2])
    for _ in range(k):
        m = rng.random()
        pos = rng.randint(0, len(s))
        if m < 0.2 and s:
            del s[rng.randrange(len(s))]
        elif m < 0.35:
            s.insert(pos, "=")
        elif m < 0.5:
            s.insert(pos, rng.choice(alphabet))
        elif m < 0.6 and s:
            s[rng.randrange(len(s))] = rng.choice([other[62], other[63], " ", "\n", "=", "é", ".", "%", "\x00"])
        elif m < 0.7:
            s.append(rng.choice(["\n", " ", "=", "==", "===", "A", "B", "\r\n", "é"]))
        elif m < 0.8 and s:
            s = s[:rng.randint(0, len(s))]
        elif m < 0.9 and s:
            # set trailing bits in the last symbol
            i = len(s) - 1
            while i >= 0 and s[i] == "=":
                i -= 1
            if i >= 0 and s[i] in alphabet:
                s[i] = alphabet[alphabet.index(s[i]) | rng.choice([1, 2, 3, 8, 15])]
        else:
            s = list("".join(s).rstrip("=")) if pad else s + ["="] * ((-len(s)) % 4)
    return "".join(s)


PRE = ["http://h.t/p", "http://example.com/", "https://a.b.c/x/y/z", "http://localhost:3000/form", "http://h.t"]
QCH = "abzAZ019%&=+-._*~!$()/:;?@[]|,"
FCH = "abz019%&=+-._~!#?/|"


def gen_query(rng, with_err=0.3):
    parts = []
    for _ in range(rng.choice([0, 1, 1, 2, 3, 4])):
        r = rng.random()
        if r < with_err:
            parts.append(rng.choice(["__err", "__path"]) + rng.choice(["=", "=x", "=%2Fapi%2Ff", "", "=U2VydmVyRXJyb3J8eA%3D%3D"]))
        elif r < 0.8:
            k = "".join(rng.choice(QCH.replace("&", "").replace("=", "")) for _ in range(rng.randint(0, 4)))
            v = "".join(rng.choice(QCH.replace("&", "")) for _ in range(rng.randint(0, 5)))
            parts.append(k + rng.choice(["=", "=", "=", ""]) + v)
        else:
            parts.append(rng.choice(["", "=", "%", "%zz", "a=%C3%A9", "a=%FF", "+=+", "%5F%5Ferr=1", "__err", "__errx=1", "x__err=2",
                                     "_%5Fpath=3"]))
    return "&".join(parts)


def gen_base(rng):
    pre = rng.choice(PRE)
    if pre == "http://h.t":
        pre = pre + "/"        # Url::parse adds the root path itself; keep the identity shape
    q = [] if rng.random() < 0.35 else [C.norm(gen_query(rng))]
    f = [] if rng.random() < 0.7 else [C.norm("".join(rng.choice(FCH) for _ in range(rng.randint(0, 5))))]
    return C.norm(pre), q, f


def gen_path(rng):
    r = rng.random()
    if r < 0.6:
        return "/api/" + rng.choice(["my_fn", "f", "deep/er/fn"]) + str(rng.randint(0, 10 ** 12))
    return text(rng, 8)


def generate(rng, tier):
    n = 6000 if tier == "quick" else 100000
    for _ in range(n):
        r = rng.random()
        if r < 0.22:
            cust, kind, payload = gen_err(rng)
            yield dict(case=[0, cust, kind, payload], kind="err-ser-de")
        elif r < 0.27:
            cust, kind, payload = gen_err(rng, any_char)
            yield dict(case=[0, cust, kind, payload], kind="err-ser-de-anyunicode")
        elif r < 0.45:
            w = wire_like(rng)
            yield dict(case=[1, rng.choice([0, 1]), w], kind="err-de-bytes", compare=debug_safe(w))
        elif r < 0.52:
            yield dict(case=[2, list(rand_bytes(rng))], kind="b64-binary-format")
        elif r < 0.62:
            yield dict(case=[3, C.norm(b64_mutant(rng, STD64, False))], kind="b64-decode-malformed")
        elif r < 0.80:
            cust, kind, payload = gen_err(rng, any_char if rng.random() < 0.3 else safe_char)
            pre, q, f = gen_base(rng)
            yield dict(case=[4, cust, kind, payload, C.norm(gen_path(rng)), pre, q, f], kind="url-error-roundtrip")
        elif r < 0.92:
            import base64 as B
            if rng.random() < 0.5:
                s = b64_mutant(rng, URL64, True)
            else:
                w = bytes(wire_like(rng))
                s = B.urlsafe_b64encode(w).decode()
                if rng.random() < 0.3:
                    s = s.rstrip("=") if rng.random() < 0.5 else s + "="
            w = b64_canonical(s, URL64, True)
            yield dict(case=[5, rng.choice([0, 1]), C.norm(s)], kind="url-decode-err",
                       compare=(w is None or debug_safe(w)))
        else:
            pre, q, f = gen_base(rng)
            yield dict(case=[6, pre, q, f], kind="strip-error-info")


# ------------------------------------------------------------------ oracle (independent of the model)
def ref_wire(cust, kind, payload):
    if kind == 0:
        body = b"Unit Type Displayed" if cust == 0 else str(payload[0]).encode()
    else:
        body = bytes(payload)
    return TAGS[kind].encode() + b"|" + body


def ref_err(cust, kind, payload):
    """the error as the harness prints it"""
    if kind == 0:
        return [0, list(b"Unit Type Displayed" if cust == 0 else str(payload[0]).encode())]
    return [kind, payload]


def check_de(data, impl):
    """what `de(data)` must satisfy by the property text alone"""
    try:
        s = data.decode("utf-8")
    except UnicodeDecodeError:
        return None if impl[0] == 6 else "invalid UTF-8 was not reported as a Deserialization error"
    if "|" in s:
        tag, rest = s.split("|", 1)
        if tag in TAGS[1:]:
            want = [TAGS.index(tag), list(rest.encode())]
            return None if impl == want else "a well-formed wire string decoded to a different error"
        if tag != TAGS[0]:
            return None if impl[0] == 6 else "unknown kind was not reported as a Deserialization error"
        return None
    return None if impl[0] == 6 else "missing delimiter was not reported as a Deserialization error"


def b64_canonical(s, alphabet, pad):
    """decoded bytes if `s` is the canonical encoding of something, else None (written from RFC 4648)"""
    if pad:
        if len(s) % 4 != 0:
            return None
        body = s.rstrip("=")
        if len(s) - len(body) > 2:
            return None
    else:
        body = s
    if any(ch not in alphabet for ch in body) or len(body) % 4 == 1:
        return None
    bits = 0
    nbits = 0
    out = bytearray()
    for ch in body:
        bits = (bits << 6) | alphabet.index(ch)
        nbits += 6
        if nbits >= 8:
            nbits -= 8
            out.append((bits >> nbits) & 255)
    if bits & ((1 << nbits) - 1):
        return None
    if pad and (len(body) + (len(s) - len(body))) % 4 != 0:
        return None
    return bytes(out)


def oracle(item, impl):
    import base64 as B
    import urllib.parse as U
    case = item["case"]
    op = case[0]
    if isinstance(impl, str):
        if impl.startswith("!panic"):
            return "panic: " + impl
        return "harness error: " + impl
    if op == 0:
        _, cust, kind, payload = case
        if bytes(impl[0]) != ref_wire(cust, kind, payload):
            return "ser() is not 'Kind|message'"
        if impl[1] != ref_err(cust, kind, payload):
            return "de(ser(e)) != e: kind or message did not survive the wire format"
        return None
    if op == 1:
        return check_de(bytes(case[2]), impl)
    if op == 2:
        data = bytes(case[1])
        if bytes(impl[0]) != B.b64encode(data).rstrip(b"="):
            return "into_encoded_string is not unpadded standard base64"
        return None if impl[1] == [0, list(data)] else "from_encoded_string(into_encoded_string(b)) != b"
    if op == 3:
        want = b64_canonical(bytes(case[1]).decode(), STD64, False)
        if want is None:
            return None if impl[0] == 1 else "non-canonical base64 accepted"
        return None if impl == [0, list(want)] else "canonical base64 not decoded to its bytes"
    if op == 4:
        _, cust, kind, payload, path, pre, q, f = case
        if impl and impl[0] == -1:
            return "to_url rejected an absolute base URL: " + C.show_bytes(impl[1])
        if impl[1] != [path]:
            return "__path read back from the URL differs from the server function's path"
        if impl[2] != [ref_err(cust, kind, payload)]:
            return "error read back from the URL differs: kind or message did not survive the URL-embedded form"
        if not bytes(impl[0]).startswith(bytes(pre)):
            return "to_url changed the base URL"
        return None
    if op == 5:
        s = bytes(case[2]).decode()
        w = b64_canonical(s, URL64, True)
        if w is None:
            return None if impl[0] == 6 else "malformed base64 in __err was not reported as a Deserialization error"
        return check_de(w, impl)
    if op == 6:
        _, pre, q, f = case
        before = U.parse_qsl(bytes(q[0]).decode(), keep_blank_values=True, errors="replace") if q else []
        out = bytes(impl).decode()
        rest = out[len(bytes(pre)):]
        if not out.startswith(bytes(pre).decode()):
            return "strip_error_info changed the URL before the query"
        frag = None
        if "#" in rest:
            rest, frag = rest.split("#", 1)
        if (frag is None) != (not f) or (f and frag != bytes(f[0]).decode()):
            return "strip_error_info changed the fragment"
        after = U.parse_qsl(rest[1:] if rest.startswith("?") else rest, keep_blank_values=True, errors="replace")
        want = [(k, v) for (k, v) in before if k not in ("__err", "__path")]
        return None if after == want else "strip_error_info did not remove exactly the __err/__path pairs"
    return None


def nontrivial(item, model):
    case = item["case"]
    if case[0] == 0:
        return len(case[3]) > 0
    if case[0] == 1:
        return len(case[2]) > 0
    if case[0] in (2, 3):
        return len(case[1]) > 0
    return True


def describe(it):
    case = it["case"]
    if case[0] == 0:
        _, cust, kind, payload = case
        return "ServerFnError<%s>::%s(%r).ser() then de()" % (
            ["NoCustomError", "Code"][cust], KINDS[kind], payload if kind == 0 else C.show_bytes(payload))
    if case[0] == 1:
        return "ServerFnError<%s>::de(%r)" % (["NoCustomError", "Code"][case[1]], C.bs(case[2]))
    if case[0] == 2:
        return "CborEncoding::from_encoded_string(into_encoded_string(%r))" % (C.bs(case[1]),)
    if case[0] == 3:
        return "CborEncoding::from_encoded_string(%r)" % (C.show_bytes(case[1]),)
    if case[0] == 4:
        _, cust, kind, payload, path, pre, q, f = case
        base = C.show_bytes(pre) + ("?" + C.show_bytes(q[0]) if q else "") + ("#" + C.show_bytes(f[0]) if f else "")
        return "ServerFnUrlError::new(%r, ServerFnError<%s>::%s(%r)).to_url(%r), then read __path/__err back" % (
            C.show_bytes(path), ["NoCustomError", "Code"][cust], KINDS[kind],
            payload if kind == 0 else C.show_bytes(payload), base)
    if case[0] == 5:
        return "ServerFnUrlError::<ServerFnError<%s>>::decode_err(%r)" % (["NoCustomError", "Code"][case[1]], C.show_bytes(case[2]))
    if case[0] == 6:
        _, pre, q, f = case
        return "strip_error_info(%r)" % (C.show_bytes(pre) + ("?" + C.show_bytes(q[0]) if q else "") + ("#" + C.show_bytes(f[0]) if f else ""),)
    return None
