"""C13 — calling a server function remotely equals calling it directly (server_fn)."""
from . import common as C

PID = "C13"
PROPS_V = "theories/Props/Properties_C13.v"
MODEL_NAME = "ServerFn/ErrorCodec.v, ServerFn/Protocol.v"
HARNESS = "serverfn"
HARNESS_ARGS = ["c13"]
ALLOWED_AXIOMS = []
READY = False

RULE = "(filled in below)"
TRUSTED = []
ASSUMPTIONS = []
LEVEL_TEXT = ""
LEVEL_NOTE = ""
TECHNIQUE = "Coq proof + differential correspondence of the extracted model with the Rust code"

KINDS = ["WrappedServerError", "Registration", "Request", "Response", "ServerError", "MiddlewareError",
         "Deserialization", "Serialization", "Args", "MissingArg"]
TAGS = ["WrappedServerFn", "Registration", "Request", "Response", "ServerError", "MiddlewareError",
        "Deserialization", "Serialization", "Args", "MissingArg"]

# ------------------------------------------------------------------ text generators
# code points whose `{:?}` rendering the Coq model reproduces exactly (checked against rustc's
# tables): everything below U+0378 plus this list.  Only these appear in strings whose Debug
# form reaches a compared observation; oracle-only cases use arbitrary Unicode.
DEBUG_EXTRA = [0x20AC, 0x4E2D, 0x1F600, 0x2000, 0x200A, 0x200B, 0x200C, 0x200D, 0x200F, 0x2010, 0x2027,
               0x2028, 0x202E, 0x202F, 0x2030, 0x205E, 0x205F, 0x2060, 0x2064, 0x2065, 0x206F, 0x2070,
               0x3000, 0x3001, 0xE000, 0xF8FF, 0xF900, 0xFE00, 0xFE0F, 0xFE10, 0xFEFF, 0xFFEF, 0xFFF0,
               0xFFF8, 0xFFF9, 0xFFFB, 0xFFFC, 0xFFFD, 0xFFFE, 0xFFFF, 0x10000, 0x1F3FB]
DELIMS = ["|", "%", "=", "&", "+", "#", "?", "/", " ", "\"", "\\", "'", "\n", "\t", "\r", "\x00", "\x7f",
          ":", ";", ",", "{", "}", "<", ">"]


def safe_char(rng):
    r = rng.random()
    if r < 0.35:
        return rng.choice(DELIMS)
    if r < 0.60:
        return rng.choice("abcXYZ019 _-.~*")
    if r < 0.75:
        return chr(rng.randint(0, 0x7F))
    if r < 0.90:
        return chr(rng.randint(0x80, 0x377))
    return chr(rng.choice(DEBUG_EXTRA))


def any_char(rng):
    r = rng.random()
    if r < 0.5:
        return safe_char(rng)
    cp = rng.choice([rng.randint(0, 0x7F), rng.randint(0x80, 0x7FF), rng.randint(0x800, 0xD7FF),
                     rng.randint(0xE000, 0xFFFF), rng.randint(0x10000, 0x10FFFF)])
    return chr(cp)


def text(rng, maxlen=10, ch=safe_char):
    n = rng.choice([0, 0, 1, 2, 3, rng.randint(0, maxlen), rng.randint(0, maxlen)])
    s = "".join(ch(rng) for _ in range(n))
    r = rng.random()
    if r < 0.10:                       # a message that itself looks like a wire string
        s = rng.choice(TAGS) + "|" + s
    elif r < 0.14:
        s = "|" + s
    elif r < 0.18:
        s = s + "|"
    return s


def gen_err(rng, ch=safe_char):
    """(cust kind payload)"""
    cust = rng.choice([0, 0, 1])
    kind = rng.randint(0, 9)
    if kind == 0:
        payload = [rng.choice([0, 1, 9, 10, 99, 100, 255, rng.randint(0, 255)])] if cust == 1 else []
    else:
        payload = C.norm(text(rng, 10, ch))
    return cust, kind, payload


def wire_like(rng):
    """bytes offered to `de`: mutations of genuine wire strings and arbitrary byte strings"""
    r = rng.random()
    body = text(rng, 8).encode()
    tag = rng.choice(TAGS).encode()
    if r < 0.25:
        s = tag + b"|" + body
    elif r < 0.35:                     # no delimiter
        s = tag + body.replace(b"|", b"")
    elif r < 0.50:                     # unknown / mangled kind
        t = bytearray(tag)
        if t and rng.random() < 0.7:
            i = rng.randrange(len(t))
            t[i] = rng.choice([t[i] ^ 0x20, rng.randint(32, 126)])
        else:
            t = bytearray(text(rng, 5).replace("|", "").encode())
        s = bytes(t) + b"|" + body
    elif r < 0.65:                     # custom-error payloads
        s = b"WrappedServerFn|" + rng.choice([b"", b"0", b"7", b"255", b"256", b"+5", b"-5", b"+", b"-", b"007",
                                                b"1e3", b" 5", b"5 ", b"99999999999999999999", body,
                                                str(rng.randint(0, 400)).encode()])
    elif r < 0.85:                     # invalid UTF-8 somewhere
        s = bytearray(tag + b"|" + body)
        bad = rng.choice([b"\xff", b"\xc3", b"\xe2\x82", b"\xf0\x9f\x98", b"\xc0\xaf", b"\xed\xa0\x80", b"\x80",
                          b"\xf4\x90\x80\x80", b"\xe0\x80", b"\xf8"])
        i = rng.randint(0, len(s))
        s = bytes(s[:i] + bad + s[i:])
        if rng.random() < 0.3:
            s = s[:rng.randint(0, len(s))]
    else:
        s = bytes(rng.randint(0, 255) for _ in range(rng.randint(0, 12)))
    return list(s)


def generate(rng, tier):
    n = 3000 if tier == "quick" else 60000
    for _ in range(n):
        r = rng.random()
        if r < 0.5:
            cust, kind, payload = gen_err(rng)
            yield dict(case=[0, cust, kind, payload], kind="err-ser-de")
        elif r < 0.6:
            cust, kind, payload = gen_err(rng, any_char)
            yield dict(case=[0, cust, kind, payload], kind="err-ser-de-anyunicode")
        else:
            yield dict(case=[1, rng.choice([0, 1]), wire_like(rng)], kind="err-de-bytes")


# ------------------------------------------------------------------ oracle (independent of the model)
def ref_wire(cust, kind, payload):
    if kind == 0:
        body = b"Unit Type Displayed" if cust == 0 else str(payload[0]).encode()
    else:
        body = bytes(payload)
    return TAGS[kind].encode() + b"|" + body


def ref_err(cust, kind, payload):
    """the error as the harness prints it"""
    if kind == 0:
        return [0, list(b"Unit Type Displayed" if cust == 0 else str(payload[0]).encode())]
    return [kind, payload]


def oracle(item, impl):
    case = item["case"]
    op = case[0]
    if isinstance(impl, str):
        if impl.startswith("!panic"):
            return "panic: " + impl
        return "harness error: " + impl
    if op == 0:
        _, cust, kind, payload = case
        if bytes(impl[0]) != ref_wire(cust, kind, payload):
            return "ser() is not 'Kind|message'"
        if impl[1] != ref_err(cust, kind, payload):
            return "de(ser(e)) != e: kind or message did not survive the wire format"
        return None
    if op == 1:
        # any byte string must decode to *some* error value (no panic); a genuine wire string of a
        # standard kind must decode to exactly that kind and message
        data = bytes(case[2])
        try:
            s = data.decode("utf-8")
        except UnicodeDecodeError:
            return None if impl[0] == 6 else "invalid UTF-8 was not reported as a Deserialization error"
        if "|" in s:
            tag, rest = s.split("|", 1)
            if tag in TAGS[1:]:
                want = [TAGS.index(tag), list(rest.encode())]
                return None if impl == want else "a well-formed wire string decoded to a different error"
            if tag != TAGS[0]:
                return None if impl[0] == 6 else "unknown kind was not reported as a Deserialization error"
            return None
        return None if impl[0] == 6 else "missing delimiter was not reported as a Deserialization error"
    return None


def nontrivial(item, model):
    case = item["case"]
    if case[0] == 0:
        return len(case[3]) > 0
    if case[0] == 1:
        return len(case[2]) > 0
    return True


def describe(it):
    case = it["case"]
    if case[0] == 0:
        _, cust, kind, payload = case
        return "ServerFnError<%s>::%s(%r).ser() then de()" % (
            ["NoCustomError", "Code"][cust], KINDS[kind], payload if kind == 0 else C.show_bytes(payload))
    if case[0] == 1:
        return "ServerFnError<%s>::de(%r)" % (["NoCustomError", "Code"][case[1]], C.bs(case[2]))
    return None
