"""C13 — calling a server function remotely equals calling it directly (server_fn)."""
from . import common as C

PID = "C13"
PROPS_V = "theories/Props/Properties_C13.v"
MODEL_NAME = "ServerFn/ErrorCodec.v, ServerFn/Protocol.v, ServerFn/Websocket.v"
HARNESS = "serverfn"
HARNESS_ARGS = ["c13"]
ALLOWED_AXIOMS = []
READY = True
RUN_IMPORT = "ServerFn.Run"

RULE = ("cases drawn from one PRNG (VERIF_SEED). COMPARED line by line with the extracted model: op0 ser then de of a "
        "ServerFnError<NoCustomError|Code(u8)> of any of the ten variants with messages over delimiter-heavy Unicode text; "
        "op1 de of arbitrary bytes (mutated wire strings, unknown kinds, missing '|', invalid UTF-8, unparsable custom text); "
        "op2/3 FormatType::Binary text form (STANDARD_NO_PAD) of byte strings and of mutated base64; op4 "
        "ServerFnUrlError::to_url on absolute base URLs with/without query (stale __err/__path pairs included) and fragment, "
        "then the pairs a client reads back + decode_err; op5 decode_err of mutated URL-safe base64; op6 strip_error_info; "
        "op7 the real Http::run_client on canned responses (status sweep 100..999, redirect header, Location, error/plain/"
        "invalid bodies) incl. redirect-hook calls; op8 the real run_on_server (form-redirects on) on raw requests "
        "(Accept html or not, Referer absolute URL / relative / absent / non-UTF-8); op9 run_on_client through the loopback "
        "vs the body called directly. ORACLE-ONLY (serde codecs are assumed, exercised differentially, never modelled): op10 "
        "remote vs direct for 39 #[server] functions = every input encoding x Json, Json x every output encoding, mixed "
        "pairs, over nested structs/options/vectors/strings/numbers at range limits and Err results of every variant; op18 "
        "#[server] functions with Option arguments in first/middle/last position (None, Some(\"\"), Some(vec![]) often) for each of "
        "the 23 input encodings; every request and response body is delivered as a Bytes::slice view behind a 0..9-byte frame "
        "header inside a larger buffer (case-chosen), as framed transports do; "
        "op11 the same calls under truncate/flip/splice/replace of request or response bytes and status overrides "
        "(must be a value, never a panic); op12 multipart requests with good/missing/malformed boundary and damaged bodies; "
        "op13-15,17 text/byte streams in and out with chunk sizes around 8191..8194, 16383..16386, 65535..65537 and multi-byte "
        "characters across power-of-two offsets, the transport re-cutting request and response bodies at 1/7/16/8192/whole; op21 "
        "custom FromServerFnError types with Json/Cbor/MsgPack/Postcard encoders (messages >= 128 bytes, integers >= 128); op19 "
        "histories: several calls on one thread, including calls that cannot be encoded/decoded on purpose (op20), each call "
        "checked against its direct call. COVERAGE AUDIT (coverage/C13.md): COMPARED op22 fn0 the websocket protocol (Websocket::run_client / "
        "run_server through a loopback duplex on a harness-owned executor; text items and error items both ways, frames replaced "
        "in flight, five schedules of caller / forwarder / handler / pump, early drop), op23/24 ServerFnErrorWrapper Display+FromStr for "
        "ServerFnError<NoCustomError|Code> and of mutated strings, op25 FormatType of all seven encodings (text and binary), op32 the "
        "glue function on the real axum backend (server_fn::axum::handle_server_fn; request bodies as hyper-like frame streams); "
        "ORACLE-ONLY op22 fn1-12 websocket functions declared with #[server(protocol = Websocket<..>)] for every item encoding, custom "
        "stream error types with binary encoders, items JSON cannot carry, a body that awaits its first item, fn13 no upgrade; op23/24/26 "
        "string and URL forms of six custom error types (Json/Cbor/MsgPack/Postcard/Rkyv/SerdeLite encoders), relative bases; op10/18 "
        "now also the Patch/Put wrappers of Cbor/MsgPack/Postcard/Rkyv/SerdeLite as input and output; op21 Rkyv- and SerdeLite-encoded "
        "errors; op20 an error its own encoder cannot encode; op11 send / body-read failures; op27 a value with enums of all four "
        "variant kinds, tuples, maps, char, u128/i128, f32, unit, arrays, Result; op28 strings / vectors / byte vectors at 2^k+-1 sizes "
        "(15..65537) through 13 encodings; op29 dispatch through ServerFnTraitObj::boxed + middleware layers (pass and refuse); op30 17 "
        "functions using the other options of #[server] (defaults, name/prefix/endpoint, legacy positional arguments and encoding "
        "strings, protocol =, custom =, impl_from/impl_deref, input_derive, default/rename/flatten/skip argument attributes, aliased "
        "Result, an encoding written after the documentation's example); op31 functions on the axum backend (Json, Rkyv, GetUrl->Cbor, "
        "text and byte streams, multipart, tower middleware, form redirect carrying a Cbor-encoded error, registry); op33 ByteStream::new "
        "with error items; op34 TextStream<custom error>; op35 errors built by `?` / ServerFnError::new / server_fn_error!; op36 one of 14 "
        "value shapes using serde's representation attributes (untagged / internally / adjacently tagged enums, flatten, rename, "
        "default + skip_serializing_if, with-modules for bytes, newtype / unit / tuple structs, maps with integer and struct keys, "
        "Option<Option<_>>, Result as data, Cow/Box strings, Vec of untagged), carrying empty and non-empty byte vectors (bytes on both "
        "sides of 128, lengths around 32 and 256) and boundary numbers, through 13 serde-based encoding pairs; judged against the "
        "baseline gen/c13_shapes.json of what the unchanged code carries per (function, shape, feature) class. "
        "A case is non-trivial when its payload is non-empty; distinct = distinct case hash.")
TRUSTED = [
    "Coq 8.16.1 kernel (coqc; coqchk on the thorough tier); no axioms: all theorems of Properties_C13.v are 'Closed under the global context'",
    "extraction to OCaml with ExtrOcamlBasic only, ocamlfind ocamlopt 4.13.1, extract/driver.ml sexp I/O",
    "harness/serverfn (Rust): a loopback Client/ClientReq/ClientRes written for the harness, a Server on /repo's generic Request<Bytes>/Response<Body> "
    "(newtype delegating every Req method to /repo's impl, because /repo's two generic types cannot be paired directly), "
    "handler lookup through the inventory registry the #[server] macro fills, dispatch as get_server_fn_service does (boxed service + "
    "the function's middleware layers), futures::executor::block_on; for websockets a harness-owned deterministic executor "
    "(round-robin polling in a case-chosen rotation), unbounded channels as the duplex, the loopback's own try_into_websocket "
    "(/repo's generic request never upgrades) and its rule that a failed handshake's body reaches the client as one error frame; "
    "for the axum backend a loopback Client calling server_fn::axum::handle_server_fn with in-memory axum bodies (no hyper, no sockets)",
    "ASSUMED, not modelled: the serde codecs (serde_json, serde_qs, ciborium, rmp-serde, postcard, rkyv, serde-lite) and multer; in Coq they are "
    "Section variables with the hypothesis codecs_ok (decode inverts encode on the values involved); their round trips are only "
    "exercised differentially (ops 10-15) with an oracle, and the check found that assumption false for serde_qs (F-C13-e, open) "
    "and for serde_json floats before fix 65449d8",
    "modelled, not verified (transcribed in ServerFn/ErrorCodec.v, compared with the real crates on every case): base64 0.22 general-purpose "
    "engine (URL_SAFE, STANDARD_NO_PAD incl. every DecodeError and its Display), form_urlencoded byte_serialize/parse, "
    "url::Url::query_pairs_mut on an absolute URL given by its parts (Url::parse itself is the identity on the generated bases), "
    "core::str::Utf8Error Display, impl Debug for str (exact for code points < U+0378 and a listed set; compared cases stay inside), "
    "u8::from_str, usize/u8 Display, http::HeaderValue validity",
    "Protocol.v models Http<In,Out> over body codecs (Post/Patch/Put<Encoding>, the url codecs); streaming and multipart bodies are "
    "covered by the oracle only, except the multipart boundary lookup (its panic branch, now an Args error, is in the model)",
    "Websocket.v models the websocket framing item by item (send_item / recv_item, frames replaced in flight) with the body as a "
    "function on item lists: interleaving is not modelled (schedules are only exercised), the item codecs are parameters",
    "compared, not proved: nothing new; oracle only (not modelled): custom error types, value classes, sizes, middleware order, macro "
    "options, axum backend internals (hyper body collection), stream error items",
    "the Content-Type/Accept headers a client sends are swapped by every codec's into_req (argument order); they are not part of "
    "the property and only Accept is modelled (as the input content type, which is what the code sends)",
]
ASSUMPTIONS = [
    "codecs_ok: for the argument and the returned value the (third-party) codec's decode inverts its encode; known to fail for "
    "serde_qs on empty vectors and empty optional strings (F-C13-e)",
    "err_ok: error messages are Rust Strings (valid UTF-8) and a custom error's FromStr inverts its Display",
    "the transport delivers the bytes it was given (loopback); HTTP re-chunking of streamed bodies is not modelled",
    "a client request never carries 'Accept: text/html' (only a browser form post does)",
    "f64 NaN/infinity are outside the generated domain (JSON cannot carry them)",
    "op27 stays inside what serde's data model round-trips in every format (no Option<Option<_>>, Option<()>, non-string map keys, "
    "NaN); the URL codecs are not given that value; op28/op31 give the URL codecs only values outside the known class F-C13-e",
    "websocket: a server function body that fails before returning its stream is only required to produce a value on the client "
    "(real websocket clients see a failed handshake, not the body's error); items at indices whose frames were replaced are "
    "only required to be items (an error frame must arrive as an error item)",
    "op36: a (function, shape, feature-class) the unchanged /repo does not carry unchanged (gen/c13_shapes.json, rebuilt with "
    "gen.c13.learn_shapes() on the unchanged tree only: e.g. untagged / flatten through Postcard, Some(None) through Json, struct map "
    "keys through Json, most shapes through serde_qs) or that the baseline never sampled is only required to yield a value; the "
    "SerdeLite and Rkyv encodings have derives of their own and take no serde attributes",
    "a text-format encoder's output is valid UTF-8 (FormatType::into_encoded_string's documented precondition)",
]
LEVEL_TEXT = ("Coq proofs, for every error variant / message / custom error type, every byte string, every base URL and every "
              "status code, that an error survives the 'Kind|message' wire format and the base64-in-URL form, that the decoders "
              "are total and accept only canonical forms, and that client(transport(server(x))) = body(x) for Ok and Err under the "
              "stated codec hypothesis — about an executable Gallina transcription of server_fn's error.rs, the protocol glue of "
              "lib.rs and the generic request/response code; tied to /repo by running the extracted model and the real code "
              "(through the public API and the real #[server] macro, loopback transport) on the same thousands of generated "
              "cases every run, plus an independent Python oracle (remote == direct; decoded == original; corrupted => value, "
              "not panic) over all codec pairs. Also proved: the websocket framing preserves every item and error item in both "
              "directions for all item codecs that invert (and turns undecodable / unencodable items into the right error values), "
              "and an error survives the string form of ServerFnErrorWrapper for text and binary encoders.")
LEVEL_NOTE = ("Trusted: Coq kernel, ExtrOcamlBasic extraction + OCaml driver, the Rust harness incl. its loopback transport. Assumed "
              "(differentially exercised only): every serde codec and multer. Modelled not verified: base64, form_urlencoded, "
              "str Debug (restricted tables), Utf8Error Display. No axioms. One open finding (serde_qs cannot carry empty "
              "vectors / empty optional strings), four repaired ones. Anchor coverage audit: coverage/C13.md (which entry points are "
              "driven, judged, modelled; what stays open and why).")
TECHNIQUE = "Coq proof (induction over byte strings, base64 quads, query pairs) + differential correspondence of the extracted model with the Rust code + oracle over all codec pairs"

KINDS = ["WrappedServerError", "Registration", "Request", "Response", "ServerError", "MiddlewareError",
         "Deserialization", "Serialization", "Args", "MissingArg"]
TAGS = ["WrappedServerFn", "Registration", "Request", "Response", "ServerError", "MiddlewareError",
        "Deserialization", "Serialization", "Args", "MissingArg"]

# ------------------------------------------------------------------ text generators
# code points whose `{:?}` rendering the Coq model reproduces exactly (checked against rustc's
# tables): everything below U+0378 plus this list.  Only these appear in strings whose Debug
# form reaches a compared observation; oracle-only cases use arbitrary Unicode.
DEBUG_EXTRA = [0x20AC, 0x4E2D, 0x1F600, 0x2000, 0x200A, 0x200B, 0x200C, 0x200D, 0x200F, 0x2010, 0x2027,
               0x2028, 0x202E, 0x202F, 0x2030, 0x205E, 0x205F, 0x2060, 0x2064, 0x2065, 0x206F, 0x2070,
               0x3000, 0x3001, 0xE000, 0xF8FF, 0xF900, 0xFE00, 0xFE0F, 0xFE10, 0xFEFF, 0xFFEF, 0xFFF0,
               0xFFF8, 0xFFF9, 0xFFFB, 0xFFFC, 0xFFFD, 0xFFFE, 0xFFFF, 0x10000, 0x1F3FB]
DELIMS = ["|", "%", "=", "&", "+", "#", "?", "/", " ", "\"", "\\", "'", "\n", "\t", "\r", "\x00", "\x7f",
          ":", ";", ",", "{", "}", "<", ">"]


def debug_safe(b):
    """may a compared observation contain the `{:?}` form of this byte string?"""
    try:
        t = bytes(b).decode("utf-8")
    except UnicodeDecodeError:
        return True                     # Debug is only reached for valid UTF-8
    return all(ord(ch) < 0x378 or ord(ch) in DEBUG_EXTRA for ch in t)


def safe_char(rng):
    r = rng.random()
    if r < 0.35:
        return rng.choice(DELIMS)
    if r < 0.60:
        return rng.choice("abcXYZ019 _-.~*")
    if r < 0.75:
        return chr(rng.randint(0, 0x7F))
    if r < 0.90:
        return chr(rng.randint(0x80, 0x377))
    return chr(rng.choice(DEBUG_EXTRA))


def any_char(rng):
    r = rng.random()
    if r < 0.5:
        return safe_char(rng)
    cp = rng.choice([rng.randint(0, 0x7F), rng.randint(0x80, 0x7FF), rng.randint(0x800, 0xD7FF),
                     rng.randint(0xE000, 0xFFFF), rng.randint(0x10000, 0x10FFFF)])
    return chr(cp)


def text(rng, maxlen=10, ch=safe_char):
    n = rng.choice([0, 0, 1, 2, 3, rng.randint(0, maxlen), rng.randint(0, maxlen)])
    s = "".join(ch(rng) for _ in range(n))
    r = rng.random()
    if r < 0.10:                       # a message that itself looks like a wire string
        s = rng.choice(TAGS) + "|" + s
    elif r < 0.14:
        s = "|" + s
    elif r < 0.18:
        s = s + "|"
    return s


def gen_err(rng, ch=safe_char):
    """(cust kind payload)"""
    cust = rng.choice([0, 0, 1])
    kind = rng.randint(0, 9)
    if kind == 0:
        payload = [rng.choice([0, 1, 9, 10, 99, 100, 255, rng.randint(0, 255)])] if cust == 1 else []
    else:
        payload = C.norm(text(rng, 10, ch))
    return cust, kind, payload


def wire_like(rng):
    """bytes offered to `de`: mutations of genuine wire strings and arbitrary byte strings"""
    r = rng.random()
    body = text(rng, 8).encode()
    tag = rng.choice(TAGS).encode()
    if r < 0.25:
        s = tag + b"|" + body
    elif r < 0.35:                     # no delimiter
        s = tag + body.replace(b"|", b"")
    elif r < 0.50:                     # unknown / mangled kind
        t = bytearray(tag)
        if t and rng.random() < 0.7:
            i = rng.randrange(len(t))
            t[i] = rng.choice([t[i] ^ 0x20, rng.randint(32, 126)])
        else:
            t = bytearray(text(rng, 5).replace("|", "").encode())
        s = bytes(t) + b"|" + body
    elif r < 0.65:                     # custom-error payloads
        s = b"WrappedServerFn|" + rng.choice([b"", b"0", b"7", b"255", b"256", b"+5", b"-5", b"+", b"-", b"007",
                                                b"1e3", b" 5", b"5 ", b"99999999999999999999", body,
                                                str(rng.randint(0, 400)).encode()])
    elif r < 0.85:                     # invalid UTF-8 somewhere
        s = bytearray(tag + b"|" + body)
        bad = rng.choice([b"\xff", b"\xc3", b"\xe2\x82", b"\xf0\x9f\x98", b"\xc0\xaf", b"\xed\xa0\x80", b"\x80",
                          b"\xf4\x90\x80\x80", b"\xe0\x80", b"\xf8"])
        i = rng.randint(0, len(s))
        s = bytes(s[:i] + bad + s[i:])
        if rng.random() < 0.3:
            s = s[:rng.randint(0, len(s))]
    else:
        s = bytes(rng.randint(0, 255) for _ in range(rng.randint(0, 12)))
    return list(s)


STD64 = "ABCDEFGHIJKLMNOPQRSTUVWXYZabcdefghijklmnopqrstuvwxyz0123456789+/"
URL64 = "ABCDEFGHIJKLMNOPQRSTUVWXYZabcdefghijklmnopqrstuvwxyz0123456789-_"


def rand_bytes(rng, maxlen=14):
    n = rng.choice([0, 1, 2, 3, 4, 5, 6, rng.randint(0, maxlen), rng.randint(30, 70) if rng.random() < 0.15 else 7])
    return bytes(rng.choice([0, 255, 0x80, rng.randint(0, 255), rng.randint(0, 255)]) for _ in range(n))


def b64_mutant(rng, alphabet, pad):
    """a string offered to a base64 decoder: genuine encodings and near misses"""
    import base64 as B
    data = rand_bytes(rng)
    enc = B.b64encode(data).decode()
    if alphabet is URL64:
        enc = enc.replace("+", "-").replace("/", "_")
    if not pad:
        enc = enc.rstrip("=")
    r = rng.random()
    other = STD64 if alphabet is URL64 else URL64
    if r < 0.25:
        return enc
    s = list(enc)
    k = rng.choice([1, 1, 1, 2])
    for _ in range(k):
        m = rng.random()
        pos = rng.randint(0, len(s))
        if m < 0.2 and s:
            del s[rng.randrange(len(s))]
        elif m < 0.35:
            s.insert(pos, "=")
        elif m < 0.5:
            s.insert(pos, rng.choice(alphabet))
        elif m < 0.6 and s:
            s[rng.randrange(len(s))] = rng.choice([other[62], other[63], " ", "\n", "=", "é", ".", "%", "\x00"])
        elif m < 0.7:
            s.append(rng.choice(["\n", " ", "=", "==", "===", "A", "B", "\r\n", "é"]))
        elif m < 0.8 and s:
            s = s[:rng.randint(0, len(s))]
        elif m < 0.9 and s:
            # set trailing bits in the last symbol
            i = len(s) - 1
            while i >= 0 and s[i] == "=":
                i -= 1
            if i >= 0 and s[i] in alphabet:
                s[i] = alphabet[alphabet.index(s[i]) | rng.choice([1, 2, 3, 8, 15])]
        else:
            s = list("".join(s).rstrip("=")) if pad else s + ["="] * ((-len(s)) % 4)
    return "".join(s)


PRE = ["http://h.t/p", "http://example.com/", "https://a.b.c/x/y/z", "http://localhost:3000/form", "http://h.t"]
QCH = "abzAZ019%&=+-._*~!$()/:;?@[]|,"
FCH = "abz019%&=+-._~!#?/|"


PRE_OK = [p for p in PRE if p != "http://h.t"] + ["http://h.t/"]     # bases on which Url::parse is the identity


def gen_query(rng, with_err=0.3):
    parts = []
    for _ in range(rng.choice([0, 1, 1, 2, 3, 4])):
        r = rng.random()
        if r < with_err:
            parts.append(rng.choice(["__err", "__path"]) + rng.choice(["=", "=x", "=%2Fapi%2Ff", "", "=U2VydmVyRXJyb3J8eA%3D%3D"]))
        elif r < 0.8:
            k = "".join(rng.choice(QCH.replace("&", "").replace("=", "")) for _ in range(rng.randint(0, 4)))
            v = "".join(rng.choice(QCH.replace("&", "")) for _ in range(rng.randint(0, 5)))
            parts.append(k + rng.choice(["=", "=", "=", ""]) + v)
        else:
            parts.append(rng.choice(["", "=", "%", "%zz", "a=%C3%A9", "a=%FF", "+=+", "%5F%5Ferr=1", "__err", "__errx=1", "x__err=2",
                                     "_%5Fpath=3"]))
    return "&".join(parts)


def gen_base(rng):
    pre = rng.choice(PRE)
    if pre == "http://h.t":
        pre = pre + "/"        # Url::parse adds the root path itself; keep the identity shape
    q = [] if rng.random() < 0.35 else [C.norm(gen_query(rng))]
    f = [] if rng.random() < 0.7 else [C.norm("".join(rng.choice(FCH) for _ in range(rng.randint(0, 5))))]
    return C.norm(pre), q, f


def gen_path(rng):
    r = rng.random()
    if r < 0.6:
        return "/api/" + rng.choice(["my_fn", "f", "deep/er/fn"]) + str(rng.randint(0, 10 ** 12))
    return text(rng, 8)


STATUSES = [100, 199, 200, 201, 204, 299, 300, 301, 302, 307, 399, 400, 401, 404, 418, 499, 500, 503, 599, 600, 999]
ACCEPTS = [None, "text/html", "text/html,application/xhtml+xml,application/xml;q=0.9,*/*;q=0.8", "application/json",
           "TEXT/HTML", "text/htm", "*/*", "", "application/xml, text/html;q=0.5", "text/plain"]
RAW_REFERERS = ["/relative?x=1", "relative", "", "not a url", "//h.t/p", "?__err=x", "/p?__err=QQ%3D%3D&__path=%2Fapi%2Fglue",
                "mailto", "caf\u00e9", "a b?c=d#e"]


def glue_input(rng):
    r = rng.random()
    if r < 0.55:
        return "E" + rng.choice("0123456789") + text(rng, 8, any_char if rng.random() < 0.3 else safe_char)
    if r < 0.65:
        return rng.choice(["E", "E:", "Ex1", "e4x", "", "E", "EE4x", " E4x"])
    return text(rng, 10, any_char if rng.random() < 0.3 else safe_char)


def gen_glue(rng):
    r = rng.random()
    if r < 0.30:
        s = glue_input(rng)
        return dict(case=[9, C.norm(s), rng.choice([0, 1, 2])], kind="glue-remote-vs-direct", compare=debug_safe(s.encode()))
    if r < 0.65:
        data = list(glue_input(rng).encode()) if rng.random() < 0.75 else wire_like(rng)
        acc = rng.choice(ACCEPTS)
        acc = [] if acc is None else [C.norm(acc)]
        rr = rng.random()
        if rr < 0.25:
            ref = []
        elif rr < 0.8:
            pre, q, f = gen_base(rng)
            ref = [1, pre, q, f]
        else:
            raw = rng.choice(RAW_REFERERS).encode()
            if rng.random() < 0.15:
                raw = raw + rng.choice([b"\xff", b"\xc3", b"\xe2\x82"])
            ref = [2, list(raw)]
        return dict(case=[8, data, acc, ref, rng.choice([0, 1, 2])], kind="glue-server", compare=debug_safe(data))
    st = rng.choice(STATUSES + [rng.randint(100, 999)])
    loc = [] if rng.random() < 0.5 else [C.norm(rng.choice(["/", "/login", "http://h.t/next?x=1", "", "caf\u00e9"]))]
    rr = rng.random()
    if rr < 0.5:
        body = wire_like(rng)
    elif rr < 0.8:
        body = list(text(rng, 8).encode())
    else:
        body = list(rand_bytes(rng, 8))
    return dict(case=[7, C.norm(glue_input(rng)), st, rng.choice([0, 0, 1]), loc, body, rng.choice([0, 1, 2])], kind="glue-client",
                compare=debug_safe(body))


# ------------------------------------------------------------------ typed values (ops 10, 11)
PAIRS = ["json_json", "cbor_json", "msgpack_json", "postcard_json", "rkyv_json", "serdelite_json", "geturl_json",
         "posturl_json", "deleteurl_json", "patchurl_json", "puturl_json", "patchjson_json", "putjson_json", "json_cbor",
         "json_msgpack", "json_postcard", "json_rkyv", "json_serdelite", "json_patchjson", "json_putjson", "cbor_cbor",
         "msgpack_msgpack", "postcard_postcard", "rkyv_rkyv", "serdelite_serdelite", "geturl_cbor", "posturl_rkyv",
         "rkyv_postcard", "patchcbor_putcbor", "putcbor_msgpack",
         # (coverage audit) the Patch/Put wrappers of every encoding, as input and as output
         "json_patchcbor", "patchmsgpack_putmsgpack", "putmsgpack_patchmsgpack", "patchpostcard_putpostcard",
         "putpostcard_patchpostcard", "patchrkyv_putrkyv", "putrkyv_patchrkyv", "patchserdelite_putserdelite",
         "putserdelite_patchserdelite"]
URL_INPUT = {i for i, p in enumerate(PAIRS) if p.split("_")[0].endswith("url")}


def u64(v):
    return [v >> 32, v & 0xFFFFFFFF]


def f64_bits(x):
    import struct
    return u64(struct.unpack(">Q", struct.pack(">d", x))[0])


def gen_f64(rng):
    import sys
    return rng.choice([0.0, -0.0, 1.0, -1.5, 0.1, 1e300, -1e-300, sys.float_info.max, sys.float_info.min, 5e-324,
                       2.0 ** 53, 2.0 ** 53 + 2, 3.141592653589793, 1 / 3, rng.uniform(-1e6, 1e6), rng.random(),
                       rng.uniform(-1, 1) * 10 ** rng.randint(-300, 300)])


def gen_str(rng, maxlen=8):
    return text(rng, maxlen, any_char if rng.random() < 0.4 else safe_char)


def gen_inner(rng):
    x = rng.choice([0, 1, -1, 2 ** 31 - 1, -2 ** 31, rng.randint(-2 ** 31, 2 ** 31 - 1)])
    opt = [] if rng.random() < 0.4 else [C.norm(gen_str(rng, 5))]
    return [x, C.norm(gen_str(rng, 5)), opt]


def gen_val(rng):
    return [
        u64(rng.choice([0, 1, 2 ** 32, 2 ** 53, 2 ** 53 + 1, 2 ** 63, 2 ** 64 - 1, rng.getrandbits(64)])),
        u64(rng.choice([0, -1, 2 ** 63 - 1, -2 ** 63, -(2 ** 53) - 1, rng.randint(-2 ** 63, 2 ** 63 - 1)]) % 2 ** 64),  # i64, two's complement
        rng.choice([0, 1, 127, 128, 254, 255, rng.randint(0, 255)]),
        rng.choice([0, 1]),
        f64_bits(gen_f64(rng)),
        C.norm(gen_str(rng, 10)),
        gen_inner(rng),
        [gen_inner(rng) for _ in range(rng.choice([0, 1, 1, 2, 3]))],
        [C.norm(gen_str(rng, 5)) for _ in range(rng.choice([0, 1, 2, 2, 4]))],
        [] if rng.random() < 0.4 else [gen_inner(rng)],
    ]


def gen_plan(rng):
    if rng.random() < 0.55:
        return [0, []]
    return [rng.randint(1, 10), C.norm(gen_str(rng, 8))]


def gen_edit(rng):
    r = rng.random()
    if r < 0.35:
        return [0, rng.choice([0, 1, 2, 3, 5, 8, 13, 21, 34, 55, rng.randint(0, 200)])]
    if r < 0.65:
        return [1, rng.randint(0, 400), rng.choice([1, 2, 4, 8, 16, 32, 64, 128, 255])]
    if r < 0.9:
        ins = list(rng.choice([b"", b"\xff", b"\x00", b"|", b"&", b"=", b"%", b"%zz", b"\"", b"}", b"[", b"\xc3", b"null",
                               b"\xff\xff\xff\xff\xff\xff\xff\xff", bytes(rng.randint(0, 255) for _ in range(rng.randint(1, 6)))]))
        return [2, rng.randint(0, 300), rng.choice([0, 0, 1, 2, 5, 50]), ins]
    return [3, list(rng.choice([b"", b"\x00", b"{", b"null", b"[]", b"Args|x", b"\xff\xfe", b"v=1", b"\x80" * 40,
                                bytes(rng.randint(0, 255) for _ in range(rng.randint(0, 40)))]))]


MP_OK_BODY = b"--B\r\nContent-Disposition: form-data; name=\"a\"\r\n\r\nvalue\r\n--B\r\nContent-Disposition: form-data; name=\"f\"; filename=\"x.bin\"\r\nContent-Type: application/octet-stream\r\n\r\n\x00\xff\r\n--B--\r\n"
MP_CTS = [b"multipart/form-data; boundary=B", b"multipart/form-data", b"multipart/form-data; boundary=", b"text/plain",
          b"multipart/form-data; boundary=\"B", b"multipart/form-data;boundary=B", b"MULTIPART/FORM-DATA; BOUNDARY=B", b"",
          b"multipart/form-data; boundary=" + b"x" * 80, b"application/x-www-form-urlencoded", b"multipart/mixed; boundary=B",
          b"multipart/form-data; charset=utf-8; boundary=B", b";", b"boundary=B"]


OPT_FNS = ["json", "cbor", "msgpack", "postcard", "rkyv", "serdelite", "geturl", "posturl", "deleteurl", "patchurl", "puturl",
           "patchjson", "putjson", "patchcbor", "putcbor", "patchmsgpack", "putmsgpack", "patchpostcard", "putpostcard",
           "patchrkyv", "putrkyv", "patchserdelite", "putserdelite"]
OPT_URL = {i for i, p in enumerate(OPT_FNS) if p.endswith("url")}


def gen_frame(rng):
    """header lengths (0..=9) of the transport frames carrying the request / response body"""
    return [rng.randint(0, 9), rng.randint(0, 9)]


def gen_opt_args(rng):
    """arguments of the Option-argument functions: None / empty / boundary values in every position, often"""
    def opt(f, p_none=0.45):
        return [] if rng.random() < p_none else [f()]
    first = opt(lambda: rng.choice([0, 1, 2 ** 32 - 1, rng.getrandbits(32)]))
    a = C.norm(gen_str(rng, 6))
    mid = opt(lambda: C.norm(rng.choice(["", "", gen_str(rng, 6)])))
    lst = opt(lambda: [gen_inner(rng) for _ in range(rng.choice([0, 0, 1, 2, 3]))])
    n = u64(rng.choice([0, -1, 2 ** 63 - 1, -2 ** 63, rng.randint(-2 ** 63, 2 ** 63 - 1)]) % 2 ** 64)
    last = opt(lambda: gen_inner(rng))
    return [first, a, mid, lst, n, last]


def gen_typed(rng):
    r = rng.random()
    if r < 0.22:
        return dict(case=[10, rng.randrange(len(PAIRS)), gen_val(rng), gen_plan(rng), gen_frame(rng)],
                    kind="typed-remote-vs-direct", compare=False)
    if r < 0.36:
        return dict(case=[18, rng.randrange(len(OPT_FNS))] + gen_opt_args(rng) + [gen_frame(rng)], kind="option-args",
                    compare=False)
    if r < 0.58:
        where = rng.choice([0, 0, 0, 1, 1, 1, 2, 2, 3, 4])
        arg = gen_edit(rng) if where < 2 else rng.choice(STATUSES + [rng.randint(100, 999)]) if where == 2 else 0
        return dict(case=[11, rng.randrange(len(PAIRS)), gen_val(rng), gen_plan(rng), where, arg, gen_frame(rng)],
                    kind="typed-corrupted", compare=False)
    if r < 0.63:
        ct = MP_CTS[0] if rng.random() < 0.35 else rng.choice(MP_CTS)
        if rng.random() < 0.15:
            ct = bytes(b for b in (rng.randint(32, 126) for _ in range(rng.randint(0, 30))))
        body = MP_OK_BODY
        rr = rng.random()
        if rr < 0.3:
            body = body[:rng.randint(0, len(body))]
        elif rr < 0.5:
            i = rng.randrange(len(body))
            body = body[:i] + bytes([body[i] ^ rng.choice([1, 32, 128])]) + body[i + 1:]
        elif rr < 0.6:
            body = bytes(rng.randint(0, 255) for _ in range(rng.randint(0, 60)))
        return dict(case=[12, [] if rng.random() < 0.1 else [list(ct)], list(body)], kind="multipart-server", compare=False)
    if r < 0.78:
        return gen_stream(rng)
    if r < 0.88:
        return dict(case=gen_app_err(rng), kind="custom-error-type", compare=False)
    return gen_history(rng)


RECHUNK_SIZES = [0, 0, 1, 7, 16, 8192, 1 << 30]
BOUNDARIES = [16, 64, 1024, 4096, 8192, 16384, 32768, 65536]
MB = ["é", "€", "😀", "ü", "中"]


def seg(n, s):
    return [n, C.norm(s) if isinstance(s, str) else list(s)]


def chunk_bytes(ch):
    return b"".join(bytes(u) * n for (n, u) in ch)


def gen_text_chunk(rng, big_ok=True):
    """a text chunk as segments; often long, with a multi-byte character across a power-of-two offset"""
    r = rng.random()
    if r < 0.35 or not big_ok:
        return [seg(1, gen_str(rng, 24))]
    B = rng.choice(BOUNDARIES) * rng.choice([1, 1, 1, 2, 3])
    ch = rng.choice(MB)
    j = rng.randint(1, len(ch.encode()) - 1)            # bytes of `ch` before the boundary
    out = []
    if rng.random() < 0.3:                              # a run of 3-byte characters instead of ASCII filler
        k = (B - j) // 3
        out += [seg(k, "€"), seg(B - j - 3 * k, "a")]
    else:
        out += [seg(B - j, "a")]
    out += [seg(1, ch), seg(rng.choice([0, 1, 5, rng.randint(0, 40)]), "b")]
    if rng.random() < 0.3:
        out += [seg(rng.choice([8191, 8192, 8193, 8194, 16383, 16386, 65535, 65537]) % 70000, "c"), seg(1, rng.choice(MB))]
    return [x for x in out if x[0] > 0]


def gen_byte_chunk(rng):
    r = rng.random()
    if r < 0.4:
        return [seg(1, rand_bytes(rng, 40))]
    n = rng.choice([8191, 8192, 8193, 8194, 16383, 16384, 16385, 16386, 65535, 65536, 65537])
    return [seg(n, bytes([rng.randint(0, 255)])), seg(1, rand_bytes(rng, 5))]


def gen_stream(rng):
    rc = [rng.choice(RECHUNK_SIZES), rng.choice(RECHUNK_SIZES)]
    r = rng.random()
    nch = rng.choice([0, 1, 1, 2, 3, 5])
    if r < 0.3:
        return dict(case=[13, [gen_text_chunk(rng) for _ in range(nch)], rc, rng.choice([0, 0, 1, 2])], kind="text-stream-echo",
                    compare=False)
    if r < 0.5:
        return dict(case=[14, [gen_byte_chunk(rng) for _ in range(nch)], rc], kind="byte-stream-out", compare=False)
    if r < 0.65:
        return dict(case=[17, [gen_byte_chunk(rng) for _ in range(nch)], rc], kind="byte-stream-in", compare=False)
    chunks = []
    for _ in range(nch):
        if rng.random() < 0.25:
            chunks.append([seg(1, "!" + str(rng.randint(1, 9)) + gen_str(rng, 8))])
        else:
            chunks.append(gen_text_chunk(rng))
    return dict(case=[15, chunks, rc], kind="text-stream-out", compare=False)


APP_FNS = ["json", "cbor", "msgpack", "postcard", "postcard(json in)", "msgpack(url in)", "rkyv", "serdelite",
           "rkyv(put cbor in, put rkyv out)"]


def gen_app_err(rng):
    """custom FromServerFnError types with text and binary encoders: long messages, integers >= 128, raw bytes"""
    variant = rng.choice([0, 1, 1, 2, 2, 3, 3, 4])
    what = gen_str(rng, 8) if rng.random() < 0.5 else gen_str(rng, 4) + "x" * rng.choice([120, 127, 128, 129, 200, 300])
    code = rng.choice([0, 1, 127, 128, 255, 256, 65535, 2 ** 31, 2 ** 32 - 1, rng.getrandbits(32)])
    many = list(rand_bytes(rng, 20)) if rng.random() < 0.7 else [rng.randint(128, 255)] * rng.choice([1, 127, 128, 200])
    plan = [variant, u64(rng.choice([0, 127, 128, 2 ** 32, 2 ** 64 - 1, rng.getrandbits(64)])), C.norm(what), code, many,
            rng.randint(1, 10)]
    return [21, rng.randrange(len(APP_FNS)), plan, gen_frame(rng)]


def gen_call(rng):
    """an ordinary call usable inside a history (each is a case of its own op)"""
    r = rng.random()
    if r < 0.45:
        pid = rng.choice([i for i, p in enumerate(PAIRS) if "json" in p or "serdelite" in p] if rng.random() < 0.7 else range(len(PAIRS)))
        return [10, pid, gen_val(rng), gen_plan(rng), gen_frame(rng)]
    if r < 0.65:
        return [18, rng.randrange(len(OPT_FNS))] + gen_opt_args(rng) + [gen_frame(rng)]
    if r < 0.75:
        return gen_app_err(rng)
    if r < 0.9:
        it = gen_audit(rng)
        if it["case"][0] in (23, 27, 30, 35):
            return it["case"]
    return [9, C.norm(glue_input(rng)), rng.choice([0, 1, 2])]


def gen_history(rng):
    """several calls on one thread; calls that cannot be encoded/decoded on purpose (op 20) are always followed by
    ordinary ones, and every call of the history is checked against its direct call"""
    calls = []
    for _ in range(rng.choice([2, 3, 4, 6])):
        if rng.random() < 0.4:
            calls.append([20, rng.choice([0, 0, 1, 1, 2, 3, 4]), rng.choice([0, 1, 100, 5000])])
        calls.append(gen_call(rng))
    return dict(case=[19] + calls, kind="call-history", compare=False)


# ------------------------------------------------------------------ coverage audit: ops 22..35
WS_FNS = ["glue(str)", "json", "cbor", "msgpack", "postcard", "rkyv", "serdelite", "json->rkyv", "rkyv->json",
          "cbor->postcard", "first(json)", "apperr(postcard->cbor; Cbor/MsgPack errors)", "poison(json)", "no-upgrade"]
ERR_TYPES = ["ServerFnError<NoCustomError>", "ServerFnError<Code>", "AppErrJson", "AppErrCbor", "AppErrMsgPack",
             "AppErrPostcard", "AppErrRkyv", "AppErrSerdeLite"]
ERR_BINARY = {3, 4, 5, 6}
FMT_ENCS = ["JsonEncoding", "SerdeLiteEncoding", "ServerFnErrorEncoding", "CborEncoding", "MsgPackEncoding",
            "PostcardEncoding", "RkyvEncoding"]
SIZES = [0, 1, 15, 16, 17, 23, 24, 25, 31, 32, 33, 127, 128, 255, 256, 257, 4095, 4096, 4097, 8191, 8192, 8193,
         65535, 65536, 65537]
ZOO_FNS = ["json", "cbor", "msgpack", "postcard", "patchjson->putcbor", "putmsgpack->patchpostcard",
           "patchcbor->putjson", "putpostcard->patchmsgpack"]
BIG_FNS = ["json", "cbor", "msgpack", "postcard", "rkyv", "serdelite", "posturl", "geturl", "deleteurl", "patchurl",
           "puturl", "patchrkyv->putrkyv", "patchserdelite->putserdelite"]
BIG_URL = {6, 7, 8, 9, 10}
OPT_NAMES = ["m_default", "m_only_input", "m_only_output", "m_named", "m_endpoint", "m_legacy_cbor", "m_legacy_getjson",
             "m_legacy_getcbor", "m_protocol", "m_custom", "m_single", "m_single_off", "m_derive", "m_attrs",
             "m_attrs_url", "m_alias", "m_docjson"]
OPT_PATHS = {3: "/rpc/named_ep", 4: "/api/x/y", 5: "/leg/cbor_ep", 7: "/leg/gc"}
OPT_PREFIX = {6: "/leg/"}
AX_PATHS = sorted(["GET /api/ax_geturl", "GET /api/ax_mw", "POST /api/ax_echo_text", "POST /api/ax_emit_bytes",
                   "POST /api/ax_glue", "POST /api/ax_json", "POST /api/ax_rkyv", "POST /api/ax_upload"])
REL_BASES = ["/relative", "relative", "", "//h.t/p", "?x=1", "/p?__err=QQ"]


def gen_std_err(rng, cust, ch=safe_char):
    """(kind payload) of a ServerFnError<NoCustomError|Code>"""
    kind = rng.randint(0, 9)
    if kind == 0:
        payload = [rng.choice([0, 1, 9, 10, 99, 100, 255, rng.randint(0, 255)])] if cust == 1 else []
    else:
        payload = C.norm(text(rng, 8, ch))
    return kind, payload


def gen_eplan(rng, variants=(1, 1, 2, 2, 3, 3, 4)):
    variant = rng.choice(variants)
    what = gen_str(rng, 8) if rng.random() < 0.5 else gen_str(rng, 4) + "x" * rng.choice([120, 127, 128, 129, 200, 300])
    code = rng.choice([0, 1, 127, 128, 255, 256, 65535, 2 ** 31, 2 ** 32 - 1, rng.getrandbits(32)])
    many = list(rand_bytes(rng, 20)) if rng.random() < 0.7 else [rng.randint(128, 255)] * rng.choice([1, 127, 128, 200])
    return [variant, u64(rng.choice([0, 127, 128, 2 ** 32, 2 ** 64 - 1, rng.getrandbits(64)])), C.norm(what), code, many,
            rng.randint(1, 10)]


def ref_eplan_err(p):
    v, idv, what, code, many, kind = p
    return {1: [1, idv, what], 2: [2, code], 3: [3, many]}.get(v, [4, [kind, what]])


def gen_ws_inner(rng, fn):
    r = rng.random()
    if r < 0.25:
        label = "!" + str(rng.randint(1, 9)) + gen_str(rng, 6)
    elif r < 0.35 and fn == 11:
        label = "?" + gen_str(rng, 6)
    else:
        label = gen_str(rng, 8)
    x = rng.choice([0, 1, -1, 2 ** 31 - 1, -2 ** 31, rng.randint(-2 ** 31, 2 ** 31 - 1)])
    opt = [] if rng.random() < 0.4 else [C.norm(gen_str(rng, 5))]
    return [x, C.norm(label), opt]


def gen_ws(rng):
    fn = rng.choice([0, 0, 0, 0, 1, 2, 3, 4, 5, 5, 6, 7, 8, 9, 10, 10, 11, 11, 12, 13])
    if fn == 13:
        return dict(case=[22, 13], kind="ws-no-upgrade", compare=False)
    n = rng.choice([0, 1, 2, 3, 3, 5, 8])
    items = []
    safe = True
    for k in range(n):
        if fn == 0:
            if rng.random() < 0.75:
                s = glue_input(rng)
                safe = safe and debug_safe(s.encode())
                items.append([0, C.norm(s)])
            else:
                kind, payload = gen_std_err(rng, 1)
                items.append([1, kind, payload])
        elif fn == 12:
            items.append([0, C.norm(rng.choice(["", "p", "pq", "a", gen_str(rng, 4)])), rng.choice([0, 0, 1])])
        elif fn == 11:
            items.append([0, gen_ws_inner(rng, fn)] if rng.random() < 0.7 else [1, gen_eplan(rng)])
        else:
            if rng.random() < 0.75:
                it = gen_ws_inner(rng, fn)
                if fn == 10 and k == 0 and rng.random() < 0.35:
                    it[1] = C.norm("E" + str(rng.randint(1, 9)) + gen_str(rng, 5))
                items.append([0, it])
            else:
                kind, payload = gen_std_err(rng, 0, any_char if rng.random() < 0.3 else safe_char)
                items.append([1, kind, payload])
    sched = [rng.randint(0, 4) for _ in range(rng.choice([1, 1, 2, 3, 5]))]
    take = 0 if (n == 0 or rng.random() < 0.8) else rng.randint(1, n)
    faults = []
    if n and rng.random() < 0.3:
        seen = set()
        for _ in range(rng.choice([1, 1, 2])):
            d, i = rng.choice([0, 1]), rng.randrange(n + 1)
            if (d, i) in seen:
                continue
            seen.add((d, i))
            if rng.random() < 0.5:
                fr = [0, list(rng.choice([b"", b"\xff", b"{", b"null", b"\x00", b"E4x", bytes(rand_bytes(rng, 12))]))]
            else:
                fr = [1, wire_like(rng)]
            safe = safe and debug_safe(fr[1])
            faults.append([d, i, fr])
    return dict(case=[22, fn, items, sched, take, faults, gen_frame(rng)], kind="websocket-" + ("glue" if fn == 0 else "typed"),
                compare=(fn == 0 and safe))


def ref_ws_plan(inner):
    b = bytes(inner[1])
    if len(b) >= 2 and b[0:1] == b"!" and 49 <= b[1] <= 57:
        return [1, [b[1] - 48, list(b[2:])]]
    return [0, [((inner[0] + 1 + 2 ** 31) % 2 ** 32) - 2 ** 31, list(b + b"~"), inner[2]]]


def ref_ws_direct(case):
    fn, items, take = case[1], case[2], case[4]
    out = []
    if fn == 10 and items and items[0][0] == 0:
        b = bytes(items[0][1][1])
        if len(b) >= 2 and b[0:1] == b"E" and 49 <= b[1] <= 57:
            return [1, [b[1] - 48, list(b[2:])]]
    for it in items:
        if fn == 0:
            if it[0] == 0:
                w = ref_body(bytes(it[1]).decode())
                out.append([0, w[1]] if w[0] == "ok" else [1, w[1]])
            else:
                out.append([1, ref_err(1, it[1], it[2])])
        elif fn == 12:
            pad = bytes(it[1])
            out.append([0, [list(pad + b"~"), 1 if (it[2] or pad.startswith(b"p")) else 0]])
        elif fn == 11:
            if it[0] == 1:
                out.append([1, ref_eplan_err(it[1])])
            else:
                b = bytes(it[1][1])
                if len(b) >= 2 and b[0:1] == b"!" and 49 <= b[1] <= 57:
                    out.append([1, [4, [b[1] - 48, list(b[2:])]]])
                elif b[0:1] == b"?":
                    out.append([1, [1, u64(it[1][0] % 2 ** 32), list(b[1:])]])
                else:
                    out.append(ref_ws_plan(it[1]))
        else:
            out.append(ref_ws_plan(it[1]) if it[0] == 0 else [1, ref_err(0, it[1], it[2])])
    if take:
        out = out[:take]
    return [0, out]


def oracle_ws(case, impl):
    fn = case[1]
    if fn == 13:
        status, body = impl
        return None if status == 500 and bytes(body).startswith(b"Response|") else \
            "a plain request to a websocket function on a platform without websockets was not answered with an error response"
    remote, direct, handshake = impl
    if remote and remote[0] == 2:
        return "the remote websocket call never completed: " + C.show_bytes(remote[1])
    want = ref_ws_direct(case)
    if direct != want:
        return "harness: direct websocket call differs from the reference"
    if direct[0] == 1:
        # the body failed before it returned a stream: what a websocket client sees of a failed
        # handshake is transport business; it must be a value
        return None if remote and remote[0] in (0, 1) else "unexpected observation"
    faults = case[5]
    if remote[0] != 0:
        return "the body returned a stream, the remote call returned an error"
    if fn == 10 and faults:
        return None
    r, d = remote[1], direct[1]
    if len(r) != len(d):
        return "the remote stream has %d items, the direct one %d" % (len(r), len(d))
    down = {i: fr for (dr, i, fr) in faults if dr == 1}
    up = {i: fr for (dr, i, fr) in faults if dr == 0}
    for i, (x, y) in enumerate(zip(r, d)):
        if not (isinstance(x, list) and len(x) == 2 and x[0] in (0, 1)):
            return "item %d of the remote stream is not an item" % i
        if i in down or i in up:
            # a replaced frame: whatever it carries must arrive as an item; an error frame as an error item
            fr = down[i] if i in down else up[i]
            if fr[0] == 1 and x[0] != 1:
                return "an error frame did not arrive as an error item"
            continue
        if fn == 12 and (case[2][i][2] or bytes(case[2][i][1]).startswith(b"p")):
            # an item JSON cannot carry: must arrive as an error item, not vanish
            if x[0] != 1:
                return "an item that cannot be encoded arrived as a value"
            continue
        if x != y:
            return "item %d of the remote stream differs from the direct call's (%s)" % (i, WS_FNS[fn])
    return None


def gen_err_string(rng):
    ety = rng.randrange(len(ERR_TYPES))
    r = rng.random()
    if r < 0.45:
        if ety < 2:
            kind, payload = gen_std_err(rng, ety, any_char if rng.random() < 0.3 else safe_char)
            via = 1 if (ety == 0 and rng.random() < 0.3) else 0
            return dict(case=[23, ety, kind, payload, via], kind="error-string-roundtrip")
        return dict(case=[23, ety, gen_eplan(rng), 0, 0], kind="error-string-roundtrip-custom", compare=False)
    if r < 0.7:
        rr = rng.random()
        if rr < 0.4:
            s = b64_mutant(rng, STD64, False)
        elif rr < 0.7:
            try:
                s = bytes(wire_like(rng)).decode("utf-8")
            except UnicodeDecodeError:
                s = text(rng, 8)
        else:
            s = rng.choice(["", "{}", "null", "{\"Code\":7}", "{\"Code\":", "[1,2", "Args|x", "|", "AAAA", "AA", "A"]) + \
                rng.choice(["", "", text(rng, 3)])
        return dict(case=[24, ety, C.norm(s)], kind="error-string-malformed", compare=(ety < 2 and debug_safe(s.encode())))
    if r < 0.85:
        enc = rng.randrange(len(FMT_ENCS))
        if rng.random() < 0.5:
            data = list(text(rng, 10, any_char).encode()) if enc < 3 else list(rand_bytes(rng))
            return dict(case=[25, enc, 0, data], kind="format-type-roundtrip")
        s = text(rng, 8, any_char) if rng.random() < 0.4 else b64_mutant(rng, STD64, False)
        return dict(case=[25, enc, 1, C.norm(s)], kind="format-type-decode")
    # the URL form for every error type
    if ety < 2:
        a, b = gen_std_err(rng, ety, any_char if rng.random() < 0.3 else safe_char)
    else:
        a, b = gen_eplan(rng), 0
    if rng.random() < 0.15:
        pre, q, f = C.norm(rng.choice(REL_BASES)), [], []
    else:
        pre, q, f = gen_base(rng)
    conv = 1 if (ety == 0 and a != 0 and rng.random() < 0.3) else 0
    return dict(case=[26, ety, a, b, C.norm(gen_path(rng)), pre, q, f, conv], kind="url-error-any-type", compare=False)


def oracle_err_string(case, impl):
    op, ety = case[0], case[1]
    if op == 23:
        want = ref_err(ety, case[2], case[3]) if ety < 2 else ref_eplan_err(case[2])
        s, back = impl
        if ety < 2 and bytes(s) != ref_wire(ety, case[2], case[3]):
            return "the string form of a ServerFnError is not its wire form"
        if ety in ERR_BINARY and b64_canonical(bytes(s).decode(), STD64, False) is None:
            return "the string form of a binary-encoded error is not unpadded standard base64"
        return None if back == want else "from_str(to_string(e)) != e: the error did not survive its string form (%s)" % ERR_TYPES[ety]
    if op == 24:
        s = bytes(case[2])
        if ety < 2:
            return check_de(s, impl)
        if ety in ERR_BINARY and b64_canonical(s.decode(), STD64, False) is None:
            return None if (impl[0] == 4 and impl[1][0] == 6) else "a string that is not base64 was not reported as a Deserialization error"
        return None if impl and impl[0] in (1, 2, 3, 4) else "unexpected observation"
    if op == 25:
        import base64 as B
        enc, mode, data = case[1], case[2], bytes(case[3])
        if mode == 0:
            w = data if enc < 3 else B.b64encode(data).rstrip(b"=")
            if bytes(impl[0]) != w:
                return "into_encoded_string is not the text / unpadded standard base64 of the bytes"
            return None if impl[1] == [0, list(data)] else "from_encoded_string(into_encoded_string(b)) != b"
        if enc < 3:
            return None if impl == [0, list(data)] else "a text format did not hand the string's bytes back"
        want = b64_canonical(data.decode(), STD64, False)
        if want is None:
            return None if impl[0] == 1 else "non-canonical base64 accepted"
        return None if impl == [0, list(want)] else "canonical base64 not decoded to its bytes"
    if op == 26:
        _, ety, a, b, path, pre, q, f, conv = case
        want = ref_err(ety, a, b) if ety < 2 else ref_eplan_err(a)
        if conv == 1:
            return None if impl == [-2, ref_err(1, a, b)] else "ServerFnError::from(ServerFnUrlError) lost the error"
        if impl[-1] != [path, want]:
            return "ServerFnUrlError::path()/error() do not return what new() was given"
        if bytes(pre).decode() not in PRE_OK:
            return None if impl[0] == -1 else "to_url accepted a base that is not an absolute URL"
        if impl[0] == -1:
            return "to_url rejected an absolute base URL: " + C.show_bytes(impl[1])
        if impl[1] != [path]:
            return "__path read back from the URL differs from the server function's path"
        if impl[2] != [want]:
            return "error read back from the URL differs: it did not survive the URL-embedded form (%s)" % ERR_TYPES[ety]
        return None if bytes(impl[0]).startswith(bytes(pre)) else "to_url changed the base URL"
    return None


# ---- op 27: a value of every serde representation class
def gen_shape(rng):
    k = rng.randrange(4)
    if k == 0:
        return [0]
    if k == 1:
        return [1, u64(rng.choice([0, -1, 2 ** 63 - 1, -2 ** 63, rng.randint(-2 ** 63, 2 ** 63 - 1)]) % 2 ** 64)]
    if k == 2:
        return [2, rng.choice([0, 127, 128, 255]), C.norm(gen_str(rng, 5))]
    return [3, [] if rng.random() < 0.4 else [rng.choice([0, 255, rng.randint(0, 255)])], list(rand_bytes(rng, 6))]


def gen_zoo(rng):
    keys = sorted({gen_str(rng, 4) for _ in range(rng.choice([0, 1, 2, 3]))}, key=lambda k: k.encode())
    cp = rng.choice([0, 0x41, 0x7F, 0x80, 0xE9, 0x7FF, 0x800, 0x20AC, 0xD7FF, 0xE000, 0xFFFF, 0x10000, 0x1F600, 0x10FFFF])
    fbits = rng.choice([0, 0x80000000, 0x3F800000, 0x3FC00000, 0x00000001, 0x7F7FFFFF, 0xFF7FFFFF, 0x3DCCCCCD, 0x00800000])
    u128 = lambda: [u64(rng.choice([0, 1, 2 ** 64 - 1, rng.getrandbits(64)])), u64(rng.choice([0, 1, 2 ** 64 - 1, rng.getrandbits(64)]))]
    return [gen_shape(rng), [gen_shape(rng) for _ in range(rng.choice([0, 1, 2, 4]))],
            [rng.choice([0, -1, 2 ** 31 - 1, -2 ** 31]), C.norm(gen_str(rng, 5))],
            [[C.norm(k), rng.choice([0, 1, 2 ** 32 - 1, rng.getrandbits(32)])] for k in keys], cp, u128(), u128(), fbits,
            list(rand_bytes(rng, 8)), [0, rng.randint(0, 255)] if rng.random() < 0.5 else [1, C.norm(gen_str(rng, 5))],
            [rng.choice([0, 1, 255, 256, 65535]) for _ in range(3)]]


def ref_zoo(z, fail):
    if fail:
        sh = z[0]
        name = ["Unit", "New", "Tup", "Rec"][sh[0]]
        return None                      # message = Debug of the shape: only remote == direct is judged
    z = list(z)
    z[1] = list(reversed(z[1]))
    z[2] = [((z[2][0] + 1 + 2 ** 31) % 2 ** 32) - 2 ** 31, z[2][1]]
    z[8] = list(reversed(z[8]))
    return [0, z]


# ---- op 28: sizes
def gen_big(rng, fn):
    url = fn in BIG_URL
    cap = 300 if fn in (7, 8) else 4097 if url else 70000
    big_dim = rng.randrange(5)
    def size(i, lo=0):
        if i == big_dim:
            return max(lo, min(cap, rng.choice(SIZES)))
        return max(lo, rng.choice([0, 1, 2, 3]))
    n = size(0)
    if n and rng.random() < 0.5:
        ch = rng.choice(MB)
        j = len(ch.encode())
        segs = [seg(max(0, n - j), "a"), seg(1, ch)] if n >= j else [seg(n, "a")]
    else:
        segs = [seg(n, "a")]
    lo = 1 if url else 0
    nv = size(1, lo)
    if url:
        nv = min(nv, 40 if fn in (7, 8) else 300)
    ni = min(size(2, lo), 40 if fn in (7, 8) else 300 if url else 4097)
    nb = size(3, lo)
    if url:
        nb = min(nb, 40 if fn in (7, 8) else 300)
    ns = min(size(4, lo), 40 if fn in (7, 8) else 300 if url else 4097)
    return [[x for x in segs if x[0] > 0],
            [nv, rng.choice([0, 1, 127, 128, 2 ** 32 - 1]), rng.choice([0, 1, 7, 2 ** 31])],
            [ni, rng.choice([0, 7, 8, 9, 31, 32, 255, 256]) if not url else rng.choice([1, 7, 8, 9])],
            [nb, rng.randint(0, 255)],
            [ns, rng.choice([1, 7, 8, 9, 31, 32, 255, 256]) if not url else rng.choice([1, 8, 9])]]


def ref_big(big):
    segs, (nv, first, step), (ni, ll), (nb, b0), (ns, each) = big
    s = chunk_bytes(segs) + b"~"
    nums = [(first + i * step) % 2 ** 32 for i in range(nv)][::-1]
    hb = b"".join(x.to_bytes(4, "little") for x in nums)
    hi = bytearray()
    for i in reversed(range(ni)):
        hi += (i).to_bytes(4, "little") + b"l" * ll + b"\xff" + (str(i).encode() if i % 2 else b"") + b"\xfe"
    by = bytes(((b0 + i) + 1) % 256 for i in range(nb))
    hs = b"".join(b"s" * (each + i % 2) + b"\xff" for i in range(ns))
    return [0, [[len(s), u64(fnv(s))], [nv, u64(fnv(hb))], [ni, u64(fnv(bytes(hi)))], [nb, u64(fnv(by))], [ns, u64(fnv(hs))]]]


# ------------------------------------------------------------------ op 36: serde representation attributes
SHAPE_FNS = ["json", "cbor", "msgpack", "postcard", "json->msgpack", "msgpack->json", "cbor->postcard", "postcard->cbor",
             "posturl->json", "geturl->cbor", "patchmsgpack->putmsgpack", "patchcbor->putjson", "json->putpostcard"]
SHAPE_NAMES = ["untagged", "internally-tagged", "adjacently-tagged", "flatten", "rename", "default+skip_serializing_if", "with",
               "newtype/unit/tuple structs", "map<u32,_>", "map<struct,_>", "Option<Option<_>>", "Result as data",
               "Cow/Box strings", "Vec<untagged>"]


def _sb(rng):
    """a byte vector: empty, one byte on either side of 128, a short mix, or one longer than 32"""
    return list(rng.choice([b"", b"", b"\x00", b"\x7f", b"\x80", b"\xff", b"\x01\xc8\x00\xff", bytes(rand_bytes(rng, 6)),
                            bytes(rng.randint(0, 255) for _ in range(rng.choice([31, 32, 33, 255, 256])))]))


def _ss(rng):
    return C.norm(rng.choice(["", "", "a", "t", "c", "1", "-1", "null", "true", gen_str(rng, 5)]))


def _i64(rng):
    return u64(rng.choice([0, 1, -1, 127, 128, 255, 256, 2 ** 31, 2 ** 53 + 1, 2 ** 63 - 1, -2 ** 63, rng.randint(-2 ** 63, 2 ** 63 - 1)]) % 2 ** 64)


def _untagged(rng):
    k = rng.randrange(5)
    return [[0, _sb(rng)], [1, _i64(rng)], [2, _ss(rng)], [3, rng.choice([0, 127, 128, 255]), _sb(rng)], [4]][k]


def gen_shape_value(rng, shape=None):
    k = rng.randrange(len(SHAPE_NAMES)) if shape is None else shape
    if k == 0:
        return [0, _untagged(rng)]
    if k == 1:
        return [1] + rng.choice([[0, _sb(rng), u64(rng.choice([0, 1, 2 ** 32, 2 ** 64 - 1]))], [1, _ss(rng)], [2]])
    if k == 2:
        return [2] + rng.choice([[0, _sb(rng)], [1, _i64(rng), _ss(rng)], [2], [3, [] if rng.random() < 0.5 else [rng.choice([0, 255])]]])
    if k == 3:
        keys = sorted({rng.choice(["x", "y", "t", "extra", "k" + str(rng.randint(0, 9))]) for _ in range(rng.choice([0, 0, 1, 2]))},
                      key=lambda s: s.encode())
        return [3, rng.choice([0, 1, 2 ** 32 - 1]), _sb(rng), _ss(rng), [[C.norm(kk), rng.choice([0, 7, 2 ** 32 - 1])] for kk in keys]]
    if k == 4:
        return [4, _ss(rng), _sb(rng), rng.choice([0, 255, 2 ** 32 - 1]), [0] if rng.random() < 0.5 else [1, rng.choice([0, 128, 255])]]
    if k == 5:
        return [5, [] if rng.random() < 0.5 else [rng.choice([0, 1, 2 ** 32 - 1])], _sb(rng), rng.choice([0, 1, 65535]), _ss(rng)]
    if k == 6:
        return [6, _sb(rng), _sb(rng)]
    if k == 7:
        return [7, _sb(rng), u64(rng.choice([0, 255, 2 ** 64 - 1])), rng.choice([0, -1, 127, -128]), _sb(rng), _ss(rng)]
    if k == 8:
        keys = sorted({rng.choice([0, 1, 127, 128, 65536, 2 ** 32 - 1]) for _ in range(rng.choice([0, 1, 2, 3]))})
        return [8, [[kk, _sb(rng)] for kk in keys]]
    if k == 9:
        keys = sorted({rng.choice([0, 1, 128, 255]) for _ in range(rng.choice([0, 1, 2]))})
        return [9, [[kk, rng.choice([0, 255])] for kk in keys]]
    if k == 10:
        return [10] + rng.choice([[0], [1], [2, _sb(rng)]])
    if k == 11:
        return [11, 0, _sb(rng)] if rng.random() < 0.6 else [11, 1, _ss(rng)]
    if k == 12:
        return [12, _ss(rng), _ss(rng), _sb(rng)]
    return [13, [_untagged(rng) for _ in range(rng.choice([0, 1, 2, 3]))]]


def _emp(x):
    return 0 if len(x) == 0 else 1


def _text_class(b):
    """strings the URL / untagged decoders may take for something else"""
    t = bytes(b)
    if t == b"":
        return 0
    try:
        int(t.decode())
        return 2
    except (ValueError, UnicodeDecodeError):
        pass
    return 3 if t in (b"null", b"true", b"false") else 1


def _num_class(pair):
    v = (pair[0] << 32) | pair[1]
    if v >= 2 ** 63:
        return 2                      # negative i64 / above i64::MAX for u64
    return 0 if v < 2 ** 31 else 1


def _untagged_class(u):
    k = u[0]
    if k == 0:
        return (0, _emp(u[1]))
    if k == 1:
        return (1, _num_class(u[1]))
    if k == 2:
        return (2, _text_class(u[1]))
    if k == 3:
        return (3, _emp(u[2]))
    return (4,)


def shape_class(fn, v):
    """what decides whether a codec can carry the value: shape, variant, emptiness of collections / strings, option states,
    coarse number classes.  The table gen/c13_shapes.json says, per class, what the UNCHANGED code does."""
    k = v[0]
    if k == 0:
        f = _untagged_class(v[1])
    elif k == 1:
        f = (v[1],) + ((_emp(v[2]), _num_class(v[3])) if v[1] == 0 else (_text_class(v[2]),) if v[1] == 1 else ())
    elif k == 2:
        f = (v[1],) + ((_emp(v[2]),) if v[1] == 0 else (_num_class(v[2]), _text_class(v[3])) if v[1] == 1 else
                       (len(v[2]),) if v[1] == 3 else ())
    elif k == 3:
        f = (_emp(v[2]), _text_class(v[3]), min(len(v[4]), 2), int(any(bytes(kv[0]) == b"t" for kv in v[4])))
    elif k == 4:
        f = (_text_class(v[1]), _emp(v[2]), v[4][0])
    elif k == 5:
        f = (len(v[1]), _emp(v[2]), int(v[3] != 0), _text_class(v[4]))
    elif k == 6:
        f = (_emp(v[1]), _emp(v[2]))
    elif k == 7:
        f = (_emp(v[1]), _num_class(v[2]), _emp(v[4]), _text_class(v[5]))
    elif k == 8:
        f = (min(len(v[1]), 2), int(any(len(kv[1]) == 0 for kv in v[1])), int(any(len(kv[1]) > 0 for kv in v[1])))
    elif k == 9:
        f = (min(len(v[1]), 2),)
    elif k == 10:
        f = (v[1],) + ((_emp(v[2]),) if v[1] == 2 else ())
    elif k == 11:
        f = (v[1], _emp(v[2]) if v[1] == 0 else _text_class(v[2]))
    elif k == 12:
        f = (_text_class(v[1]), _text_class(v[2]), _emp(v[3]))
    else:
        f = (min(len(v[1]), 2),) + tuple(sorted({_untagged_class(u) for u in v[1]}))
    return "%d/%d/%s" % (fn, k, ",".join(str(x) for x in f).replace(" ", ""))


def _load_shapes():
    import json, os
    path = os.path.join(os.path.dirname(os.path.abspath(__file__)), "c13_shapes.json")
    try:
        d = json.load(open(path))
        return set(d["carried"]), set(d["not_carried"])
    except (OSError, ValueError, KeyError):
        return set(), set()


SHAPES_CARRIED, SHAPES_NOT_CARRIED = _load_shapes()


def gen_shapes(rng):
    fn = rng.randrange(len(SHAPE_FNS))
    return dict(case=[36, fn, gen_shape_value(rng), rng.choice([0, 0, 0, 0, 1]), gen_frame(rng)], kind="serde-attributes", compare=False)


def oracle_shapes(case, impl):
    remote, direct = impl
    want = [1, [4, list(b"refused %d" % case[3])]] if case[3] else [0, case[2]]
    if direct != want:
        return "harness: direct call differs from the reference body"
    if remote == direct:
        return None
    if not (isinstance(remote, list) and remote and remote[0] in (0, 1)):
        return "unexpected observation"
    cls = shape_class(case[1], case[2])
    if cls not in SHAPES_CARRIED:
        # a shape this codec cannot represent on the unchanged code (or a class the baseline never saw): a value, no panic
        return None
    return "remote call result differs from the direct call (%s through %s, class %s)" % (SHAPE_NAMES[case[2][0]], SHAPE_FNS[case[1]], cls)


def _valid_untagged(u):
    if not (isinstance(u, list) and u and u[0] in range(5)):
        return False
    k = u[0]
    return ((k == 0 and len(u) == 2 and _is_bytes(u[1])) or (k == 1 and len(u) == 2 and _valid_u64(u[1]))
            or (k == 2 and len(u) == 2 and _is_text(u[1])) or (k == 3 and len(u) == 3 and u[1] in range(256) and _is_bytes(u[2]))
            or (k == 4 and len(u) == 1))


def valid_shape_value(v):
    if not (isinstance(v, list) and v and v[0] in range(len(SHAPE_NAMES))):
        return False
    k = v[0]
    u32 = lambda x: isinstance(x, int) and 0 <= x < 2 ** 32
    if k == 0:
        return len(v) == 2 and _valid_untagged(v[1])
    if k == 1:
        return ((v[1] == 0 and len(v) == 4 and _is_bytes(v[2]) and _valid_u64(v[3])) or (v[1] == 1 and len(v) == 3 and _is_text(v[2]))
                or (v[1] == 2 and len(v) == 2))
    if k == 2:
        return ((v[1] == 0 and len(v) == 3 and _is_bytes(v[2])) or (v[1] == 1 and len(v) == 4 and _valid_u64(v[2]) and _is_text(v[3]))
                or (v[1] == 2 and len(v) == 2) or (v[1] == 3 and len(v) == 3 and _is_opt(v[2], lambda x: x in range(256))))
    if k == 3:
        keys = [bytes(kv[0]) for kv in v[4]]
        return (len(v) == 5 and u32(v[1]) and _is_bytes(v[2]) and _is_text(v[3]) and keys == sorted(set(keys))
                and all(_is_text(kv[0]) and u32(kv[1]) and bytes(kv[0]) not in (b"id", b"b", b"name") for kv in v[4]))
    if k == 4:
        return (len(v) == 5 and _is_text(v[1]) and _is_bytes(v[2]) and u32(v[3])
                and (v[4] == [0] or (len(v[4]) == 2 and v[4][0] == 1 and v[4][1] in range(256))))
    if k == 5:
        return len(v) == 5 and _is_opt(v[1], u32) and _is_bytes(v[2]) and v[3] in range(65536) and _is_text(v[4])
    if k == 6:
        return len(v) == 3 and _is_bytes(v[1]) and _is_bytes(v[2])
    if k == 7:
        return len(v) == 6 and _is_bytes(v[1]) and _valid_u64(v[2]) and v[3] in range(-128, 128) and _is_bytes(v[4]) and _is_text(v[5])
    if k == 8:
        keys = [kv[0] for kv in v[1]]
        return len(v) == 2 and keys == sorted(set(keys)) and all(u32(kv[0]) and _is_bytes(kv[1]) for kv in v[1])
    if k == 9:
        keys = [kv[0] for kv in v[1]]
        return len(v) == 2 and keys == sorted(set(keys)) and all(kv[0] in range(256) and kv[1] in range(256) for kv in v[1])
    if k == 10:
        return (v[1] in (0, 1) and len(v) == 2) or (v[1] == 2 and len(v) == 3 and _is_bytes(v[2]))
    if k == 11:
        return len(v) == 3 and ((v[1] == 0 and _is_bytes(v[2])) or (v[1] == 1 and _is_text(v[2])))
    if k == 12:
        return len(v) == 4 and _is_text(v[1]) and _is_text(v[2]) and _is_bytes(v[3])
    return len(v) == 2 and all(_valid_untagged(u) for u in v[1])


def learn_shapes(n=120000, seed=7, harness=None):
    """Rebuild gen/c13_shapes.json from the behaviour of the tree the harness binary was built from (run it on the UNCHANGED
    /repo only): a class is 'carried' when every sampled value of it came back equal to the direct call, 'not_carried' when
    at least one did not.  `python3 -c "from gen import c13; c13.learn_shapes()"` after `./check C13` has built the harness."""
    import json, os, random, subprocess
    harness = harness or os.path.join(C.ROOT if hasattr(C, "ROOT") else "/verif", ".build/target/serverfn/release/h_serverfn")
    rng = random.Random(seed)
    items = []
    for fn in range(len(SHAPE_FNS)):
        for shape in range(len(SHAPE_NAMES)):
            for _ in range(n // (len(SHAPE_FNS) * len(SHAPE_NAMES))):
                items.append([36, fn, gen_shape_value(rng, shape), 0, gen_frame(rng)])
    out = subprocess.run([harness, "c13"], input="\n".join(C.sx(c) for c in items) + "\n", capture_output=True, text=True).stdout.splitlines()
    assert len(out) == len(items)
    good, bad = {}, {}
    for c, o in zip(items, out):
        cls = shape_class(c[1], c[2])
        impl = C.parse_sx(o) if not o.startswith("!") else None
        ok = impl is not None and impl[0] == impl[1]
        (good if ok else bad)[cls] = (good if ok else bad).get(cls, 0) + 1
    mixed = sorted(k for k in good if k in bad)
    carried = sorted(k for k in good if k not in bad)
    not_carried = sorted(bad)
    path = os.path.join(os.path.dirname(os.path.abspath(__file__)), "c13_shapes.json")
    json.dump({"comment": "op 36 baseline: which (function/shape/features) classes the unchanged /repo carries unchanged; written by "
                          "gen.c13.learn_shapes()", "carried": carried, "not_carried": not_carried, "mixed": mixed},
              open(path, "w"), indent=0)
    return len(carried), len(not_carried), mixed


def gen_audit(rng):
    if rng.random() < 0.12:
        return gen_shapes(rng)
    r = rng.random()
    if r < 0.22:
        return gen_ws(rng)
    if r < 0.42:
        return gen_err_string(rng)
    if r < 0.50:
        return dict(case=[27, rng.randrange(len(ZOO_FNS)), gen_zoo(rng), rng.choice([0, 0, 0, 1]), gen_frame(rng)],
                    kind="value-classes", compare=False)
    if r < 0.56:
        fn = rng.randrange(len(BIG_FNS))
        return dict(case=[28, fn, gen_big(rng, fn), gen_frame(rng)], kind="size-boundaries", compare=False)
    if r < 0.62:
        s = rng.choice(["deny", "x deny y", "den", "DENY", "!deny", "!" + gen_str(rng, 4), gen_str(rng, 8), gen_str(rng, 4) + "deny"])
        return dict(case=[29, rng.choice([0, 1]), C.norm(s), rng.choice([0, 1, 2 ** 32 - 1, rng.getrandbits(32)]), gen_frame(rng)],
                    kind="middleware", compare=False)
    if r < 0.72:
        s = rng.choice(["!" + gen_str(rng, 4), gen_str(rng, 8), gen_str(rng, 8), ""])
        return dict(case=[30, rng.randrange(len(OPT_NAMES)), C.norm(s), rng.choice([0, 1, 255, 256, 2 ** 32 - 1, rng.getrandbits(32)]),
                          gen_frame(rng)], kind="macro-options", compare=False)
    if r < 0.88:
        return gen_axum(rng)
    if r < 0.92:
        items = []
        for _ in range(rng.choice([0, 1, 2, 3, 5])):
            if rng.random() < 0.3:
                items.append([rng.randint(1, 9), [seg(1, gen_str(rng, 8))]])
            else:
                items.append([0, gen_byte_chunk(rng)])
        return dict(case=[33, items, [rng.choice(RECHUNK_SIZES), rng.choice(RECHUNK_SIZES)]], kind="byte-stream-error-items",
                    compare=False)
    if r < 0.96:
        chunks = []
        for k in range(rng.choice([0, 1, 2, 3, 5])):
            rr = rng.random()
            if rr < 0.2:
                chunks.append([seg(1, "!" + str(rng.randint(1, 9)) + gen_str(rng, 8))])
            elif rr < 0.35:
                chunks.append([seg(1, "?" + gen_str(rng, 8))])
            elif rr < 0.4 and k == 0:
                chunks.append([seg(1, "E!" + gen_str(rng, 3))])
            else:
                chunks.append(gen_text_chunk(rng))
        return dict(case=[34, chunks, [rng.choice(RECHUNK_SIZES), rng.choice(RECHUNK_SIZES)]], kind="text-stream-custom-error",
                    compare=False)
    if rng.random() < 0.6:
        s = rng.choice(["0", "-0", "+7", "9223372036854775807", "-9223372036854775808", "9223372036854775808", "", "+", "-",
                        " 1", "1 ", "12a", gen_str(rng, 5), str(rng.randint(-10 ** 20, 10 ** 20))])
        return dict(case=[35, 0, rng.choice([0, 0, 1, 2]), C.norm(s)], kind="question-mark-errors", compare=False)
    return dict(case=[35, 1, rng.choice([0, 1, 2]), rng.randint(0, 255)], kind="question-mark-errors", compare=False)


def gen_val_url_ok(rng):
    """a Val the URL codecs can carry (outside the known class F-C13-e: no empty vectors, no Some(""))"""
    while True:
        v = gen_val(rng)
        inners = [v[6]] + v[7] + v[9]
        if v[7] and v[8] and all(i[2] != [[]] for i in inners):
            return v


def gen_axum(rng):
    w = rng.choice([0, 0, 1, 1, 2, 3, 3, 4, 5, 6, 7, 8, 8, 8, 9, 9])
    if w == 9:
        s = rng.choice(["!" + gen_str(rng, 5), "!", gen_str(rng, 6)])
        if "deny" in s:
            s = "x"
        pre, q, f = gen_base(rng)
        return dict(case=[31, 8, C.norm(s), rng.getrandbits(32), pre, q, f], kind="axum-form-redirect-custom-error", compare=False)
    rc = [rng.choice(RECHUNK_SIZES), rng.choice(RECHUNK_SIZES)]
    if w <= 2:
        v = gen_val_url_ok(rng) if w == 2 else gen_val(rng)
        return dict(case=[31, w, v, gen_plan(rng), gen_frame(rng), rc], kind="axum-remote-vs-direct", compare=False)
    if w == 3:
        s = rng.choice(["deny", "a deny", "den", "!x", gen_str(rng, 6)])
        return dict(case=[31, 3, C.norm(s), rng.getrandbits(32)], kind="axum-tower-middleware", compare=False)
    if w == 4:
        return dict(case=[31, 4, [gen_text_chunk(rng) for _ in range(rng.choice([0, 1, 2, 3]))], rc], kind="axum-text-stream",
                    compare=False)
    if w == 5:
        return dict(case=[31, 5, [gen_byte_chunk(rng) for _ in range(rng.choice([0, 1, 2, 3]))], rc], kind="axum-byte-stream",
                    compare=False)
    if w == 6:
        ct = MP_CTS[0] if rng.random() < 0.35 else rng.choice(MP_CTS)
        body = MP_OK_BODY
        rr = rng.random()
        if rr < 0.3:
            body = body[:rng.randint(0, len(body))]
        elif rr < 0.5:
            i = rng.randrange(len(body))
            body = body[:i] + bytes([body[i] ^ rng.choice([1, 32, 128])]) + body[i + 1:]
        return dict(case=[31, 6, [] if rng.random() < 0.1 else [list(ct)], list(body), rc], kind="axum-multipart", compare=False)
    if w == 7:
        # (a route of the *other* backend is not asked for: the inventory registry is one static shared by all
        # request/response types, so the axum handler would call a loopback function's handler with its own request type)
        return dict(case=[31, 7, C.norm(rng.choice(["nope", "ax_json", "", "ax_"]))], kind="axum-registry", compare=False)
    # the glue function on the axum backend: compared with the model
    data = list(glue_input(rng).encode()) if rng.random() < 0.75 else wire_like(rng)
    acc = rng.choice(ACCEPTS)
    acc = [] if acc is None else [C.norm(acc)]
    rr = rng.random()
    if rr < 0.25:
        ref = []
    elif rr < 0.8:
        pre, q, f = gen_base(rng)
        ref = [1, pre, q, f]
    else:
        raw = rng.choice(RAW_REFERERS).encode()
        if rng.random() < 0.15:
            raw = raw + rng.choice([b"\xff", b"\xc3", b"\xe2\x82"])
        ref = [2, list(raw)]
    return dict(case=[32, data, acc, ref, rc], kind="axum-glue-server", compare=debug_safe(data))


def oracle_audit(case, impl):
    op = case[0]
    if op == 36:
        return oracle_shapes(case, impl)
    if op == 22:
        return oracle_ws(case, impl)
    if op in (23, 24, 25, 26):
        return oracle_err_string(case, impl)
    if op == 27:
        remote, direct = impl
        want = ref_zoo(case[2], case[3])
        if want is not None and direct != want:
            return "harness: direct call differs from the reference body"
        if want is None and direct[0] != 1:
            return "harness: direct call should have failed"
        return None if remote == direct else "remote call result differs from the direct call (value classes, %s)" % ZOO_FNS[case[1] % len(ZOO_FNS)]
    if op == 28:
        remote, direct = impl
        if direct != ref_big(case[2]):
            return "harness: direct call differs from the reference body"
        return None if remote == direct else "remote call result differs from the direct call (sizes, %s)" % BIG_FNS[case[1] % len(BIG_FNS)]
    if op == 29:
        remote, direct, log = impl
        s, n = bytes(case[2]), case[3]
        want = [1, [4, list(s)]] if s.startswith(b"!") else [0, list(s + b"/" + str(n).encode())]
        if case[1] == 1 and s.startswith(b"!"):
            want = [1, [1, u64(n), list(s)]]
        if direct != want:
            return "harness: direct call differs from the reference body"
        if b"deny" in s:
            e = remote[1] if remote[0] == 1 else None
            if case[1] == 1 and e is not None:
                e = e[1] if e[0] == 4 else None
            if not (e and e[0] == 5 and bytes(e[1]).startswith(b"denied at byte ") and bytes(e[1]).endswith(b" | by the gate")):
                return "the middleware's refusal did not reach the client as its MiddlewareError"
            return None
        return None if remote == direct else "remote call (through the middleware layers) differs from the direct call"
    if op == 30:
        import re
        remote, direct, path, url = impl
        fn, s, n = case[1], bytes(case[2]), case[3]
        if fn in (10, 11):
            want = [0, list(s), len(s)]
        elif fn == 13:
            want = [0, n, list(s), n % 256, list(s), 0, list(s), list(reversed(s))]
        elif fn == 14:
            want = [0, n, list(s), list(s)]
        elif fn == 15 and s.startswith(b"!"):
            want = [1, [1, u64(n), list(s)]]
        elif fn == 16 and s.startswith(b"!"):
            want = [1, [8, list(s)]]
        else:
            want = [0, list(s), (n + 1) % 2 ** 32]
        if direct != want:
            return "harness: direct call differs from the reference body"
        # (PATH / url() are printed for the replay; their shape is not part of the property)
        return None if remote == direct else "remote call result differs from the direct call (%s)" % OPT_NAMES[fn]
    if op == 31:
        w = case[1]
        if w <= 2:
            remote, direct = impl
            if direct != ref_typed_body(case[2], case[3]):
                return "harness: direct call differs from the reference body"
            return None if remote == direct else "remote call through the axum backend differs from the direct call"
        if w == 3:
            remote, direct = impl
            s, n = bytes(case[2]), case[3]
            want = [1, [1, u64(n), list(s)]] if s.startswith(b"!") else [0, list(s + b"/" + str(n).encode())]
            if direct != want:
                return "harness: direct call differs from the reference body"
            if b"deny" in s:
                ok = remote[0] == 1 and remote[1][0] == 4 and remote[1][1][0] == 5 and bytes(remote[1][1][1]).endswith(b"denied | by tower")
                return None if ok else "the tower layer's error did not reach the client as a MiddlewareError"
            return None if remote == direct else "remote call through the tower layer differs from the direct call"
        if w in (4, 5):
            remote, direct = impl
            chunks = [chunk_bytes(ch) for ch in case[2]]
            want = [0, ref_runs([((ch.upper() if w == 4 else ch), None) for ch in chunks])]
            if direct != want:
                return "harness: direct stream call differs from the reference"
            return None if remote == direct else "remote stream through the axum backend differs from the direct call (re-chunk %r)" % (case[3],)
        if w == 6:
            return oracle_typed([12, case[2], case[3]], impl)
        if w == 8:
            import urllib.parse as U
            status, back, direct, loc = impl
            s, n, pre, q, f = bytes(case[2]), case[3], case[4], case[5], case[6]
            if status != 302 or not loc:
                return "HTML form request was not redirected"
            target = bytes(loc[0]).decode()
            if not target.startswith(bytes(pre).decode()):
                return "redirect target is not the referer URL"
            rest = target[len(bytes(pre)):].split("#", 1)[0]
            pairs = U.parse_qsl(rest[1:] if rest.startswith("?") else rest, keep_blank_values=True, errors="replace")
            before = U.parse_qsl(bytes(q[0]).decode(), keep_blank_values=True, errors="replace") if q else []
            if s.startswith(b"!"):
                want = [1, u64(n), list(s)]
                if direct != [1, want]:
                    return "harness: direct call differs from the reference body"
                if back != [[list(b"/api/ax_mw")], [want]]:
                    return "the (Cbor-encoded) error embedded in the redirect URL is not the error the body returned"
                return None
            keep = [(k, v) for (k, v) in before if k not in ("__err", "__path")]
            return None if pairs == keep else "stale error info not stripped from the referer (or other pairs changed)"
        if w == 7:
            paths, status = impl
            if sorted(bytes(p).decode() for p in paths) != AX_PATHS:
                return "server_fn_paths() does not list each axum function once"
            return None if status == 400 else "an unknown route was not answered with 400"
        return None
    if op == 32:
        res, loop = impl
        msg = oracle_glue([8, case[1], case[2], case[3], 3], res)
        if msg:
            return msg
        try:
            t = bytes(case[1]).decode("utf-8")
        except UnicodeDecodeError:
            return None if loop == [] else "unexpected loopback observation"
        want = ref_body(t)
        want = [0, want[1]] if want[0] == "ok" else [1, want[1]]
        if loop[1] != want:
            return "harness: direct call differs from the reference body"
        return None if loop[0] == loop[1] else "remote call through the axum backend differs from the direct call"
    if op == 33:
        remote, direct = impl
        items = []
        for kind, ch in case[1]:
            b = chunk_bytes(ch)
            items.append((b, None) if kind == 0 else (None, [kind, list(b)]))
        if direct != [0, ref_runs(items)]:
            return "harness: direct stream call differs from the reference"
        return None if remote == direct else "remote byte stream (with error items) differs from the direct call"
    if op == 34:
        remote, direct = impl
        chunks = [chunk_bytes(ch) for ch in case[1]]
        if chunks and chunks[0].startswith(b"E!"):
            want = [1, [2, len(chunks)]]
        else:
            items = []
            for b in chunks:
                if len(b) >= 2 and b[0:1] == b"!" and 49 <= b[1] <= 57:
                    items.append((None, [4, [b[1] - 48, list(b[2:])]]))
                elif b[0:1] == b"?":
                    items.append((None, [1, u64(len(b)), list(b[1:])]))
                else:
                    items.append((b.upper(), None))
            want = [0, ref_runs(items)]
        if direct != want:
            return "harness: direct stream call differs from the reference"
        return None if remote == direct else "remote text stream with a custom error type differs from the direct call"
    if op == 35:
        import re
        remote, direct = impl
        if case[1] == 0:
            how, s = case[2], bytes(case[3])
            if how == 0:
                t = s.decode()
                ok = re.fullmatch(r"[+-]?[0-9]+", t) is not None and -2 ** 63 <= int(t) < 2 ** 63
                if ok and direct != [0, u64(int(t) % 2 ** 64)]:
                    return "harness: direct call differs from the reference body"
                if not ok and not (direct[0] == 1 and direct[1][0] == 4):
                    return "harness: `?` on a parse error did not become a ServerError"
            elif how == 1:
                if direct != [1, [4, list(b"boom: " + s)]]:
                    return "harness: ServerFnError::new did not build a ServerError of the message"
            elif direct != [0, u64(len(s))]:
                return "harness: direct call differs from the reference body"
        else:
            how, n = case[2], case[3]
            want = [1, [0, list(str(n).encode())]] if how in (0, 1) else [0, u64(n)]
            if direct != want:
                return "harness: direct call differs from the reference body"
        return None if remote == direct else "remote call result differs from the direct call (error built by `?` / constructors)"
    return None


def _valid_eplan(p):
    return (isinstance(p, list) and len(p) == 6 and p[0] in range(5) and _valid_u64(p[1]) and _is_text(p[2])
            and isinstance(p[3], int) and 0 <= p[3] < 2 ** 32 and _is_bytes(p[4]) and p[5] in range(1, 11))


def _valid_std_err(cust, kind, payload):
    if kind not in range(10):
        return False
    if kind == 0:
        return payload == [] if cust == 0 else (_is_bytes(payload) and len(payload) == 1)
    return _is_text(payload)


def _valid_segs(ch, textual=False):
    if not all(isinstance(sg, list) and len(sg) == 2 and isinstance(sg[0], int) and 0 <= sg[0] <= 200000 and _is_bytes(sg[1])
               for sg in ch):
        return False
    b = chunk_bytes(ch)
    return len(b) <= 300000 and (not textual or _is_text(list(b)))


def _valid_shape(s):
    if not (isinstance(s, list) and s and s[0] in range(4)):
        return False
    if s[0] == 0:
        return len(s) == 1
    if s[0] == 1:
        return len(s) == 2 and _valid_u64(s[1])
    if s[0] == 2:
        return len(s) == 3 and s[1] in range(256) and _is_text(s[2])
    return len(s) == 3 and _is_opt(s[1], lambda x: x in range(256)) and _is_bytes(s[2])


def valid_audit(c):
    op = c[0]
    if op == 36:
        return (len(c) == 5 and c[1] in range(len(SHAPE_FNS)) and valid_shape_value(c[2]) and c[3] in (0, 1) and _valid_frame(c[4]))
    if op == 22:
        if c[1] == 13:
            return len(c) == 2
        if len(c) != 7 or c[1] not in range(13) or not _valid_frame(c[6]):
            return False
        fn, items, sched, take, faults = c[1], c[2], c[3], c[4], c[5]
        for it in items:
            if fn == 0:
                ok = (it[0] == 0 and len(it) == 2 and _is_text(it[1])) or (it[0] == 1 and len(it) == 3 and _valid_std_err(1, it[1], it[2]))
            elif fn == 12:
                ok = it[0] == 0 and len(it) == 3 and _is_text(it[1]) and it[2] in (0, 1)
            elif fn == 11:
                ok = (it[0] == 0 and len(it) == 2 and _valid_inner(it[1])) or (it[0] == 1 and len(it) == 2 and _valid_eplan(it[1]) and it[1][0] in (1, 2, 3, 4))
            else:
                ok = (it[0] == 0 and len(it) == 2 and _valid_inner(it[1])) or (it[0] == 1 and len(it) == 3 and _valid_std_err(0, it[1], it[2]))
            if not ok:
                return False
        if not (sched and all(isinstance(x, int) and 0 <= x <= 4 for x in sched) and isinstance(take, int) and 0 <= take <= len(items)):
            return False
        seen = set()
        for f in faults:
            if not (len(f) == 3 and f[0] in (0, 1) and isinstance(f[1], int) and 0 <= f[1] <= len(items) and (f[0], f[1]) not in seen
                    and len(f[2]) == 2 and f[2][0] in (0, 1) and _is_bytes(f[2][1])):
                return False
            seen.add((f[0], f[1]))
        return True
    if op == 23:
        if len(c) != 5 or c[1] not in range(8):
            return False
        if c[1] < 2:
            return _valid_std_err(c[1], c[2], c[3]) and c[4] in ((0, 1) if c[1] == 0 else (0,))
        return _valid_eplan(c[2]) and c[2][0] in (1, 2, 3, 4) and c[3] == 0 and c[4] == 0
    if op == 24:
        return len(c) == 3 and c[1] in range(8) and _is_text(c[2])
    if op == 25:
        if len(c) != 4 or c[1] not in range(7) or c[2] not in (0, 1):
            return False
        return _is_text(c[3]) if (c[2] == 1 or c[1] < 3) else _is_bytes(c[3])
    if op == 26:
        if len(c) != 9 or c[1] not in range(8) or c[8] not in (0, 1):
            return False
        ety, a, b, path, pre, q, f, conv = c[1:]
        if ety < 2:
            if not _valid_std_err(ety, a, b):
                return False
        elif not (_valid_eplan(a) and a[0] in (1, 2, 3, 4) and b == 0):
            return False
        if conv == 1 and not (ety == 0 and a != 0):
            return False
        if not _is_text(path):
            return False
        if bytes(pre).decode() in REL_BASES:
            return q == [] and f == []
        return valid_case(dict(case=[6, pre, q, f]))
    if op == 27:
        if len(c) != 5 or c[1] not in range(len(ZOO_FNS)) or c[3] not in (0, 1) or not _valid_frame(c[4]):
            return False
        z = c[2]
        if not (isinstance(z, list) and len(z) == 11 and _valid_shape(z[0]) and all(_valid_shape(x) for x in z[1])):
            return False
        keys = [bytes(kv[0]) for kv in z[3]]
        f = z[7]
        return (isinstance(z[2][0], int) and -2 ** 31 <= z[2][0] < 2 ** 31 and _is_text(z[2][1])
                and all(_is_text(kv[0]) and 0 <= kv[1] < 2 ** 32 for kv in z[3]) and keys == sorted(set(keys))
                and isinstance(z[4], int) and 0 <= z[4] <= 0x10FFFF and not 0xD800 <= z[4] <= 0xDFFF
                and all(_valid_u64(h) for h in z[5] + z[6]) and len(z[5]) == 2 and len(z[6]) == 2
                and isinstance(f, int) and 0 <= f < 2 ** 32 and (f >> 23) & 0xFF != 0xFF and _is_bytes(z[8])
                and ((z[9][0] == 0 and z[9][1] in range(256)) or (z[9][0] == 1 and _is_text(z[9][1])))
                and len(z[10]) == 3 and all(x in range(65536) for x in z[10]))
    if op == 28:
        if len(c) != 4 or c[1] not in range(len(BIG_FNS)) or not _valid_frame(c[3]):
            return False
        segs, nums, items, by, strs = c[2]
        url = c[1] in BIG_URL
        lo = 1 if url else 0
        cap = 40 if c[1] in (7, 8) else 300 if url else 70000
        if not _valid_segs(segs, True) or len(chunk_bytes(segs)) > (300 if c[1] in (7, 8) else 4097 if url else 70000):
            return False
        return (len(nums) == 3 and lo <= nums[0] <= cap and 0 <= nums[1] < 2 ** 32 and 0 <= nums[2] < 2 ** 32
                and len(items) == 2 and lo <= items[0] <= min(cap, 4097) and 0 <= items[1] <= 256 and (not url or items[1] >= 1)
                and len(by) == 2 and lo <= by[0] <= cap and by[1] in range(256)
                and len(strs) == 2 and lo <= strs[0] <= min(cap, 4097) and 0 <= strs[1] <= 256 and (not url or strs[1] >= 1))
    if op == 29:
        return len(c) == 5 and c[1] in (0, 1) and _is_text(c[2]) and isinstance(c[3], int) and 0 <= c[3] < 2 ** 32 and _valid_frame(c[4])
    if op == 30:
        return (len(c) == 5 and c[1] in range(len(OPT_NAMES)) and _is_text(c[2]) and isinstance(c[3], int) and 0 <= c[3] < 2 ** 32
                and _valid_frame(c[4]))
    if op == 31:
        w = c[1]
        rc_ok = lambda rc: isinstance(rc, list) and len(rc) == 2 and all(x in RECHUNK_SIZES for x in rc)
        if w in (0, 1, 2):
            if not (len(c) == 6 and _valid_val(c[2]) and c[3][0] in range(11) and _is_text(c[3][1]) and _valid_frame(c[4]) and rc_ok(c[5])):
                return False
            if w == 2:
                v = c[2]
                return bool(v[7]) and bool(v[8]) and all(i[2] != [[]] for i in [v[6]] + v[7] + v[9])
            return True
        if w == 3:
            return len(c) == 4 and _is_text(c[2]) and isinstance(c[3], int) and 0 <= c[3] < 2 ** 32
        if w in (4, 5):
            return len(c) == 4 and rc_ok(c[3]) and all(_valid_segs(ch, w == 4) for ch in c[2])
        if w == 6:
            return len(c) == 5 and _is_opt(c[2], _is_header) and _is_bytes(c[3]) and rc_ok(c[4])
        if w == 8:
            return (len(c) == 7 and _is_text(c[2]) and b"deny" not in bytes(c[2]) and isinstance(c[3], int) and 0 <= c[3] < 2 ** 32
                    and valid_case(dict(case=[6, c[4], c[5], c[6]])))
        return w == 7 and len(c) == 3 and _is_text(c[2]) and all(chr(x).isalnum() or x == 95 for x in c[2])
    if op == 32:
        if not (len(c) == 5 and isinstance(c[4], list) and len(c[4]) == 2 and all(x in RECHUNK_SIZES for x in c[4])):
            return False
        return valid_case(dict(case=[8, c[1], c[2], c[3]]))
    if op == 33:
        return (len(c) == 3 and len(c[2]) == 2 and all(x in RECHUNK_SIZES for x in c[2])
                and all(len(i) == 2 and i[0] in range(10) and _valid_segs(i[1], i[0] != 0) for i in c[1]))
    if op == 34:
        return len(c) == 3 and len(c[2]) == 2 and all(x in RECHUNK_SIZES for x in c[2]) and all(_valid_segs(ch, True) for ch in c[1])
    if op == 35:
        if len(c) != 4 or c[1] not in (0, 1) or c[2] not in (0, 1, 2):
            return False
        return _is_text(c[3]) if c[1] == 0 else c[3] in range(256)
    return False


def describe_audit(case):
    op = case[0]
    if op == 36:
        return "a_%s(%s value %r, fail=%d) frames=%r [class %s]: remote vs direct" % (
            SHAPE_FNS[case[1]], SHAPE_NAMES[case[2][0]], case[2], case[3], case[4], shape_class(case[1], case[2]))
    if op == 22:
        if case[1] == 13:
            return "plain GET (no upgrade) to the websocket function ws_json on the generic platform"
        return "websocket fn ws_%s: input items %r, schedule %r, take %r, frames replaced in flight (direction index frame) %r, frame offsets %r: remote stream vs direct" % (
            WS_FNS[case[1]], case[2], case[3], case[4], case[5], case[6])
    if op == 23:
        return "ServerFnErrorWrapper(%s from %r %r).to_string() then from_str()%s" % (
            ERR_TYPES[case[1]], case[2], case[3], " via throw_error::Error::from" if case[4] else "")
    if op == 24:
        return "ServerFnErrorWrapper::<%s>::from_str(%r)" % (ERR_TYPES[case[1]], C.show_bytes(case[2]))
    if op == 25:
        return "%s::%s(%r)" % (FMT_ENCS[case[1]], ["into_encoded_string then from_encoded_string", "from_encoded_string"][case[2]], C.bs(case[3]))
    if op == 26:
        base = C.show_bytes(case[5]) + ("?" + C.show_bytes(case[6][0]) if case[6] else "") + ("#" + C.show_bytes(case[7][0]) if case[7] else "")
        return "ServerFnUrlError::new(%r, %s from %r %r)%s.to_url(%r), then read __path/__err back" % (
            C.show_bytes(case[4]), ERR_TYPES[case[1]], case[2], case[3], " -> ServerFnError::from" if case[8] else "", base)
    if op == 27:
        return "z_%s(zoo=%r, fail=%r) frames=%r: remote vs direct" % (ZOO_FNS[case[1]], case[2], case[3], case[4])
    if op == 28:
        return "b_%s(Big described by run lengths: string segments %r, nums (n first step) %r, items (n label-length) %r, bytes (n first) %r, strs (n each-length) %r) frames=%r: remote vs direct" % (
            BIG_FNS[case[1]], [(n, C.bs(u)) for (n, u) in case[2][0]], case[2][1], case[2][2], case[2][3], case[2][4], case[3])
    if op == 29:
        return "%s(%r, %d) behind its middleware layers, frames=%r: remote vs direct" % (["mw_json", "mw_geturl"][case[1]], C.show_bytes(case[2]), case[3], case[4])
    if op == 30:
        return "%s(%r, %d) frames=%r: remote vs direct, PATH" % (OPT_NAMES[case[1]], C.show_bytes(case[2]), case[3], case[4])
    if op == 31:
        w = case[1]
        if w <= 2:
            return "%s(v=%r, plan=%r) frames=%r request/response cut at %r, on the axum backend: remote vs direct" % (
                ["ax_json", "ax_rkyv", "ax_geturl"][w], case[2], (case[3][0], C.show_bytes(case[3][1])), case[4], case[5])
        if w == 3:
            return "ax_mw(%r, %d) behind a tower layer: remote vs direct" % (C.show_bytes(case[2]), case[3])
        if w in (4, 5):
            return "%s(chunks %r) cut at %r on the axum backend: remote vs direct" % (
                ["ax_echo_text", "ax_emit_bytes"][w - 4], [[(n, C.bs(u)) for (n, u) in ch] for ch in case[2]], case[3])
        if w == 8:
            return "browser form GET ax_mw(%r, %d) with Accept: text/html, Referer %r: the redirect URL must carry the body's (Cbor-encoded) error" % (
                C.show_bytes(case[2]), case[3],
                C.show_bytes(case[4]) + ("?" + C.show_bytes(case[5][0]) if case[5] else "") + ("#" + C.show_bytes(case[6][0]) if case[6] else ""))
        if w == 6:
            return "POST ax_upload Content-Type=%r body=%r cut at %r" % ([C.bs(x) for x in case[2]], C.bs(case[3]), case[4])
        return "server_fn::axum::server_fn_paths() and handle_server_fn on the unknown route /api/%s" % C.show_bytes(case[2])
    if op == 32:
        return "axum backend: " + str(describe(dict(case=[8, case[1], case[2], case[3]]))) + " (POST /api/ax_glue, body cut at %r), and the whole loop" % (case[4],)
    if op == 33:
        return "emit_items(%r) re-chunk %r: byte stream with error items, remote vs direct" % (
            [(k, [(n, C.bs(u)) for (n, u) in ch]) for (k, ch) in case[1]], case[2])
    if op == 34:
        return "text_out_app(chunks %r) re-chunk %r: TextStream<AppErrJson>, remote vs direct" % (
            [[(n, C.bs(u)) for (n, u) in ch] for ch in case[1]], case[2])
    if op == 35:
        return ("q_std(how=%d, %r)" % (case[2], C.show_bytes(case[3])) if case[1] == 0 else "q_code(how=%d, %d)" % (case[2], case[3])) + \
            ": body failing through `?` / constructors, remote vs direct"
    return None


def generate(rng, tier):
    n = 6000 if tier == "quick" else 100000
    for _ in range(n):
        r0 = rng.random()
        if r0 < 0.20:
            yield gen_glue(rng)
            continue
        if r0 < 0.45:
            yield gen_typed(rng)
            continue
        if r0 < 0.70:
            yield gen_audit(rng)
            continue
        r = rng.random()
        if r < 0.22:
            cust, kind, payload = gen_err(rng)
            yield dict(case=[0, cust, kind, payload], kind="err-ser-de")
        elif r < 0.27:
            cust, kind, payload = gen_err(rng, any_char)
            yield dict(case=[0, cust, kind, payload], kind="err-ser-de-anyunicode")
        elif r < 0.29:
            yield dict(case=[16, rng.choice([0, 1]), rng.randint(1, 10), C.norm(text(rng, 6))], kind="from-server-fn-error")
        elif r < 0.45:
            w = wire_like(rng)
            yield dict(case=[1, rng.choice([0, 1]), w], kind="err-de-bytes", compare=debug_safe(w))
        elif r < 0.52:
            yield dict(case=[2, list(rand_bytes(rng))], kind="b64-binary-format")
        elif r < 0.62:
            yield dict(case=[3, C.norm(b64_mutant(rng, STD64, False))], kind="b64-decode-malformed")
        elif r < 0.80:
            cust, kind, payload = gen_err(rng, any_char if rng.random() < 0.3 else safe_char)
            pre, q, f = gen_base(rng)
            yield dict(case=[4, cust, kind, payload, C.norm(gen_path(rng)), pre, q, f], kind="url-error-roundtrip")
        elif r < 0.92:
            import base64 as B
            if rng.random() < 0.5:
                s = b64_mutant(rng, URL64, True)
            else:
                w = bytes(wire_like(rng))
                s = B.urlsafe_b64encode(w).decode()
                if rng.random() < 0.3:
                    s = s.rstrip("=") if rng.random() < 0.5 else s + "="
            w = b64_canonical(s, URL64, True)
            yield dict(case=[5, rng.choice([0, 1]), C.norm(s)], kind="url-decode-err",
                       compare=(w is None or debug_safe(w)))
        else:
            pre, q, f = gen_base(rng)
            yield dict(case=[6, pre, q, f], kind="strip-error-info")


# ------------------------------------------------------------------ oracle (independent of the model)
def ref_wire(cust, kind, payload):
    if kind == 0:
        body = b"Unit Type Displayed" if cust == 0 else str(payload[0]).encode()
    else:
        body = bytes(payload)
    return TAGS[kind].encode() + b"|" + body


def ref_err(cust, kind, payload):
    """the error as the harness prints it"""
    if kind == 0:
        return [0, list(b"Unit Type Displayed" if cust == 0 else str(payload[0]).encode())]
    return [kind, payload]


def check_de(data, impl):
    """what `de(data)` must satisfy by the property text alone"""
    try:
        s = data.decode("utf-8")
    except UnicodeDecodeError:
        return None if impl[0] == 6 else "invalid UTF-8 was not reported as a Deserialization error"
    if "|" in s:
        tag, rest = s.split("|", 1)
        if tag in TAGS[1:]:
            want = [TAGS.index(tag), list(rest.encode())]
            return None if impl == want else "a well-formed wire string decoded to a different error"
        if tag != TAGS[0]:
            return None if impl[0] == 6 else "unknown kind was not reported as a Deserialization error"
        return None
    return None if impl[0] == 6 else "missing delimiter was not reported as a Deserialization error"


def b64_canonical(s, alphabet, pad):
    """decoded bytes if `s` is the canonical encoding of something, else None (written from RFC 4648)"""
    if pad:
        if len(s) % 4 != 0:
            return None
        body = s.rstrip("=")
        if len(s) - len(body) > 2:
            return None
    else:
        body = s
    if any(ch not in alphabet for ch in body) or len(body) % 4 == 1:
        return None
    bits = 0
    nbits = 0
    out = bytearray()
    for ch in body:
        bits = (bits << 6) | alphabet.index(ch)
        nbits += 6
        if nbits >= 8:
            nbits -= 8
            out.append((bits >> nbits) & 255)
    if bits & ((1 << nbits) - 1):
        return None
    if pad and (len(body) + (len(s) - len(body))) % 4 != 0:
        return None
    return bytes(out)


def ref_body(s):
    """the harness's demo server function body, written again here: ('ok', bytes) | ('err', [kind, payload])"""
    b = s.encode()
    if len(b) >= 2 and b[0:1] == b"E" and chr(b[1]).isdigit():
        rest = b[2:]
        d = b[1] - 48
        if d == 0:
            return ("err", [0, list(str(len(rest) % 256).encode())])
        return ("err", [d, list(rest)])
    return ("ok", list(b + b"!"))


def ref_err_wire(err):
    """wire string of an error printed as [kind, payload] (custom error = Code)"""
    return TAGS[err[0]].encode() + b"|" + bytes(err[1])


GLUE_PATHS = ["/api/glue", "/api/glue_patch", "/api/glue_put", "/api/ax_glue"]


def oracle_glue(case, impl):
    import base64 as B
    import urllib.parse as U
    op = case[0]
    if op == 9:
        remote, hooks, direct = impl
        want = ref_body(bytes(case[1]).decode())
        want = [0, want[1]] if want[0] == "ok" else [1, want[1]]
        if direct != want:
            return "harness: direct call differs from the reference body"
        return None if remote == direct else "remote call result differs from the direct call"
    if op == 7:
        _, s, st, red, loc, body = case[:6]
        res = impl[0]
        if 400 <= st <= 599:
            if res[0] != 1:
                return "error status %d did not produce an Err" % st
            return check_de(bytes(body), res[1])
        try:
            t = bytes(body).decode("utf-8")
        except UnicodeDecodeError:
            return None if (res[0] == 1 and res[1][0] == 6) else "undecodable response body did not produce a Deserialization error"
        return None if res == [0, list(t.encode())] else "a decodable success response was not returned as Ok"
    if op == 8:
        _, data, acc, ref = case[:4]
        gpath = GLUE_PATHS[case[4] if len(case) > 4 else 0]
        status, body, errh, loc, ctype = impl
        html = bool(acc) and b"text/html" in bytes(acc[0])
        try:
            want = ref_body(bytes(data).decode("utf-8"))
        except UnicodeDecodeError:
            want = ("malformed", None)
        # the body always carries the result
        if want[0] == "ok":
            if bytes(body) != bytes(want[1]) or errh:
                return "success response does not carry the returned value"
        else:
            if errh != [list(gpath.encode())]:
                return "error response lacks the serverfnerror header"
            if want[0] == "err" and bytes(body) != ref_err_wire(want[1]):
                return "error response body is not the error's wire form"
            if want[0] == "malformed" and not (bytes(body).startswith(b"Deserialization|") or bytes(body).startswith(b"Args|")):
                return "malformed request not answered with an argument-decoding error"
        if not html:
            if status != (200 if want[0] == "ok" else 500) or loc:
                return "wrong status / unexpected redirect for a non-HTML client"
            return None
        if status != 302 or not loc:
            return "HTML form post was not redirected"
        target = bytes(loc[0]).decode()
        is_url = ref and ref[0] == 1
        if not is_url:
            exp = "/" if not ref else bytes(ref[1]).decode("utf-8", "replace")
            return None if target == exp else "redirect target is not the referer"
        pre, q, f = ref[1], ref[2], ref[3]
        if not target.startswith(bytes(pre).decode()):
            return "redirect target is not the referer URL"
        rest = target[len(bytes(pre)):]
        rest = rest.split("#", 1)[0]
        pairs = U.parse_qsl(rest[1:] if rest.startswith("?") else rest, keep_blank_values=True, errors="replace")
        before = U.parse_qsl(bytes(q[0]).decode(), keep_blank_values=True, errors="replace") if q else []
        if want[0] == "ok":
            keep = [(k, v) for (k, v) in before if k not in ("__err", "__path")]
            return None if pairs == keep else "stale error info not stripped from the referer (or other pairs changed)"
        last = dict(pairs)          # dict() keeps the last value of a repeated key
        if last.get("__path") != gpath:
            return "__path in the redirect URL is not this function's path"
        w = b64_canonical(last.get("__err", "!"), URL64, True)
        if w is None:
            return "__err in the redirect URL is not canonical URL-safe base64"
        if want[0] == "err" and w != ref_err_wire(want[1]):
            return "the error embedded in the redirect URL is not the error the body returned"
        if w != bytes(body):
            return "the error embedded in the redirect URL differs from the response body"
        return None
    return None


def ref_typed_body(val, plan):
    """the body shared by the typed server functions, written again here"""
    if plan[0] == 0:
        v = list(val)
        v[5] = val[5] + [126]
        v[2] = (val[2] + 1) % 256
        v[7] = list(reversed(val[7]))
        return [0, v]
    if plan[0] == 10:
        return [1, [0, list(b"Unit Type Displayed")]]
    return [1, [plan[0], plan[1]]]


def fnv(b):
    h = 0xCBF29CE484222325
    for x in b:
        h = ((h ^ x) * 0x100000001B3) & 0xFFFFFFFFFFFFFFFF
    return h


def ref_runs(items):
    """[(data or None, err)] -> maximal data runs as [0, len, fnv] and error items as [1, err]"""
    out, run = [], None
    for data, err in items:
        if data is not None:
            run = (run or b"") + data
        else:
            if run:
                out.append([0, len(run), u64(fnv(run))])
            run = None
            out.append([1, err])
    if run:
        out.append([0, len(run), u64(fnv(run))])
    return out


def ref_chunk(ch):
    b = bytes(ch)
    if len(b) >= 2 and b[0:1] == b"!" and 49 <= b[1] <= 57:
        return [1, [b[1] - 48, list(b[2:])]]
    return [0, list(b.upper())]          # bytes.upper(): ASCII letters only


def oracle_typed(case, impl):
    op = case[0]
    if op == 10:
        remote, direct = impl
        if direct != ref_typed_body(case[2], case[3]):
            return "harness: direct call differs from the reference body"
        return None if remote == direct else "remote call result differs from the direct call (%s)" % PAIRS[case[1] % len(PAIRS)]
    if op == 11:
        # any byte-level fault must surface as a value (Ok if the bytes still decode, else Err): never a panic
        if case[4] == 3:
            return None if impl == [1, [2, list(b"connection refused")]] else "a failed send did not surface as the transport's Request error"
        if case[4] == 4:
            return None if impl == [1, [3, list(b"connection reset while reading the body")]] else \
                "an unreadable response body did not surface as the transport's Response error"
        return None if impl and impl[0] in (0, 1) else "unexpected observation for a corrupted call"
    if op == 12:
        status, body = impl
        if case[1] == [list(MP_CTS[0])] and bytes(case[2]) == MP_OK_BODY:
            # the intact upload: the body's result (field names and sizes) must come back
            return None if (status == 200 and bytes(body) == b'[["a",5],["f",2]]') else \
                "a well-formed multipart request was not decoded into its fields"
        if 400 <= status <= 599:
            try:
                t = bytes(body).decode()
            except UnicodeDecodeError:
                return "error response body is not a wire string"
            return None if t.split("|", 1)[0] in TAGS else "error response body is not a wire string"
        return None
    if op in (13, 14, 15, 17):
        remote, direct = impl
        chunks = [chunk_bytes(ch) for ch in case[1]]
        if op == 15:
            items = [ref_chunk(list(ch)) for ch in chunks]
            want = [0, ref_runs([(bytes(i[1]) if i[0] == 0 else None, i[1]) for i in items])]
        elif op == 13:
            want = [0, ref_runs([(ch.upper(), None) for ch in chunks])]
        elif op == 14:
            want = [0, ref_runs([(ch, None) for ch in chunks])]
        else:
            want = [0, ref_runs([(b"".join(chunks), None)])]
        if direct != want:
            return "harness: direct stream call differs from the reference"
        # where the transport cuts a stream is not part of the contract: the data between two error items must be the same
        return None if remote == direct else "remote stream delivers different data / errors than the direct call (re-chunk sizes %r)" % (case[2],)
    if op == 19:
        if len(impl) != len(case) - 1:
            return "history: wrong number of observations"
        for k, (sub, obs) in enumerate(zip(case[1:], impl)):
            msg = oracle(dict(case=sub), obs)
            if msg:
                return "call %d of the history: %s" % (k + 1, msg)
        return None
    if op == 20:
        # a value the encoding cannot carry: the call must still produce a value of the declared type (here: an Err), not a panic
        return None if impl and impl[0] in (0, 1) else "unexpected observation"
    if op == 21:
        remote, direct = impl
        v, idv, what, code, many, kind = case[2]
        want = {0: [0, code], 1: [1, [1, idv, what]], 2: [1, [2, code]], 3: [1, [3, many]]}.get(v, [1, [4, [kind, what]]])
        if direct != want:
            return "harness: direct call differs from the reference"
        return None if remote == direct else "remote call result differs from the direct call (custom error type, %s encoder)" % APP_FNS[case[1] % len(APP_FNS)]
    return None


def _diffs(a, b, path=()):
    if a == b:
        return []
    if isinstance(a, list) and isinstance(b, list) and len(a) == len(b) and any(isinstance(x, list) for x in a + b):
        out = []
        for i, (x, y) in enumerate(zip(a, b)):
            out += _diffs(x, y, path + (i,))
        return out
    return [(path, a, b)]


def classify(item, impl, model):
    """F-C13-e: serde_qs (the URL-encoded *input* codecs) cannot represent an empty vector (the field is
    omitted, decoding reports `missing field`) nor an empty optional string (comes back as None)."""
    case = item["case"]
    if case[0] == 19 and not isinstance(impl, str) and len(impl) == len(case) - 1:
        # a history belongs to the known class only if every failing call of it does
        ids = []
        for sub, obs in zip(case[1:], impl):
            if oracle(dict(case=sub), obs):
                ids.append(classify(dict(case=sub), obs, None))
        return "F-C13-e" if ids and all(i == "F-C13-e" for i in ids) else None
    if case[0] == 21 and not isinstance(impl, str) and case[1] % len(APP_FNS) == 5 and case[2][4] == []:
        # the url-encoded plan has an empty Vec field
        return "F-C13-e" if impl[0] == [1, [4, [8, list(b"missing field `many`")]]] else None
    if case[0] == 18 and not isinstance(impl, str) and (case[1] % len(OPT_FNS)) in OPT_URL:
        remote, direct = impl
        if remote[0] != 0 or direct[0] != 0:
            return None
        ok = True
        for i, (r, d) in enumerate(zip(remote[1], direct[1])):
            if r == d:
                continue
            if i == 2 and d == [[]] and r == []:                      # mid: Some("") -> None
                continue
            if i == 3 and d == [[]] and r == []:                      # list: Some(vec![]) -> None
                continue
            if i in (3, 5) and d and r and all(x == [] and y == [[]] and p[-1] == 2 for (p, x, y) in _diffs(r, d)):
                continue                                              # an inner opt: Some("") -> None
            ok = False
        return "F-C13-e" if ok else None
    if case[0] != 10 or isinstance(impl, str) or (case[1] % len(PAIRS)) not in URL_INPUT:
        return None
    remote, direct = impl
    val = case[2]
    if remote[0] == 1:
        err = remote[1]
        msg = bytes(err[1])
        if err[0] == 8 and ((msg == b"missing field `items`" and val[7] == []) or (msg == b"missing field `tags`" and val[8] == [])):
            return "F-C13-e"
        return None
    if direct[0] != 0:
        return None
    ds = _diffs(remote[1], direct[1])
    # every difference is an `opt: Some("")` that arrived as None
    if ds and all(r == [] and d == [[]] and len(p) >= 2 and p[-1] == 2 for (p, r, d) in ds):
        return "F-C13-e"
    return None


def oracle(item, impl):
    import base64 as B
    import urllib.parse as U
    case = item["case"]
    op = case[0]
    if isinstance(impl, str):
        if impl.startswith("!panic"):
            return "panic: " + impl
        return "harness error: " + impl
    if op == 0:
        _, cust, kind, payload = case
        if bytes(impl[0]) != ref_wire(cust, kind, payload):
            return "ser() is not 'Kind|message'"
        if impl[1] != ref_err(cust, kind, payload):
            return "de(ser(e)) != e: kind or message did not survive the wire format"
        return None
    if op == 1:
        return check_de(bytes(case[2]), impl)
    if op == 2:
        data = bytes(case[1])
        if bytes(impl[0]) != B.b64encode(data).rstrip(b"="):
            return "into_encoded_string is not unpadded standard base64"
        return None if impl[1] == [0, list(data)] else "from_encoded_string(into_encoded_string(b)) != b"
    if op == 3:
        want = b64_canonical(bytes(case[1]).decode(), STD64, False)
        if want is None:
            return None if impl[0] == 1 else "non-canonical base64 accepted"
        return None if impl == [0, list(want)] else "canonical base64 not decoded to its bytes"
    if op == 4:
        _, cust, kind, payload, path, pre, q, f = case
        if impl and impl[0] == -1:
            return "to_url rejected an absolute base URL: " + C.show_bytes(impl[1])
        if impl[1] != [path]:
            return "__path read back from the URL differs from the server function's path"
        if impl[2] != [ref_err(cust, kind, payload)]:
            return "error read back from the URL differs: kind or message did not survive the URL-embedded form"
        if not bytes(impl[0]).startswith(bytes(pre)):
            return "to_url changed the base URL"
        return None
    if op == 5:
        s = bytes(case[2]).decode()
        w = b64_canonical(s, URL64, True)
        if w is None:
            return None if impl[0] == 6 else "malformed base64 in __err was not reported as a Deserialization error"
        return check_de(w, impl)
    if op in (7, 8, 9):
        return oracle_glue(case, impl)
    if op == 16:
        _, cust, k, m = case
        if impl[1] != m:
            return "from_server_fn_error changed the message"
        return None if (k == 10 or impl[0] == k) else "from_server_fn_error changed the kind of the error"
    if op >= 22:
        return oracle_audit(case, impl)
    if op >= 10:
        return oracle_typed(case, impl)
    if op == 6:
        _, pre, q, f = case
        before = U.parse_qsl(bytes(q[0]).decode(), keep_blank_values=True, errors="replace") if q else []
        out = bytes(impl).decode()
        rest = out[len(bytes(pre)):]
        if not out.startswith(bytes(pre).decode()):
            return "strip_error_info changed the URL before the query"
        frag = None
        if "#" in rest:
            rest, frag = rest.split("#", 1)
        if (frag is None) != (not f) or (f and frag != bytes(f[0]).decode()):
            return "strip_error_info changed the fragment"
        after = U.parse_qsl(rest[1:] if rest.startswith("?") else rest, keep_blank_values=True, errors="replace")
        want = [(k, v) for (k, v) in before if k not in ("__err", "__path")]
        return None if after == want else "strip_error_info did not remove exactly the __err/__path pairs"
    return None


def _is_bytes(v, lo=0):
    return isinstance(v, list) and all(isinstance(x, int) and lo <= x <= 255 for x in v)


def _is_text(v):
    if not _is_bytes(v):
        return False
    try:
        bytes(v).decode("utf-8")
        return True
    except UnicodeDecodeError:
        return False


def _is_header(v):
    return _is_bytes(v) and all((x >= 32 and x != 127) or x == 9 for x in v)


def _is_opt(v, pred):
    return isinstance(v, list) and (v == [] or (len(v) == 1 and pred(v[0])))


import string as _string
QOK = set(_string.ascii_letters + _string.digits + QCH + "_")


def _valid_inner(i):
    return (isinstance(i, list) and len(i) == 3 and isinstance(i[0], int) and -2 ** 31 <= i[0] < 2 ** 31
            and _is_text(i[1]) and _is_opt(i[2], _is_text))


def _valid_u64(v):
    return isinstance(v, list) and len(v) == 2 and all(isinstance(x, int) and 0 <= x < 2 ** 32 for x in v)


def _valid_frame(f):
    return isinstance(f, list) and len(f) == 2 and all(isinstance(x, int) and 0 <= x <= 9 for x in f)


def _valid_val(v):
    if not (isinstance(v, list) and len(v) == 10):
        return False
    if not (_valid_u64(v[0]) and _valid_u64(v[1]) and v[2] in range(256)
            and v[3] in (0, 1) and _valid_u64(v[4]) and _is_text(v[5]) and _valid_inner(v[6])):
        return False
    exp = (v[4][0] >> 20) & 0x7FF
    if exp == 0x7FF:
        return False                # NaN / infinity are outside the generator's domain
    return (isinstance(v[7], list) and all(_valid_inner(i) for i in v[7])
            and isinstance(v[8], list) and all(_is_text(t) for t in v[8]) and _is_opt(v[9], _valid_inner))


def valid_case(item):
    """generator preconditions (the shrinker keeps only candidates satisfying them)"""
    c = item["case"]
    try:
        op = c[0]
        if op == 0:
            _, cust, kind, payload = c
            if cust not in (0, 1) or kind not in range(10):
                return False
            if kind == 0:
                return payload == [] if cust == 0 else (len(payload) == 1 and 0 <= payload[0] <= 255)
            return _is_text(payload)
        if op == 1:
            return len(c) == 3 and c[1] in (0, 1) and _is_bytes(c[2])
        if op == 2:
            return len(c) == 2 and _is_bytes(c[1])
        if op == 3:
            return len(c) == 2 and _is_text(c[1])
        if op == 4:
            _, cust, kind, payload, path, pre, q, f = c
            if not valid_case(dict(case=[0, cust, kind, payload])):
                return False
            return (_is_text(path) and bytes(pre).decode() in PRE_OK
                    and _is_opt(q, lambda v: _is_bytes(v) and all(chr(x) in QOK for x in v))
                    and _is_opt(f, lambda v: _is_bytes(v) and all(chr(x) in FCH for x in v)))
        if op == 5:
            return len(c) == 3 and c[1] in (0, 1) and _is_text(c[2])
        if op == 6:
            _, pre, q, f = c
            return (bytes(pre).decode() in PRE_OK
                    and _is_opt(q, lambda v: _is_bytes(v) and all(chr(x) in QOK for x in v))
                    and _is_opt(f, lambda v: _is_bytes(v) and all(chr(x) in FCH for x in v)))
        if op == 7:
            _, s, st, red, loc, body = c[:6]
            if len(c) not in (6, 7) or (len(c) == 7 and c[6] not in (0, 1, 2)):
                return False
            return (_is_text(s) and isinstance(st, int) and 100 <= st <= 999 and red in (0, 1)
                    and _is_opt(loc, lambda v: _is_header(v) and _is_text(v)) and _is_bytes(body))
        if op == 8:
            _, data, acc, ref = c[:4]
            if len(c) not in (4, 5) or (len(c) == 5 and c[4] not in (0, 1, 2)):
                return False
            if not (_is_bytes(data) and _is_opt(acc, lambda v: _is_header(v) and _is_text(v))):
                return False
            if ref == []:
                return True
            if ref[0] == 1:
                return valid_case(dict(case=[6, ref[1], ref[2], ref[3]]))
            return ref[0] == 2 and len(ref) == 2 and _is_header(ref[1]) and bytes(ref[1]).decode("utf-8", "replace") in \
                [r.encode().decode() for r in RAW_REFERERS] + [r + "\ufffd" for r in RAW_REFERERS]
        if op == 9:
            return len(c) in (2, 3) and _is_text(c[1]) and (len(c) == 2 or c[2] in (0, 1, 2))
        if op == 16:
            return len(c) == 4 and c[1] in (0, 1) and c[2] in range(1, 11) and _is_text(c[3])
        if op in (10, 11):
            if not (isinstance(c[1], int) and 0 <= c[1] < len(PAIRS) and _valid_val(c[2]) and
                    c[3][0] in range(11) and _is_text(c[3][1])):
                return False
            if op == 10:
                return len(c) == 4 or (len(c) == 5 and _valid_frame(c[4]))
            if len(c) not in (6, 7) or (len(c) == 7 and not _valid_frame(c[6])):
                return False
            where, arg = c[4], c[5]
            if where == 2:
                return isinstance(arg, int) and 100 <= arg <= 999
            if where in (3, 4):
                return arg == 0
            if where not in (0, 1):
                return False
            k = arg[0]
            if k == 0:
                return len(arg) == 2 and arg[1] >= 0
            if k == 1:
                return len(arg) == 3 and arg[1] >= 0 and 0 < arg[2] < 256
            if k == 2:
                return len(arg) == 4 and arg[1] >= 0 and arg[2] >= 0 and _is_bytes(arg[3])
            return k == 3 and len(arg) == 2 and _is_bytes(arg[1])
        if op == 18:
            if len(c) not in (8, 9) or (len(c) == 9 and not _valid_frame(c[8])):
                return False
            return (isinstance(c[1], int) and 0 <= c[1] < len(OPT_FNS)
                    and _is_opt(c[2], lambda x: isinstance(x, int) and 0 <= x < 2 ** 32) and _is_text(c[3])
                    and _is_opt(c[4], _is_text)
                    and _is_opt(c[5], lambda l: isinstance(l, list) and all(_valid_inner(i) for i in l))
                    and _valid_u64(c[6]) and _is_opt(c[7], _valid_inner))
        if op == 12:
            return len(c) == 3 and _is_opt(c[1], _is_header) and _is_bytes(c[2])
        if op in (13, 14, 15, 17):
            if len(c) == 4 and op == 13 and c[3] in (0, 1, 2):
                c = c[:3]
            if len(c) != 3 or not (isinstance(c[2], list) and len(c[2]) == 2 and all(x in RECHUNK_SIZES for x in c[2])):
                return False
            for ch in c[1]:
                if not all(isinstance(sg, list) and len(sg) == 2 and isinstance(sg[0], int) and 0 <= sg[0] <= 200000
                           and _is_bytes(sg[1]) for sg in ch):
                    return False
                if len(chunk_bytes(ch)) > 300000 or (op in (13, 15) and not _is_text(list(chunk_bytes(ch)))):
                    return False
            return True
        if op == 19:
            return len(c) >= 2 and all(isinstance(sub, list) and sub and sub[0] in (9, 10, 18, 20, 21, 23, 27, 30, 35)
                                       and valid_case(dict(case=sub)) for sub in c[1:])
        if op == 20:
            return len(c) == 3 and c[1] in range(5) and isinstance(c[2], int) and 0 <= c[2] <= 5000
        if op >= 22:
            return valid_audit(c)
        if op == 21:
            if len(c) not in (3, 4) or (len(c) == 4 and not _valid_frame(c[3])):
                return False
            p = c[2]
            return (isinstance(c[1], int) and 0 <= c[1] < len(APP_FNS) and len(p) == 6 and p[0] in range(5) and _valid_u64(p[1])
                    and _is_text(p[2]) and isinstance(p[3], int) and 0 <= p[3] < 2 ** 32 and _is_bytes(p[4]) and p[5] in range(1, 11))
    except Exception:
        return False
    return False


def nontrivial(item, model):
    case = item["case"]
    if case[0] == 0:
        return len(case[3]) > 0
    if case[0] == 1:
        return len(case[2]) > 0
    if case[0] in (2, 3):
        return len(case[1]) > 0
    return True


def describe(it):
    case = it["case"]
    if case[0] >= 22:
        return describe_audit(case)
    if case[0] == 0:
        _, cust, kind, payload = case
        return "ServerFnError<%s>::%s(%r).ser() then de()" % (
            ["NoCustomError", "Code"][cust], KINDS[kind], payload if kind == 0 else C.show_bytes(payload))
    if case[0] == 1:
        return "ServerFnError<%s>::de(%r)" % (["NoCustomError", "Code"][case[1]], C.bs(case[2]))
    if case[0] == 2:
        return "CborEncoding::from_encoded_string(into_encoded_string(%r))" % (C.bs(case[1]),)
    if case[0] == 3:
        return "CborEncoding::from_encoded_string(%r)" % (C.show_bytes(case[1]),)
    if case[0] == 4:
        _, cust, kind, payload, path, pre, q, f = case
        base = C.show_bytes(pre) + ("?" + C.show_bytes(q[0]) if q else "") + ("#" + C.show_bytes(f[0]) if f else "")
        return "ServerFnUrlError::new(%r, ServerFnError<%s>::%s(%r)).to_url(%r), then read __path/__err back" % (
            C.show_bytes(path), ["NoCustomError", "Code"][cust], KINDS[kind],
            payload if kind == 0 else C.show_bytes(payload), base)
    if case[0] == 5:
        return "ServerFnUrlError::<ServerFnError<%s>>::decode_err(%r)" % (["NoCustomError", "Code"][case[1]], C.show_bytes(case[2]))
    if case[0] == 7:
        _, s_, st, red, loc, body = case[:6]
        return "Glue{%r}.run_on_client() when the transport answers status=%d redirect-header=%d location=%r body=%r" % (
            C.show_bytes(s_), st, red, [C.show_bytes(l) for l in loc], C.bs(body))
    if case[0] == 8:
        _, data, acc, ref = case[:4]
        r = None if not ref else (C.show_bytes(ref[1]) + ("?" + C.show_bytes(ref[2][0]) if ref[2] else "") +
                                  ("#" + C.show_bytes(ref[3][0]) if ref[3] else "")) if ref[0] == 1 else C.bs(ref[1])
        sel = case[4] if len(case) > 4 else 0
        return "%s %s body=%r Accept=%r Referer=%r -> run_on_server" % (["POST", "PATCH", "PUT"][sel], GLUE_PATHS[sel], C.bs(data),
                                                                      [C.show_bytes(a) for a in acc], r)
    if case[0] == 16:
        return "ServerFnError<%s>::from_server_fn_error(ServerFnErrorErr::%s(%r))" % (
            ["NoCustomError", "Code"][case[1]], (KINDS + ["UnsupportedRequestMethod"])[case[2]], C.show_bytes(case[3]))
    if case[0] in (10, 11):
        d = "%s(v=%r, plan=%r)" % ("f_" + PAIRS[case[1] % len(PAIRS)], case[2], (case[3][0], C.show_bytes(case[3][1])))
        if case[0] == 10:
            return d + " frames=%r: run_on_client() through the loopback vs the function called directly" % (case[4:5],)
        return d + " frames=%r with transport fault where=%r %r" % (case[6:7], ["request", "response", "status", "send fails", "body read fails"][case[4]], case[5])
    if case[0] == 18:
        return "o_%s(first=%r, a=%r, mid=%r, list=%r, n=%r, last=%r) frames=%r: run_on_client() vs direct" % (
            OPT_FNS[case[1] % len(OPT_FNS)], case[2], C.show_bytes(case[3]), [C.show_bytes(x) for x in case[4]], case[5], case[6],
            case[7], case[8] if len(case) > 8 else None)
    if case[0] == 12:
        return "POST upload Content-Type=%r body=%r" % ([C.bs(x) for x in case[1]], C.bs(case[2]))
    if case[0] in (13, 14, 15, 17):
        return "%s(chunks as (repeat, unit) segments: %r) transport re-chunk sizes (request, response)=%r: remote vs direct" % (
            {13: "echo_text", 14: "emit_bytes", 15: "text_out", 17: "count_bytes"}[case[0]],
            [[(n, C.bs(u)) for (n, u) in ch] for ch in case[1]], case[2])
    if case[0] == 19:
        return "history on one thread: " + " ; THEN ".join(str(describe(dict(case=sub))) for sub in case[1:])
    if case[0] == 20:
        return ["poison_arg (JSON map with struct keys as argument)", "poison_result (same as result)", "nan_arg(NaN) over Json",
                "deep (6 levels) over GetUrl", "e_badkeys (an error its own JSON encoder cannot encode; pad mod 256 map entries)"][case[1]] + " pad=%d: remote call must yield a value" % case[2]
    if case[0] == 21:
        return "e_%s(plan=%r) frames=%r: custom error type, remote vs direct" % (APP_FNS[case[1] % len(APP_FNS)], case[2], case[3:4])
    if case[0] == 9:
        return "Glue{%r}: run_on_client() through the loopback vs the body called directly" % (C.show_bytes(case[1]),)
    if case[0] == 6:
        _, pre, q, f = case
        return "strip_error_info(%r)" % (C.show_bytes(pre) + ("?" + C.show_bytes(q[0]) if q else "") + ("#" + C.show_bytes(f[0]) if f else ""),)
    return None
