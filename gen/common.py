"""Shared machinery of the /verif check driver: sexp I/O, build steps (Coq, extraction,
cargo), running implementation and model on the same cases, diffing, shrinking, evidence."""
import fcntl
import hashlib
import json
import os
import re
import shutil
import subprocess
import tempfile
import sys
import time

ROOT = os.path.dirname(os.path.dirname(os.path.abspath(__file__)))
BUILD = os.path.join(ROOT, ".build")
COQ = os.path.join(ROOT, "coq")
# /repo is what every registered command checks. VERIF_REPO / VERIF_OUT exist only for the
# mutant-validation workflow (tools/seedtest.py): they point the harness builds at a scratch
# worktree of /repo and the evidence/replay output at a scratch directory, so that a seeded
# change never has to be applied to /repo while other work is going on there.
REPO = os.environ.get("VERIF_REPO", "/repo")
OUT = os.environ.get("VERIF_OUT", ROOT)
GUARD = "leptos_verif"

FORBIDDEN = re.compile(
    r"\b(Admitted|admit|Axiom|Axioms|Parameter|Parameters|Conjecture|Hypothesis|Variable)\b"
    r"|Unset\s+Guard|bypass_check|type-in-type|impredicative-set|Admit\s+Obligations"
)


# ----------------------------------------------------------------------------- sexp
def sx(v):
    if isinstance(v, bool):
        return "1" if v else "0"
    if isinstance(v, int):
        return str(v)
    if isinstance(v, (bytes, bytearray)):
        return "(" + " ".join(str(b) for b in v) + ")"
    if isinstance(v, str):
        return sx(v.encode("utf-8"))
    return "(" + " ".join(sx(x) for x in v) + ")"


def parse_sx(s):
    s = s.strip()
    if s.startswith("!"):
        return s
    toks = re.findall(r"\(|\)|-?\d+", s)
    pos = 0

    def val():
        nonlocal pos
        t = toks[pos]
        pos += 1
        if t == "(":
            out = []
            while toks[pos] != ")":
                out.append(val())
            pos += 1
            return out
        return int(t)

    try:
        v = val()
    except (IndexError, ValueError):
        # not a value of the case language (e.g. a diagnostic a library printed on the merged stderr):
        # reported like a harness error instead of crashing the driver
        return "!unparsable " + s[:200]
    return v


def norm(v):
    """nested tuples -> nested lists; bytes/str -> list of ints"""
    if isinstance(v, bool):
        return int(v)
    if isinstance(v, int):
        return v
    if isinstance(v, (bytes, bytearray)):
        return list(v)
    if isinstance(v, str):
        return list(v.encode("utf-8"))
    return [norm(x) for x in v]


def bs(v):
    """list of ints -> bytes (for display)"""
    return bytes(x & 255 for x in v)


def show_bytes(v):
    try:
        return bs(v).decode("utf-8")
    except Exception:
        return repr(bs(v))


# ----------------------------------------------------------------------------- process helpers
def sh(cmd, timeout, cwd=None, env=None, stdin=None):
    e = dict(os.environ)
    e.update(env or {})
    t0 = time.time()
    try:
        p = subprocess.run(
            cmd, cwd=cwd, env=e, stdout=subprocess.PIPE,
            stderr=subprocess.STDOUT, timeout=timeout, text=True,
            shell=isinstance(cmd, str),
            **(dict(input=stdin) if stdin is not None else dict(stdin=subprocess.DEVNULL))
        )
        return p.returncode, p.stdout, time.time() - t0
    except subprocess.TimeoutExpired as ex:
        out = ex.stdout.decode() if isinstance(ex.stdout, bytes) else (ex.stdout or "")
        return 124, out + "\n[timeout after %ss]" % timeout, time.time() - t0


class Lock:
    def __init__(self, name):
        os.makedirs(BUILD, exist_ok=True)
        self.path = os.path.join(BUILD, name + ".lock")

    def __enter__(self):
        self.f = open(self.path, "w")
        fcntl.flock(self.f, fcntl.LOCK_EX)
        return self

    def __exit__(self, *a):
        fcntl.flock(self.f, fcntl.LOCK_UN)
        self.f.close()


# ----------------------------------------------------------------------------- Coq
COQPROJECT_HEAD = """-Q theories LV
-arg -w -arg -notation-overridden,-deprecated-hint-without-locality,-deprecated-instance-without-locality
"""


def coq_project():
    """_CoqProject lists every .v under coq/theories (so adding a file needs no edit)"""
    files = []
    for d, _, fs in os.walk(os.path.join(COQ, "theories")):
        for f in fs:
            if f.endswith(".v") and not f.startswith("."):
                files.append(os.path.relpath(os.path.join(d, f), COQ))
    text = COQPROJECT_HEAD + "\n".join(sorted(files)) + "\n"
    cp = os.path.join(COQ, "_CoqProject")
    if not os.path.exists(cp) or open(cp).read() != text:
        with open(cp, "w") as f:
            f.write(text)


def coq_makefile():
    coq_project()
    mk = os.path.join(COQ, "Makefile")
    cp = os.path.join(COQ, "_CoqProject")
    if not os.path.exists(mk) or os.path.getmtime(mk) < os.path.getmtime(cp):
        rc, out, _ = sh(["coq_makefile", "-f", "_CoqProject", "-o", "Makefile"], 120, cwd=COQ)
        if rc != 0:
            raise RuntimeError("coq_makefile failed:\n" + out)



def lv_imports(text):
    """module names after `From LV Require [Import|Export]` (statement ends at a period followed by whitespace)"""
    text = re.sub(r"\(\*.*?\*\)", "", text, flags=re.S)
    mods = []
    for m in re.finditer(r"From\s+LV\s+Require\s+(?:Import\s+|Export\s+)?(.*?)\.(?=\s|$)", text, re.S):
        mods += m.group(1).split()
    return mods

def coq_closure(vfile):
    """the .v files (relative to coq/) a theory file depends on inside this project"""
    seen, todo = [], [vfile]
    while todo:
        f = todo.pop()
        if f in seen:
            continue
        seen.append(f)
        src = open(os.path.join(COQ, f)).read()
        for mod in lv_imports(src):
            path = "theories/" + mod.replace(".", "/") + ".v"
            if os.path.exists(os.path.join(COQ, path)):
                todo.append(path)
    return sorted(seen)


def coq_check(props_v, allowed_axioms=()):
    """Build theories/Props/Properties_Cxx.vo (full .vo build) and audit it.
    Returns dict(ok, obligations, discharged, assumptions, log, cmd, problems)."""
    res = dict(ok=False, obligations=0, discharged=0, assumptions=[], problems=[], log="")
    vo = props_v[:-2] + ".vo"
    cmd = "make -C coq -j16 %s" % vo
    res["cmd"] = "coq_makefile -f _CoqProject -o Makefile && " + cmd + "   (coqc 8.16.1, full .vo build)"
    with Lock("coq"):
        coq_makefile()
        # force the property file itself to be re-checked so that Print Assumptions output is fresh
        try:
            os.remove(os.path.join(COQ, vo))
        except FileNotFoundError:
            pass
        rc, out, _ = sh(["make", "-C", COQ, "-j16", vo], 1500)
    res["log"] = out[-6000:]
    src = open(os.path.join(COQ, props_v)).read()
    theorems = re.findall(r"^\s*Theorem\s+(\w+)", src, re.M)
    res["obligations"] = len(theorems)
    res["theorems"] = theorems
    # audit sources of the closure
    for f in coq_closure(props_v):
        text = open(os.path.join(COQ, f)).read()
        text_nc = re.sub(r"\(\*.*?\*\)", "", text, flags=re.S)
        for m in FORBIDDEN.finditer(text_nc):
            # Variable / Hypothesis are fine inside a Section; flag them only outside
            if m.group(0) in ("Variable", "Hypothesis", "Parameter", "Parameters"):
                before = text_nc[: m.start()]
                depth = len(re.findall(r"^\s*Section\s", before, re.M)) - len(
                    re.findall(r"^\s*End\s", before, re.M))
                if depth > 0 and m.group(0) in ("Variable", "Hypothesis"):
                    continue
            res["problems"].append("%s: forbidden token %r" % (f, m.group(0)))
    # the property file must contain nothing but statements closed by `exact`
    for m in re.finditer(r"Proof\.(.*?)Qed\.", src, re.S):
        body = m.group(1).strip()
        if not re.fullmatch(r"exact\s+[\w.@]+\s*\.", body):
            res["problems"].append("%s: proof body is not a bare `exact`: %r" % (props_v, body[:60]))
    if rc != 0:
        res["problems"].append("coq build failed")
        return res
    # Print Assumptions output: one block per theorem, in order
    blocks = re.findall(r"(Closed under the global context|Axioms:\n(?:.+\n?)+?)(?=\n(?:Closed|Axioms|COQ|make|$)|\Z)", out)
    closed = out.count("Closed under the global context")
    axiom_lines = []
    for m in re.finditer(r"Axioms:\n((?:[^\n]+\n?)+?)(?:\n|\Z)", out):
        axiom_lines += [l.strip() for l in m.group(1).splitlines() if l.strip()]
    names = sorted(set(re.match(r"([\w.']+)", l).group(1) for l in axiom_lines if re.match(r"[\w.']+\s*:", l)))
    res["assumptions"] = names
    bad = [n for n in names if n not in allowed_axioms]
    if bad:
        res["problems"].append("axioms outside the allow-list: %s" % bad)
    n_pa = len(re.findall(r"^\s*Print Assumptions\s+(\w+)", src, re.M))
    if n_pa < len(theorems):
        res["problems"].append("some theorems have no Print Assumptions")
    res["discharged"] = len(theorems) if not res["problems"] else 0
    res["closed"] = closed
    res["ok"] = not res["problems"]
    return res


# ----------------------------------------------------------------------------- extraction
def build_model(pid):
    """extract run_<pid> to OCaml and compile it with the generic driver"""
    ex_dir = os.path.join(BUILD, "extract")
    os.makedirs(ex_dir, exist_ok=True)
    src = os.path.join(ROOT, "extract", "Extract_%s.v" % pid)
    exe = os.path.join(ex_dir, "model_%s" % pid)
    with Lock("extract_" + pid):
        # dependencies: every .vo the extraction file pulls in
        deps = [src, os.path.join(ROOT, "extract", "driver.ml")]
        text = open(src).read()
        vos = []
        for mod in lv_imports(text):
            vos.append("theories/" + mod.replace(".", "/") + ".vo")
        with Lock("coq"):
            coq_makefile()
            rc, out, _ = sh(["make", "-C", COQ, "-j16"] + vos, 1500)
        if rc != 0:
            raise RuntimeError("coq build of model failed:\n" + out[-3000:])
        closure = []
        for v in vos:
            closure += [os.path.join(COQ, f[:-2] + ".vo") for f in coq_closure(v[:-3] + ".v")]
        deps += closure
        newest = max(os.path.getmtime(d) for d in deps if os.path.exists(d))
        if os.path.exists(exe) and os.path.getmtime(exe) >= newest:
            return exe
        work = os.path.join(ex_dir, pid)
        shutil.rmtree(work, ignore_errors=True)
        os.makedirs(work)
        shutil.copy(src, work)
        rc, out, _ = sh(["coqc", "-Q", os.path.join(COQ, "theories"), "LV", os.path.basename(src)], 600, cwd=work)
        if rc != 0:
            raise RuntimeError("extraction failed:\n" + out[-3000:])
        ml = os.path.join(work, "model_%s.ml" % pid)
        binml = os.path.join(work, "bin.ml")
        with open(binml, "w") as f:
            f.write(open(ml).read())
            f.write("\n")
            f.write(open(os.path.join(ROOT, "extract", "driver.ml")).read())
        rc, out, _ = sh(["ocamlfind", "ocamlopt", "-w", "-a", "bin.ml", "-o", exe + ".tmp"], 600, cwd=work)
        if rc != 0:
            raise RuntimeError("ocamlopt failed:\n" + out[-3000:])
        os.replace(exe + ".tmp", exe)
        return exe


# ----------------------------------------------------------------------------- cargo
def build_harness(crate, extra_env=None, features=None):
    """cargo build --release of /verif/harness/<crate> against /repo's working tree"""
    d = os.path.join(ROOT, "harness", crate)
    tgt = os.path.join(BUILD, "target", crate)
    if REPO != "/repo":
        # scratch copy of the harness crates with their path dependencies re-pointed
        tag = hashlib.sha1(REPO.encode()).hexdigest()[:8]
        alt = os.path.join(BUILD, "alt", tag)
        for c in set([crate, "sexp"]):
            dst = os.path.join(alt, c)
            shutil.rmtree(dst, ignore_errors=True)
            shutil.copytree(os.path.join(ROOT, "harness", c), dst, ignore=shutil.ignore_patterns("target", "Cargo.lock"))
            for dirpath, _, files in os.walk(dst):
                for fn in files:
                    if fn.endswith((".toml", ".rs", ".py")):
                        fp = os.path.join(dirpath, fn)
                        txt = open(fp).read()
                        if "/repo/" in txt:
                            open(fp, "w").write(txt.replace("/repo/", REPO.rstrip("/") + "/"))
        d = os.path.join(alt, crate)
        tgt = os.path.join(BUILD, "target", crate + "-alt-" + tag)
    os.makedirs(tgt, exist_ok=True)
    env = {
        "CARGO_NET_OFFLINE": "true",
        "CARGO_TARGET_DIR": tgt,
        "RUSTFLAGS": "--cfg %s -Awarnings" % GUARD,
    }
    env.update(extra_env or {})
    with Lock("cargo_" + crate):
        shutil.copy(os.path.join(REPO, "Cargo.lock"), os.path.join(d, "Cargo.lock"))
        cmd = ["cargo", "build", "--release", "--offline"]
        if features:
            cmd += ["--features", features]
        rc, out, _ = sh(cmd, 3000, cwd=d, env=env)
    if rc != 0:
        return None, out[-8000:]
    name = re.search(r'name\s*=\s*"([^"]+)"', open(os.path.join(d, "Cargo.toml")).read()).group(1)
    return os.path.join(tgt, "release", name), out[-2000:]


IDLE_TIMEOUT = int(os.environ.get("VERIF_IDLE_TIMEOUT", "60"))


def _run_once(cmd, data, timeout, env, streams=False):
    """run cmd on data; returns (lines, status) with status 'ok' | 'exit N' | 'timeout' | 'hang'.
    A process that has started to stream answers and then produces nothing for IDLE_TIMEOUT
    seconds is hanging on its next case: it is killed and the lines received so far are kept."""
    import selectors
    import threading
    e = dict(os.environ)
    e.update(env or {})
    p = subprocess.Popen(cmd, stdin=subprocess.PIPE, stdout=subprocess.PIPE, stderr=subprocess.STDOUT, env=e)

    def feed():
        try:
            p.stdin.write(data.encode())
            p.stdin.close()
        except Exception:
            pass
    threading.Thread(target=feed, daemon=True).start()
    sel = selectors.DefaultSelector()
    sel.register(p.stdout, selectors.EVENT_READ)
    buf = b""
    t0 = last = time.time()
    status = "ok"
    while True:
        now = time.time()
        if now - t0 > timeout:
            status = "timeout"
            break
        if (streams or buf.count(b"\n") > 0) and now - last > IDLE_TIMEOUT:
            status = "hang"
            break
        if sel.select(timeout=1.0):
            chunk = os.read(p.stdout.fileno(), 1 << 16)
            if not chunk:
                break
            buf += chunk
            last = time.time()
    if status != "ok":
        p.kill()
    rc = p.wait()
    if status == "ok" and rc != 0:
        status = "exit %d" % rc
    text = buf.decode("utf-8", "replace")
    lines = text.split("\n")
    complete = lines[:-1] if not text.endswith("\n") else lines[:-1]
    return [l for l in complete if l.strip() != ""], status


def run_lines(cmd, cases, timeout=900, env=None):
    """feed one case per line, get one observation per line. A hanging case is reported as
    '!hang …' and the cases after it are re-run in a fresh process (up to 3 restarts)."""
    t0 = time.time()
    out = []
    rest = list(cases)
    extra = []
    restarts = 0
    while rest:
        data = "\n".join(sx(c) for c in rest) + "\n"
        lines, status = _run_once(cmd, data, timeout, env, streams=(restarts > 0 or len(out) > 0))
        if status == "ok" or len(lines) >= len(rest):
            out += lines[: len(rest)]
            extra += lines[len(rest):]
            rest = rest[len(lines):]
            break
        out += lines
        k = len(lines)
        if status in ("hang", "timeout"):
            out.append("!hang no answer within %ds (%s)" % (IDLE_TIMEOUT if status == "hang" else timeout, status))
        else:
            out.append("!%s" % status.replace(" ", "-"))
        rest = rest[k + 1:]
        restarts += 1
        if restarts > 2:
            break
    while len(out) < len(cases):
        out.append("!missing")
    return out[: len(cases)], extra, time.time() - t0


def run_sharded(cmd, cases, shards=16, timeout=900, env=None):
    """same as run_lines, over parallel processes (order preserved)"""
    from concurrent.futures import ThreadPoolExecutor
    if len(cases) < 64:
        return run_lines(cmd, cases, timeout, env)
    n = (len(cases) + shards - 1) // shards
    parts = [cases[i: i + n] for i in range(0, len(cases), n)]
    t0 = time.time()
    with ThreadPoolExecutor(len(parts)) as ex:
        rs = list(ex.map(lambda p: run_lines(cmd, p, timeout, env), parts))
    lines, extra = [], []
    for l, e, _ in rs:
        lines += l
        extra += e
    return lines, extra, time.time() - t0


# ----------------------------------------------------------------------------- shrinking
def subterms_removed(v):
    """candidates obtained by deleting one list element somewhere, or halving a list"""
    if isinstance(v, int):
        if v > 1:
            yield v // 2
        return
    n = len(v)
    if n > 3:
        yield v[: n // 2]
        yield v[n // 2:]
    for i in range(n):
        yield v[:i] + v[i + 1:]
    for i in range(n):
        for sub in subterms_removed(v[i]):
            yield v[:i] + [sub] + v[i + 1:]


def shrink(case, still_fails, budget=400, fixed_prefix=1, wall_budget=150):
    """greedy structural delta-debugging; case[0:fixed_prefix] (the opcode) is kept;
    stops after `budget` candidates or `wall_budget` seconds"""
    cur = case
    tried = 0
    improved = True
    t_end = time.time() + wall_budget
    while improved and tried < budget and time.time() < t_end:
        improved = False
        head, body = cur[:fixed_prefix], cur[fixed_prefix:]
        for cand_body in subterms_removed(body):
            cand = head + cand_body
            tried += 1
            if tried > budget or time.time() > t_end:
                break
            try:
                if still_fails(cand):
                    cur = cand
                    improved = True
                    break
            except Exception:
                pass
    return cur


# ----------------------------------------------------------------------------- findings / evidence
def load_known():
    """known_findings/Cxx.json (one file per property, committed, never written at run time)"""
    d = os.path.join(ROOT, "known_findings")
    out = []
    if os.path.isdir(d):
        for fn in sorted(os.listdir(d)):
            if fn.endswith(".json"):
                out += json.load(open(os.path.join(d, fn)))["findings"]
    return out


def case_hash(c):
    return hashlib.sha1(sx(c).encode()).hexdigest()[:12]


def write_replay(pid, payload):
    d = os.path.join(OUT, "evidence", "replay")
    os.makedirs(d, exist_ok=True)
    h = hashlib.sha1(json.dumps(payload, sort_keys=True, default=str).encode()).hexdigest()[:10]
    p = os.path.join(d, "%s-%s.json" % (pid, h))
    with open(p, "w") as f:
        json.dump(payload, f, indent=1, default=str)
    return p


def write_evidence(pid, ev):
    d = os.path.join(OUT, "evidence")
    os.makedirs(d, exist_ok=True)
    with open(os.path.join(d, pid + ".json"), "w") as f:
        json.dump(ev, f, indent=1, default=str)


# ----------------------------------------------------------------------------- thorough-tier extras
def coqchk(props_v):
    """independent re-check of the compiled property file and everything it depends on"""
    mod = "LV." + props_v[len("theories/"):-2].replace("/", ".")
    rc, out, dt = sh(["coqchk", "-o", "-silent", "-Q", os.path.join(COQ, "theories"), "LV", mod], 1800, cwd=COQ)
    axioms = []
    m = re.search(r"\* Axioms:\s*(.*?)(?:\n\s*\n|\* |\Z)", out, re.S)
    if m:
        axioms = [l.strip() for l in m.group(1).splitlines() if l.strip() and l.strip() != "<none>"]
    return dict(ok=(rc == 0), axioms=axioms, wall_s=round(dt, 1), tail=out[-1500:])


def sexp_coq(v):
    if isinstance(v, int):
        return "(Num (%d)%%Z)" % v
    return "(Lst [" + "; ".join(sexp_coq(x) for x in v) + "])"


def vm_crosscheck(pid, run_import, run_name, cases, outputs):
    """Evaluate the model INSIDE Coq (vm_compute) on a sample of cases and compare with the
    outputs of the extracted binary, so that extraction + the OCaml driver are cross-checked.
    Returns (n_checked, list_of_bad_indices, log)."""
    # very long cases (tens of thousands of list elements) overflow coqc's stack when written
    # out as a Gallina list literal: they are left to the extracted binary alone
    pairs = [(c, parse_sx(o)) for c, o in zip(cases, outputs)
             if not o.startswith("!") and len(o) + len(sx(c)) < 40000]
    if not pairs:
        return 0, [], ""
    # a directory of its own per run: two runs of the same property may overlap
    os.makedirs(os.path.join(BUILD, "vmcheck"), exist_ok=True)
    work = tempfile.mkdtemp(prefix=pid + "-", dir=os.path.join(BUILD, "vmcheck"))
    lines = ["From Coq Require Import List ZArith.", "From LV Require Import Base.Sexp %s." % run_import,
             "Import ListNotations.", "Definition cases : list (sexp * sexp) := ["]
    lines.append(";\n".join("  (%s, %s)" % (sexp_coq(c), sexp_coq(o)) for c, o in pairs))
    lines.append("].")
    lines.append("Definition bad := filter (fun i => negb (let '(c, o) := nth i cases (Lst [], Lst []) in "
                 "sexp_eqb (%s c) o)) (seq 0 (length cases))." % run_name)
    lines.append("Eval vm_compute in (map Z.of_nat bad).")
    with open(os.path.join(work, "cases.v"), "w") as f:
        f.write("\n".join(lines) + "\n")
    rc, out, dt = sh(["coqc", "-noglob", "-Q", os.path.join(COQ, "theories"), "LV", "cases.v"], 1200, cwd=work)
    shutil.rmtree(work, ignore_errors=True)
    if rc != 0:
        return len(pairs), [-1], out[-2000:]
    m = re.search(r"=\s*\[(.*?)\]", out, re.S)
    bad = [int(x) for x in re.findall(r"-?\d+", m.group(1))] if m else [-1]
    return len(pairs), bad, out[-500:]
