"""A small HTML-subset parser and DOM for the C07 oracle (independent of the Coq model).

Handles exactly what tachys' SSR emits for the views the C07 generator builds: text with
character references left as they are (both sides of every comparison are parsed the same
way), `<tag attr="value" …>` / `</tag>`, void elements (br, input, hr), comments
(`<!--…-->` and the bogus comment `<!>`), and `<script>` / `<style>` / `<textarea>` whose
content is text up to their end tag (no tags or comments inside).

`Doc` mimics what a browser does with a *streamed* body: bytes are parsed incrementally,
adjacent character data merges into one Text node, a `<template>`'s children go to its
inert content fragment, and a `<script>` is executed when its end tag is parsed.  The only
scripts known are the two variants emitted by `OooChunk::push_end_with_nonce`; their effect
is re-implemented on the DOM below from reading the JavaScript (TreeWalker over
document.body comments, last match wins; Range [before open, before close);
deleteContents; insertBefore(template.content.cloneNode(true), close); close.remove())."""
import re


class Node:
    __slots__ = ("kind", "data", "children", "parent", "content", "attrs")

    def __init__(self, kind, data="", attrs=None):
        self.kind = kind          # 'el' | 'text' | 'comment' | 'frag'
        self.data = data          # tag name / text / comment data
        self.children = []
        self.parent = None
        self.content = None       # template content fragment
        self.attrs = attrs or {}

    def append(self, n):
        n.parent = self
        self.children.append(n)

    def clone(self):
        c = Node(self.kind, self.data, dict(self.attrs))
        for ch in self.children:
            c.append(ch.clone())
        if self.content is not None:
            c.content = self.content.clone()
        return c


class ScriptError(Exception):
    pass


SCRIPT_RE = re.compile(
    r'^\(function\(\) \{ let id = "([0-9-]*)";let open = undefined;let close = undefined;'
    r'let walker = document\.createTreeWalker\(document\.body, NodeFilter\.SHOW_COMMENT\);'
    r'while\(walker\.nextNode\(\)\) \{if\(walker\.currentNode\.textContent == `s-\$\{id\}o`\)\{ '
    r'open=walker\.currentNode; \} else if\(walker\.currentNode\.textContent == `s-\$\{id\}c`\) '
    r'\{ close = walker\.currentNode;\}\}let range = new Range\(\); range\.setStartBefore\(open\); '
    r'range\.setEndBefore\(close\);(.*)\}\)\(\)$', re.S)
REPLACE_TAIL = ("range.deleteContents(); let tpl = document.getElementById(`${id}f`); "
                "close.parentNode.insertBefore(tpl.content.cloneNode(true), close);close.remove();")
KEEP_TAIL = "close.remove();open.remove();"

TOKEN_RE = re.compile(r"<!--(.*?)-->|<!>|<(/?)([a-zA-Z][a-zA-Z0-9]*)((?:\s+[a-zA-Z-]+=\"[^\"]*\")*)\s*>", re.S)
VOID = {"br", "input", "hr"}
RAWTEXT = {"script", "style", "textarea"}


class Doc:
    def __init__(self):
        self.body = Node("el", "body")
        self.stack = [self.body]       # open elements; a template pushes its content fragment
        self.scripts_run = []          # (id, replace)
        self.script_attrs = []         # attributes of each executed script, same order
        self.pending = ""              # unparsed tail (incomplete token at a chunk boundary)
        self.lenient = False           # scripts other than the replacement scripts are ignored

    # ---- tree construction
    def _cur(self):
        return self.stack[-1]

    def _text(self, s):
        if not s:
            return
        cur = self._cur()
        if cur.children and cur.children[-1].kind == "text":
            cur.children[-1].data += s
        else:
            cur.append(Node("text", s))

    def feed(self, s):
        """parse more bytes of the stream (str)"""
        s = self.pending + s
        self.pending = ""
        i = 0
        n = len(s)
        while i < n:
            cur = self._cur()
            if cur.kind == "el" and cur.data in RAWTEXT:
                end = "</%s>" % cur.data
                j = s.find(end, i)
                if j < 0:
                    self.pending = s[i:]
                    return
                cur.append(Node("text", s[i:j])) if j > i else None
                self.stack.pop()
                i = j + len(end)
                if cur.data == "script":
                    self._run_script(cur)
                continue
            lt = s.find("<", i)
            if lt < 0:
                self._text(s[i:])
                return
            self._text(s[i:lt])
            m = TOKEN_RE.match(s, lt)
            if not m:
                # incomplete token at the end of what we have, or a stray '<'
                if s.find(">", lt) < 0:
                    self.pending = s[lt:]
                    return
                raise ValueError("unparsable markup at %r" % s[lt:lt + 40])
            i = m.end()
            if m.group(0).startswith("<!--"):
                cur.append(Node("comment", m.group(1)))
            elif m.group(0) == "<!>":
                cur.append(Node("comment", ""))
            elif m.group(2) == "/":
                tag = m.group(3).lower()
                # close the nearest open element with that tag
                if tag == "template":
                    # the content fragment is on the stack above the template element
                    while len(self.stack) > 1 and self.stack[-1].kind != "frag":
                        self.stack.pop()
                    if len(self.stack) > 1:
                        self.stack.pop()
                    continue
                k = len(self.stack) - 1
                while k > 0 and not (self.stack[k].kind == "el" and self.stack[k].data == tag):
                    if self.stack[k].kind == "frag":
                        k = 0
                        break
                    k -= 1
                if k > 0:
                    del self.stack[k:]
                else:
                    raise ValueError("stray end tag </%s>" % tag)
            else:
                tag = m.group(3).lower()
                attrs = dict(re.findall(r'([a-zA-Z-]+)="([^"]*)"', m.group(4) or ""))
                el = Node("el", tag, attrs)
                cur.append(el)
                if tag in VOID:
                    continue
                if tag == "template":
                    el.content = Node("frag")
                    self.stack.append(el.content)
                else:
                    self.stack.append(el)

    def finish(self):
        if self.pending:
            raise ValueError("stream ends inside a token: %r" % self.pending[:40])
        if len(self.stack) != 1:
            raise ValueError("stream ends with open elements: %s" %
                             [x.data or x.kind for x in self.stack[1:]])

    # ---- script semantics
    def _walk_comments(self, node, out):
        for ch in node.children:
            if ch.kind == "comment":
                out.append(ch)
            elif ch.kind == "el":
                self._walk_comments(ch, out)      # template *content* is not in children

    def _by_id(self, node, i):
        for ch in node.children:
            if ch.kind == "el":
                if ch.attrs.get("id") == i:
                    return ch
                r = self._by_id(ch, i)
                if r is not None:
                    return r
        return None

    def _run_script(self, el):
        src = "".join(c.data for c in el.children if c.kind == "text")
        m = SCRIPT_RE.match(src)
        if self.lenient and not src.startswith("(function() { let id = "):
            return
        if not m or m.group(2) not in (REPLACE_TAIL, KEEP_TAIL):
            raise ScriptError("unknown script: %r" % src[:80])
        sid, replace = m.group(1), m.group(2) == REPLACE_TAIL
        comments = []
        self._walk_comments(self.body, comments)
        op = cl = None
        for c in comments:
            if c.data == "s-%so" % sid:
                op = c
            elif c.data == "s-%sc" % sid:
                cl = c
        if op is None or cl is None:
            raise ScriptError("script for id %r: marker comment not found (open=%s close=%s)"
                              % (sid, op is not None, cl is not None))
        self.scripts_run.append((sid, replace))
        self.script_attrs.append(dict(el.attrs))
        if replace:
            if op.parent is not cl.parent:
                raise ScriptError("markers of %r are not siblings" % sid)
            par = cl.parent
            a, b = par.children.index(op), par.children.index(cl)
            if a > b:
                raise ScriptError("open marker of %r after its close marker" % sid)
            del par.children[a:b]
            tpl = self._by_id(self.body, sid + "f")
            if tpl is None or tpl.content is None:
                raise ScriptError("template %rf not found" % sid)
            at = par.children.index(cl)
            new = [c.clone() for c in tpl.content.children]
            for c in new:
                c.parent = par
            par.children[at:at] = new
            par.children.remove(cl)
        else:
            cl.parent.children.remove(cl)
            op.parent.children.remove(op)


def visible(node, keep_delivery=False):
    """canonical nested-list form of a subtree; <template>/<script> (the delivery vehicles of
    out-of-order chunks) are left out unless keep_delivery"""
    out = []
    for ch in node.children:
        if ch.kind == "text":
            # a script can leave two Text nodes next to each other where a parser would have
            # produced one; compare normalised (Node.normalize()) trees
            if out and out[-1][0] == "text":
                out[-1] = ("text", out[-1][1] + ch.data)
            else:
                out.append(("text", ch.data))
        elif ch.kind == "comment":
            out.append(("comment", ch.data))
        elif ch.kind == "el":
            if not keep_delivery and ch.data in ("template", "script"):
                continue
            if ch.attrs:
                out.append(("el", ch.data, visible(ch, keep_delivery), tuple(sorted(ch.attrs.items()))))
            else:
                out.append(("el", ch.data, visible(ch, keep_delivery)))
    return out


def parse(s):
    d = Doc()
    d.feed(s)
    d.finish()
    return d


def text_of(tree):
    """all character data of a canonical tree, in order"""
    out = []
    for n in tree:
        if n[0] == "text":
            out.append(n[1])
        elif n[0] == "el":
            out.append(text_of(n[2]))
    return "".join(out)


def strip_markers(tree):
    """remove empty comments (<!>) and merge the text around them — used only to *classify*
    a difference as 'separator markers only'"""
    out = []
    for n in tree:
        if n[0] == "comment" and n[1] == "":
            continue
        if n[0] == "el":
            n = ("el", n[1], strip_markers(n[2])) + tuple(n[3:])
        if n[0] == "text" and out and out[-1][0] == "text":
            out[-1] = ("text", out[-1][1] + n[1])
        else:
            out.append(n)
    return out


def is_branch(n):
    return n[0] == "comment" and (n[1].startswith("bo-") or n[1].startswith("bc-"))


def strip_branch(tree):
    """remove the branch marker comments (<!--bo-ID-->, <!--bc-ID-->) of a `_branching` render"""
    out = []
    for n in tree:
        if is_branch(n):
            continue
        if n[0] == "el":
            n = ("el", n[1], strip_branch(n[2])) + tuple(n[3:])
        if n[0] == "text" and out and out[-1][0] == "text":
            out[-1] = ("text", out[-1][1] + n[1])
        else:
            out.append(n)
    return out


def branch_error(tree):
    """the branch markers among the children of every element must be properly nested pairs
    <!--bo-ID--> … <!--bc-ID--> (as in every synchronous render); returns a message or None"""
    stack = []
    for n in tree:
        if is_branch(n):
            if n[1].startswith("bo-"):
                stack.append(n[1][3:])
            elif not stack or stack[-1] != n[1][3:]:
                return "branch marker <!--%s--> closes %s" % (n[1], "<!--bo-%s-->" % stack[-1] if stack else "nothing")
            else:
                stack.pop()
        elif n[0] == "el":
            e = branch_error(n[2])
            if e:
                return e
    if stack:
        return "branch marker <!--bo-%s--> is never closed" % stack[-1]
    return None
