"""Independent reference for the browser side of the server->client data channel (C12):

  * `script_content(html_after_start_tag)`: the WHATWG HTML tokenizer's script-data states
    (13.2.5.4, 13.2.5.15-31): where does the script element that was just opened end, and what
    is its text;
  * `preprocess(text)`: HTML input-stream newline normalisation (13.2.3.5);
  * a small ECMAScript interpreter for the statements the hydration scripts consist of \u2014
    assignments to globals and to indexed elements, array literals, `.push(...)` calls,
    numbers and string literals (ES2019 12.8.4 incl. line continuations, \\x, \\u, \\u{},
    Annex B legacy octal and non-octal-decimal escapes, HTML-like comments);
  * `to_rust_string(units)`: what wasm-bindgen's `JsValue::as_string` hands to Rust
    (UTF-16 -> UTF-8 through TextEncoder: lone surrogates become U+FFFD).

Written from the specifications, not from the Coq model or the Rust code, so that it can
serve as the oracle. `python3 -m gen.jsliteral` cross-checks the literal decoder against
node when a `node` binary is available (development aid, not used by ./check).
"""

# ----------------------------------------------------------------------------- HTML side
ASCII_WS = "\t\n\f\r "


def preprocess(text):
    """normalize newlines: CR LF -> LF, remaining CR -> LF"""
    return text.replace("\r\n", "\n").replace("\r", "\n")


def script_content(s, tag="script"):
    """`s` is the input right after a `<script ...>` start tag. Returns
    (text, end, flags): the text of the element as the tokenizer emits it (NUL replaced by
    U+FFFD), the index in `s` where the end tag starts (None if the element never ends) and
    a set of notes ('escaped' if a `<!--` switched to the escaped states, 'double-escaped')."""
    DATA, LT, END_OPEN, END_NAME, ESC_START, ESC_START_DASH, ESCAPED, ESC_DASH, ESC_DASH_DASH, \
        ESC_LT, ESC_END_OPEN, ESC_END_NAME, DESC_START, DESCAPED, DESC_DASH, DESC_DASH_DASH, \
        DESC_LT, DESC_END = range(18)
    out = []
    flags = set()
    st = DATA
    i = 0
    n = len(s)
    tmp = ""
    tag_start = None  # index of the '<' of a candidate end tag

    def emit(c):
        out.append("\ufffd" if c == "\0" else c)

    while True:
        c = s[i] if i < n else None
        if st == DATA:
            if c is None:
                return "".join(out), None, flags
            if c == "<":
                st = LT
                tag_start = i
            else:
                emit(c)
            i += 1
        elif st == LT:
            if c == "/":
                tmp = ""
                st = END_OPEN
                i += 1
            elif c == "!":
                st = ESC_START
                out.append("<!")
                i += 1
            else:
                out.append("<")
                st = DATA  # reconsume
        elif st == END_OPEN:
            if c is not None and c.isascii() and c.isalpha():
                tmp = ""
                st = END_NAME  # reconsume
            else:
                out.append("</")
                st = DATA
        elif st in (END_NAME, ESC_END_NAME):
            back = DATA if st == END_NAME else ESCAPED
            if c is not None and c in ASCII_WS + "/>" and tmp.lower() == tag:
                return "".join(out), tag_start, flags
            if c is not None and c.isascii() and c.isalpha():
                tmp += c
                i += 1
            else:
                out.append("</" + tmp)
                st = back  # reconsume
        elif st == ESC_START:
            if c == "-":
                out.append("-")
                st = ESC_START_DASH
                i += 1
            else:
                st = DATA
        elif st == ESC_START_DASH:
            if c == "-":
                out.append("-")
                st = ESC_DASH_DASH
                flags.add("escaped")
                i += 1
            else:
                st = DATA
        elif st == ESCAPED:
            if c is None:
                return "".join(out), None, flags
            if c == "-":
                out.append("-")
                st = ESC_DASH
            elif c == "<":
                st = ESC_LT
                tag_start = i
            else:
                emit(c)
            i += 1
        elif st == ESC_DASH:
            if c is None:
                return "".join(out), None, flags
            if c == "-":
                out.append("-")
                st = ESC_DASH_DASH
            elif c == "<":
                st = ESC_LT
                tag_start = i
            else:
                emit(c)
                st = ESCAPED
            i += 1
        elif st == ESC_DASH_DASH:
            if c is None:
                return "".join(out), None, flags
            if c == "-":
                out.append("-")
            elif c == "<":
                st = ESC_LT
                tag_start = i
            elif c == ">":
                out.append(">")
                st = DATA
            else:
                emit(c)
                st = ESCAPED
            i += 1
        elif st == ESC_LT:
            if c == "/":
                tmp = ""
                st = ESC_END_OPEN
                i += 1
            elif c is not None and c.isascii() and c.isalpha():
                tmp = ""
                out.append("<")
                st = DESC_START  # reconsume
            else:
                out.append("<")
                st = ESCAPED  # reconsume
        elif st == ESC_END_OPEN:
            if c is not None and c.isascii() and c.isalpha():
                tmp = ""
                st = ESC_END_NAME
            else:
                out.append("</")
                st = ESCAPED
        elif st == DESC_START:
            if c is not None and c in ASCII_WS + "/>":
                emit(c)
                if tmp.lower() == "script":
                    st = DESCAPED
                    flags.add("double-escaped")
                else:
                    st = ESCAPED
                i += 1
            elif c is not None and c.isascii() and c.isalpha():
                tmp += c
                emit(c)
                i += 1
            else:
                st = ESCAPED
        elif st == DESCAPED:
            if c is None:
                return "".join(out), None, flags
            if c == "-":
                out.append("-")
                st = DESC_DASH
            elif c == "<":
                out.append("<")
                st = DESC_LT
            else:
                emit(c)
            i += 1
        elif st == DESC_DASH:
            if c is None:
                return "".join(out), None, flags
            if c == "-":
                out.append("-")
                st = DESC_DASH_DASH
            elif c == "<":
                out.append("<")
                st = DESC_LT
            else:
                emit(c)
                st = DESCAPED
            i += 1
        elif st == DESC_DASH_DASH:
            if c is None:
                return "".join(out), None, flags
            if c == "-":
                out.append("-")
            elif c == "<":
                out.append("<")
                st = DESC_LT
            elif c == ">":
                out.append(">")
                st = DATA
            else:
                emit(c)
                st = DESCAPED
            i += 1
        elif st == DESC_LT:
            if c == "/":
                tmp = ""
                out.append("/")
                st = DESC_END
                i += 1
            else:
                st = DESCAPED
        elif st == DESC_END:
            if c is not None and c in ASCII_WS + "/>":
                emit(c)
                st = ESCAPED if tmp.lower() == "script" else DESCAPED
                i += 1
            elif c is not None and c.isascii() and c.isalpha():
                tmp += c
                emit(c)
                i += 1
            else:
                st = DESCAPED


def script_element_text(chunk, tag="script"):
    """what a browser takes as the source text of `<script>` + chunk + `</script>`; returns
    (text, problem) where problem is None iff the element ends exactly at the end tag that
    was appended"""
    html = preprocess(chunk + "</" + tag + ">")
    text, end, flags = script_content(html, tag)
    want_end = len(preprocess(chunk))
    if end is None:
        return text, "the script element is never closed (%s)" % ", ".join(sorted(flags) or ["eof"])
    if end != want_end:
        return text, "the script element ends early, at offset %d of %d" % (end, want_end)
    return text, None


# ----------------------------------------------------------------------------- ECMAScript side
class JSError(Exception):
    pass


LINE_TERMINATORS = "\n\r\u2028\u2029"
JS_WS = "\t\v\f \u00a0\ufeff\u1680\u2000\u2001\u2002\u2003\u2004\u2005\u2006\u2007\u2008\u2009\u200a\u202f\u205f\u3000"
HEXD = "0123456789abcdefABCDEF"


def utf16_units(ch):
    cp = ord(ch)
    if cp < 0x10000:
        return [cp]
    cp -= 0x10000
    return [0xD800 + (cp >> 10), 0xDC00 + (cp & 0x3FF)]


def to_rust_string(units):
    """UTF-16 code units -> str, lone surrogates -> U+FFFD (TextEncoder semantics)"""
    out = []
    i = 0
    while i < len(units):
        u = units[i]
        if 0xD800 <= u <= 0xDBFF and i + 1 < len(units) and 0xDC00 <= units[i + 1] <= 0xDFFF:
            out.append(chr(0x10000 + ((u - 0xD800) << 10) + (units[i + 1] - 0xDC00)))
            i += 2
            continue
        out.append("\ufffd" if 0xD800 <= u <= 0xDFFF else chr(u))
        i += 1
    return "".join(out)


def read_string_literal(src, i):
    """src[i] is a quote character; returns (code units, index after the closing quote).
    Sloppy-mode (classic script) semantics."""
    q = src[i]
    i += 1
    units = []
    n = len(src)
    while True:
        if i >= n:
            raise JSError("unterminated string literal")
        c = src[i]
        if c == q:
            return units, i + 1
        if c in "\n\r":
            raise JSError("line terminator in string literal")
        if c != "\\":
            units += utf16_units(c)
            i += 1
            continue
        i += 1
        if i >= n:
            raise JSError("unterminated escape")
        e = src[i]
        if e in LINE_TERMINATORS:  # LineContinuation
            i += 1
            if e == "\r" and i < n and src[i] == "\n":
                i += 1
            continue
        simple = {"b": 8, "f": 12, "n": 10, "r": 13, "t": 9, "v": 11}
        if e in simple:
            units.append(simple[e])
            i += 1
        elif e == "x":
            h = src[i + 1:i + 3]
            if len(h) != 2 or any(ch not in HEXD for ch in h):
                raise JSError("bad \\x escape")
            units.append(int(h, 16))
            i += 3
        elif e == "u":
            if i + 1 < n and src[i + 1] == "{":
                j = src.find("}", i + 2)
                h = src[i + 2:j] if j >= 0 else ""
                if j < 0 or not h or any(ch not in HEXD for ch in h) or int(h, 16) > 0x10FFFF:
                    raise JSError("bad \\u{} escape")
                units += utf16_units(chr(int(h, 16))) if not 0xD800 <= int(h, 16) <= 0xDFFF else [int(h, 16)]
                i = j + 1
            else:
                h = src[i + 1:i + 5]
                if len(h) != 4 or any(ch not in HEXD for ch in h):
                    raise JSError("bad \\u escape")
                units.append(int(h, 16))
                i += 5
        elif e in "01234567":
            # \0 [lookahead not a decimal digit] | LegacyOctalEscapeSequence (B.1.2)
            j = i + 1
            digits = e
            if j < n and src[j] in "01234567":
                digits += src[j]
                j += 1
                if e in "0123" and j < n and src[j] in "01234567":
                    digits += src[j]
                    j += 1
            units.append(int(digits, 8))
            i = j
        else:
            # \8 \9, quotes, backslash and every other NonEscapeCharacter: the character itself
            units += utf16_units(e)
            i += 1


class JSArray:
    def __init__(self, items=()):
        self.props = {}
        self.length = 0
        for x in items:
            self.push(x)

    def push(self, x):
        self.props[float(self.length)] = x
        self.length += 1

    def set(self, key, v):
        self.props[key] = v
        if isinstance(key, float) and key >= 0 and key == int(key) and key < 2 ** 32 - 1:
            self.length = max(self.length, int(key) + 1)

    def get(self, key):
        return self.props.get(key)

    def items(self):
        """dense prefix as a python list (holes -> None)"""
        return [self.props.get(float(i)) for i in range(self.length)]


class JSString:
    def __init__(self, units):
        self.units = list(units)

    def rust(self):
        return to_rust_string(self.units)

    def __eq__(self, o):
        return isinstance(o, JSString) and o.units == self.units

    def __hash__(self):
        return hash(tuple(self.units))

    def __repr__(self):
        return "JSString(%r)" % self.rust()


def tokenize(src):
    toks = []
    i = 0
    n = len(src)
    line_start = True
    while i < n:
        c = src[i]
        if c in LINE_TERMINATORS:
            line_start = True
            i += 1
            continue
        if c in JS_WS:
            i += 1
            continue
        if src.startswith("//", i) or src.startswith("<!--", i) or (line_start and src.startswith("-->", i)):
            while i < n and src[i] not in LINE_TERMINATORS:
                i += 1
            continue
        if src.startswith("/*", i):
            j = src.find("*/", i + 2)
            if j < 0:
                raise JSError("unterminated comment")
            i = j + 2
            continue
        line_start = False
        if c in "\"'":
            units, i = read_string_literal(src, i)
            toks.append(("str", JSString(units)))
        elif c.isdigit():
            j = i
            while j < n and src[j].isdigit():
                j += 1
            if j < n and (src[j].isalpha() or src[j] in "._$"):
                raise JSError("unsupported numeric literal")
            if len(src[i:j]) > 1 and src[i] == "0":
                raise JSError("unsupported (octal-like) numeric literal")
            toks.append(("num", float(int(src[i:j]))))
            i = j
        elif c.isalpha() or c in "_$":
            j = i
            while j < n and (src[j].isalnum() or src[j] in "_$"):
                j += 1
            toks.append(("id", src[i:j]))
            i = j
        elif c in "=[],;.()":
            toks.append((c, c))
            i += 1
        else:
            raise JSError("unexpected character %r at %d" % (c, i))
    toks.append(("eof", None))
    return toks


class Interp:
    """evaluates one classic script against a dict of globals"""

    def __init__(self, glob):
        self.g = glob

    def run(self, src):
        self.t = tokenize(src)
        self.p = 0
        while self.peek() != "eof":
            if self.peek() == ";":
                self.p += 1
                continue
            self.expr()
            if self.peek() == ";":
                self.p += 1
            elif self.peek() != "eof":
                raise JSError("expected ';' but found %r" % (self.t[self.p],))

    def peek(self):
        return self.t[self.p][0]

    def take(self, kind):
        if self.peek() != kind:
            raise JSError("expected %r but found %r" % (kind, self.t[self.p]))
        v = self.t[self.p][1]
        self.p += 1
        return v

    # a reference is ('glob', name) | ('prop', object, key) | ('val', value)
    def expr(self):
        ref = self.postfix()
        if self.peek() == "=":
            self.p += 1
            v = self.expr()
            if ref[0] == "glob":
                self.g[ref[1]] = v
            elif ref[0] == "prop":
                if not isinstance(ref[1], JSArray):
                    raise JSError("assignment to a property of a non-array")
                ref[1].set(ref[2], v)
            else:
                raise JSError("invalid assignment target")
            return v
        return self.value(ref)

    def value(self, ref):
        if ref[0] == "glob":
            if ref[1] not in self.g:
                raise JSError("ReferenceError: %s is not defined" % ref[1])
            return self.g[ref[1]]
        if ref[0] == "prop":
            if not isinstance(ref[1], JSArray):
                raise JSError("property read on a non-array")
            return ref[1].get(ref[2])
        return ref[1]

    def postfix(self):
        k = self.peek()
        if k == "id":
            ref = ("glob", self.take("id"))
        elif k == "num":
            ref = ("val", self.take("num"))
        elif k == "str":
            ref = ("val", self.take("str"))
        elif k == "[":
            self.p += 1
            arr = JSArray()
            while self.peek() != "]":
                if self.peek() == ",":
                    raise JSError("array holes are not supported")
                arr.push(self.expr())
                if self.peek() == ",":
                    self.p += 1
                elif self.peek() != "]":
                    raise JSError("expected ',' or ']' in array literal, found %r" % (self.t[self.p],))
            self.p += 1
            ref = ("val", arr)
        elif k == "(":
            self.p += 1
            v = self.expr()
            self.take(")")
            ref = ("val", v)
        else:
            raise JSError("unexpected token %r" % (self.t[self.p],))
        while True:
            k = self.peek()
            if k == "[":
                self.p += 1
                obj = self.value(ref)
                key = self.expr()
                self.take("]")
                if isinstance(key, JSString):
                    raise JSError("string keys are not supported")
                ref = ("prop", obj, key)
            elif k == ".":
                self.p += 1
                name = self.take("id")
                obj = self.value(ref)
                if name != "push" or not isinstance(obj, JSArray):
                    raise JSError("unsupported member .%s" % name)
                self.take("(")
                args = []
                while self.peek() != ")":
                    args.append(self.expr())
                    if self.peek() == ",":
                        self.p += 1
                self.p += 1
                for a in args:
                    obj.push(a)
                ref = ("val", float(obj.length))
            else:
                return ref


def run_scripts(chunks):
    """execute each chunk as the body of its own <script> element (HTML parsing included).
    Returns (globals, problems)."""
    g = {}
    problems = []
    for k, chunk in enumerate(chunks):
        text, prob = script_element_text(chunk)
        if prob:
            problems.append("chunk %d: %s" % (k, prob))
        try:
            Interp(g).run(text)
        except JSError as ex:
            problems.append("chunk %d does not evaluate: %s" % (k, ex))
    return g, problems


# ----------------------------------------------------------------------------- self test
def _selftest():
    import json
    import random
    import shutil
    import subprocess
    rng = random.Random(7)
    alpha = ["\\", "\\", "\\", '"', "'", "0", "1", "7", "8", "9", "x", "u", "{", "}", "a", "f", "A", "\n", "\r",
             "\u2028", "\u2029", "<", "n", "t", "v", "b", "4", "3", "\U0001F600", "\u00e9", "D", "8", "0", "0"]
    srcs = []
    for _ in range(6000):
        body = "".join(rng.choice(alpha) for _ in range(rng.randint(0, 9)))
        srcs.append('"' + body + '"')
    mine = []
    for s in srcs:
        try:
            units, j = read_string_literal(s, 0)
            mine.append(units if j == len(s) else None)
        except JSError:
            mine.append(None)
    node = shutil.which("node")
    if not node:
        print("node not available; decoded %d literals without a reference" % len(srcs))
        return 0
    prog = ("const fs=require('fs');const xs=JSON.parse(fs.readFileSync(0,'utf8'));"
            "const out=xs.map(s=>{try{const v=(0,eval)(s);if(typeof v!=='string')return null;"
            "return Array.from({length:v.length},(_,i)=>v.charCodeAt(i))}catch(e){return null}});"
            "console.log(JSON.stringify(out))")
    r = subprocess.run([node, "-e", prog], input=json.dumps(srcs), capture_output=True, text=True)
    ref = json.loads(r.stdout)
    bad = [(s, a, b) for s, a, b in zip(srcs, mine, ref) if a != b]
    print("literals: %d, decodable: %d, disagreements with node: %d" % (len(srcs), sum(1 for x in ref if x is not None), len(bad)))
    for s, a, b in bad[:10]:
        print(repr(s), a, b)
    return 1 if bad else 0


if __name__ == "__main__":
    import sys
    sys.exit(_selftest())
