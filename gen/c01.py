"""C01 — derived values always equal a from-scratch recomputation."""
from . import common as C
from . import rxlib as X

PID = "C01"
PROPS_V = "theories/Props/Properties_C01.v"
MODEL_NAME = "Reactive/Graph.v"
HARNESS = "rx"
HARNESS_ARGS = ["c01"]
ALLOWED_AXIOMS = []
RUN_IMPORT = "Reactive.GraphRun"
READY = True
SHRINK_PREFIX = 1
valid_case = X.valid_case
describe = X.describe

RULE = ("one PRNG (VERIF_SEED) draws a DAG of 3-12 nodes (quick; up to 30 thorough): 1-3 leading signals of every flavour "
        "(ArcRwSignal, signal() pair, RwSignal, ArcTrigger-backed cell, arc_signal() pair: both notification paths), then "
        "ArcMemo / Memo (PartialEq, always-changed, or a comparator coarser than equality: new_with_compare(parity differs)), "
        "closures / Signal::derive / ArcSignal::derive, type-erased wrappers around earlier nodes (Signal::from, ArcSignal::from, "
        "Signal::stored, MappedSignal / ArcMappedSignal, MaybeSignal::from over every signal flavour, memo and derived signal), bodies from the "
        "expression grammar (chains, diamonds, fan-in, conditional reads switched by signals, get_untracked, untrack(..), "
        "repeated reads), and a history of 10-60 set (values 0..3, so equal-value writes are frequent) / notify / read "
        "operations, in a fifth of the cases with one or two arena signals / memos disposed in the middle (later reads of them by "
        "bodies give 0 and track nothing); a second family adds effects (no writes) with partial executor progress between the operations; "
        "a 'zones' family builds memos `tracked + untrack(|| stale_memo + signal ...)` (several reads in one untrack zone, the memo "
        "pulled first) and writes the untracked sources; an 'immediate' family puts ImmediateEffects among the subscribers (they re-run "
        "and re-subscribe inside the marking phase of a write; oracle only); a 'deep' family reads the far end of chains of 270-450 "
        "(thorough: up to 700) memos, a few links being small diamonds; a 'dynamic' family has memos (and effects) whose bodies "
        "create further memos (ArcMemo / arena Memo) at run time, re-created by every run of their creator (oracle only). "
        "Since the anchor coverage audit half of the cases of every stream carry API VARIANTS on their nodes (fields the model's decoder does not read, so the traces are still compared with the model): every signal / memo / wrapper is read through one of get, with, *read(), track() + get_untracked(), try_get (and the untracked siblings); every signal is written through one of set, update, maybe_update(true), a write() guard, try_set, try_update, a SignalSetter (from(WriteSignal) / from(RwSignal) / map), update_untracked + notify, a MappedSignal / ArcMappedSignal view, write_untracked + notify (and notified through notify(), an untouched write guard or update(|_| {})); memos are built with new / new_with_compare, new_owning (the body returns the changed flag) or as the other handle type and converted; derived signals also as MaybeSignal::derive, MaybeProp (from / derive), Signal<Option<T>>::from, Signal::from(MaybeSignal), derive_local / stored_local / Signal<_, LocalStorage>::from, From<T>; effects also as Effect::new_sync, Effect::watch_sync, RenderEffect::new_isomorphic / new_with_value, ImmediateEffect::new_isomorphic / new_scoped / new_mut; an effect is also disposed through Dispose::dispose / Effect::stop on its handle; a case flag makes the executor hand out a NEW waker on every poll (older wakers are dead) and another one switches untrack to untrack_with_diagnostics. A 'wide' family has 17-40 direct subscribers on one signal; a 'silent' family (oracle only) interleaves operations that are NOT writes (maybe_update returning false, write().untrack(), try_maybe_update -> (false, _), update_untracked(|_| {}), a dropped write_untracked guard): values must stay. "
        "A 'threads' family (oracle only, 12 cases) reads an ArcMemo on another thread right after a write while a third thread holds a read guard "
        "of it or of the memo below it ((12 g r s v)): the read may wait for the guard but must return the current value. "
        "A case is non-trivial when some memo body ran at least twice; distinct = distinct case hash.")
TRUSTED = [
    "Coq 8.16.1 kernel (coqc); no axioms: every theorem of Properties_C01.v is 'Closed under the global context'",
    "extraction to OCaml with ExtrOcamlBasic only, ocamlfind ocamlopt 4.13.1, extract/driver.ml sexp I/O",
    "harness/rx (Rust): builds the real reactive_graph objects, user closures interpret the case's expression trees, "
    "logs every body invocation and every read (value, tracked?) to a thread-local trace",
    "modelled, not verified: RwLock/Arc/Weak semantics (single thread, no poisoning), the OBSERVER thread-local, "
    "arena storage of Memo/RwSignal/ReadSignal/WriteSignal (a disposed item drops its value and subscriber set; the harness "
    "reads a disposed handle with try_get and takes None as 0), i64 arithmetic without overflow",
    "the Coq model has static graphs only; memos created inside other computations (a memo / effect body that creates memos "
    "every time it runs: 'dynamic' family, templates instantiated at run time, each instance with an id of its own in the "
    "trace) are checked by the Python oracle only (from-scratch recomputation of every read), not compared with the model",
    "ImmediateEffect is not part of the Coq model: the 'immediate' cases are checked by the Python oracle only; reads made "
    "inside the marking phase of a write (by an ImmediateEffect, its source check, or what they pull) are not checked: they "
    "see not-yet-marked memos by design; every read made after the write has returned is",
    "API variants (coverage/C01.md, C09.md, C02.md): the variant fields of a case are ignored by the model's decoder (GraphRun.dec_decl / dec_op read the fields before them), so the model runs the construct each variant must be equivalent to (get for every read path, set for every write path, Effect::new for new_sync, Effect::watch for watch_sync, RenderEffect::new for new_isomorphic / new_with_value, owner cleanup for Dispose::dispose / Effect::stop); that equivalence is COMPARED (trace equality on every run) and judged by the Python oracle, NOT PROVED: the theorems speak about the modelled constructs",
]
ASSUMPTIONS = [
    "single thread (except the fixed three-thread scenario of the 'threads' family: guard holder, writer, reader, sequenced by channels; "
    "cross-thread behaviour in general is C19's ground); user closures are deterministic and pure (memo bodies do not write signals)",
    "the dependency graph is a DAG given by creation order (node i reads only nodes j < i)",
    "a memo whose comparator is coarser than equality always holds what its function gives; its subscribers are, by design, "
    "not re-run for a change the comparator ignores: 'current value' of such a source means 'current up to its comparator'",
    "disposing a source is not a change: what a computation logged about it stands until the computation runs again for "
    "another reason; disposed nodes are not written, notified or read from the top level afterwards, are not written by effects "
    "and are not wrapped (a wrapper keeps the value alive)",
    "deep graphs: MemoInner::mark_check re-propagates on every incoming path (guard != Dirty, always recurses), so the push "
    "phase over k stacked diamonds costs 2^k (a ladder of ~300 stacked diamonds does not return on the unchanged code: a "
    "performance cliff, not a wrong value); generated deep graphs are chains with at most 5 diamonds",
    "an operation that does not notify is not a write: maybe_update / try_maybe_update whose closure returns false, a write() guard that is untracked before it is dropped, update_untracked / write_untracked without a following notify() leave the value as it is in the generated cases; a value stored without notification (update_untracked that really changes it) is outside the property (the graph cannot know) and is not generated",
]
LEVEL_TEXT = ("Coq proofs about an executable Gallina transcription of MemoInner (mark_dirty / mark_check / update_if_necessary), "
              "the signal notification path, Track::track, untrack and derived signals, for all well-formed graphs and all "
              "histories; tied to /repo by running the extracted model and the real objects on the same generated programs and "
              "histories every run (full event traces compared), plus an independent from-scratch recomputation in Python.")
LEVEL_NOTE = "see theorem list in Properties_C01.v; static graphs; trusted: Coq kernel, extraction, Rust harness."
TECHNIQUE = "Coq proof (global invariant preserved by every operation, induction on node index inside reads) + differential correspondence of the extracted model with the Rust code"


def _main_stream(rng, tier):
    n1, n2 = (12000, 4000) if tier == "quick" else (120000, 40000)
    big = 12 if tier == "quick" else 30
    for i in range(n1):
        prog = X.gen_program(rng, rng.randint(3, big if rng.random() < 0.3 else 9), 0, p_der=0.25, new_wrappers=True)
        ops = X.gen_ops(rng, prog, rng.randint(10, 60), w=(0.38, 0.05, 0.57, 0, 0, 0), p_drop=0.2)
        if i % 2:
            X.add_variants(rng, prog, 0.6)       # other entry points of the same mechanism (see rxlib)
        yield dict(case=C.norm(X.with_flags(rng, prog, ops, 0.15 if i % 2 else 0)), kind="memos", compare=True)
    for i in range(n2):
        prog = X.gen_program(rng, rng.randint(4, 11), rng.randint(1, 3), allow_wr=False, p_der=0.25, new_wrappers=True)
        ops = X.gen_ops(rng, prog, rng.randint(10, 40), w=(0.32, 0.04, 0.36, 0.14, 0.12, 0.02), p_drop=0.2)
        if i % 2:
            X.add_variants(rng, prog, 0.6)
            ops = X.vary_disposals(rng, prog, ops)
        yield dict(case=C.norm(X.with_flags(rng, prog, ops, 0.3 if i % 2 else 0)), kind="memos+effects", compare=True)
    # untrack ZONES with several reads (a stale memo pulled first, then signals), the untracked sources written
    for i in range(1500 if tier == "quick" else 15000):
        zc = X.gen_zone_case(rng)
        if i % 2:
            X.add_variants(rng, zc[0], 0.6)
            zc = X.with_flags(rng, zc[0], zc[1], 0.5)
        yield dict(case=C.norm(zc), kind="zones", compare=True)
    # width: many direct subscribers of one signal (the subscriber set grows past its initial capacity)
    for i in range(60 if tier == "quick" else 600):
        wc = X.gen_wide_case(rng, rng.randint(17, 40), rng.choice([0, 0, 1, 2]))
        if i % 2:
            X.add_variants(rng, wc[0], 0.3)
        yield dict(case=C.norm(wc), kind="wide", compare=True)
    # a memo read on another thread while a third thread holds a read guard of it: the read may wait for the guard, but
    # must return the current value (oracle only; each case takes ~0.15 s per guarded read that has to wait)
    for i in range(12 if tier == "quick" else 60):
        yield dict(case=C.norm(X.gen_threads_case(rng)), kind="threads", compare=False)
    # operations that are NOT writes (maybe_update returning false, write().untrack(), ...): values must stay
    for i in range(600 if tier == "quick" else 6000):
        prog = X.gen_program(rng, rng.randint(3, 9), rng.choice([0, 0, 1]), allow_wr=False, p_der=0.25)
        X.add_variants(rng, prog, 0.4)
        ops = X.add_silent(rng, prog, X.gen_ops(rng, prog, rng.randint(8, 30), w=(0.3, 0.04, 0.5, 0.06, 0.1, 0)))
        yield dict(case=C.norm([prog, ops]), kind="silent", compare=False)
    # ImmediateEffect subscribers: they run inside the marking phase of a write and change subscriber lists while
    # the signal is still notifying (not modelled: oracle only; the reads made after each write are checked)
    for i in range(2500 if tier == "quick" else 25000):
        ne = rng.choice([1, 1, 2])
        prog = X.gen_program(rng, rng.randint(ne + 2, 9), ne, eff_kinds=(5,), allow_wr=False, p_untr=0.05, p_der=0.2)
        ops = X.gen_ops(rng, prog, rng.randint(6, 30), w=(0.45, 0.05, 0.5, 0.0, 0.0, 0.0))
        if i % 2:
            X.add_variants(rng, prog, 0.6)
        yield dict(case=C.norm([prog, ops]), kind="immediate", compare=False)
    # memos created inside other computations: templates that a memo / effect body instantiates at run time, every
    # time it runs (not modelled: oracle only)
    for i in range(2500 if tier == "quick" else 25000):
        we = rng.random() < 0.3
        prog = X.gen_dynamic_program(rng, rng.choice([1, 1, 2]), with_effects=we)
        if we:
            ops = X.gen_ops(rng, prog, rng.randint(6, 30), w=(0.35, 0.04, 0.3, 0.13, 0.14, 0.04)) + [[4]]
        else:
            ops = X.gen_ops(rng, prog, rng.randint(6, 30), w=(0.42, 0.05, 0.53, 0, 0, 0))
        if i % 2:
            X.add_variants(rng, prog, 0.5)
        yield dict(case=C.norm(X.with_flags(rng, prog, ops, 0.3 if i % 2 else 0)), kind="dynamic", compare=False)


def generate(rng, tier):
    # deep chains (a few links are small diamonds), read at the far end; spread over the stream
    deep = []
    for i in range(6 if tier == "quick" else 24):
        big = tier != "quick" and i % 3 == 0       # (the model's cost grows with the cube of the depth)
        depth = rng.randint(500, 700) if big else rng.randint(270, 400)
        deep.append(dict(case=C.norm(X.gen_deep_case(rng, depth, n_diamonds=0 if big else rng.choice([0, 2, 5]), with_effect=(i % 3 == 2))),
                         kind="deep", compare=True))
    return X.interleave(_main_stream(rng, tier), deep, 3000 if tier == "quick" else 8000)

def oracle(item, impl):
    return X.run_oracle(item, impl, X.C01Hooks())


def nontrivial(item, model):
    if isinstance(model, str):
        return False
    runs = {}
    for e in model:
        if e[0] == 1:
            runs[e[1]] = runs.get(e[1], 0) + 1
    prog = item["case"][0]
    return any(n >= 2 and i < len(prog) and prog[i][0] == X.MEMO for i, n in runs.items())


def coverage_extra(results):
    reads = sum(sum(1 for e in r["impl"] if e[0] == 2) for r in results if not isinstance(r["impl"], str))
    runs = sum(sum(1 for e in r["impl"] if e[0] == 1) for r in results if not isinstance(r["impl"], str))
    return dict(reads_checked=reads, body_invocations=runs)
