"""C11 — keyed lists keep item identity and end in the new order."""
import itertools

from . import common as C

PID = "C11"
PROPS_V = "theories/Props/Properties_C11.v"
MODEL_NAME = "Dom/Keyed.v"
HARNESS = "dom"
HARNESS_ARGS = ["c11"]
ALLOWED_AXIOMS = []
READY = True
RUN_IMPORT = "Dom.KeyedRun"

RULE = ("case = (m npre npost (l0 l1 .. ln)): a real tachys keyed(..) view whose items own m in {1,2,3} DOM nodes is "
        "built from l0, mounted between npre/npost text siblings of one parent, then rebuilt with l1..ln. Every run "
        "contains ALL canonical duplicate-free pairs (from = [0..n), to over old keys and canonically named fresh keys, "
        "both of length <= 6, at most 7 keys in total; 7 / 8 in the thorough tier), each in two sibling/m variants, plus "
        "randomly relabelled pairs, random pairs of length <= 12 over 16 keys and histories of 3-8 successive updates "
        "(all from the PRNG seeded by VERIF_SEED); and modes 11/12: the real leptos <For> / <ForEnumerate> mounted with "
        "mount_to_renderer, rows creating an RwSignal (rendered as text), a StoredValue and an on_cleanup inside the "
        "children closure, histories of 2-7 lists, every rendered row's signal written after every update; mode 13 "
        "(oracle only): NESTED leptos <For>: the outer row of key k is an inner <For> over the row's own signal "
        "(+ a trailing <li> for odd k), outer histories of 2-6 lists, between two outer updates every rendered row's inner "
        "list is replaced (a key-dependent rotation / truncation of a random base list of <= 4 inner keys); mode 14: the "
        "real leptos <For each=move || store.group().rows() key=|row| row.id().get()> over a KEYED FIELD of a "
        "#[derive(Store)] struct (#[store(key: i64 = |r| r.id)] rows: Vec<Row>, one level below the root), i.e. "
        "reactive_stores' KeyedSubfield::into_iter / AtKeyed rows, every row rendering the label of ITS item through its "
        "AtKeyed subfield, histories of 2-7 lists each written through the keyed field's guard, rows().set, the "
        "parent's guard / update, the root's guard or store.set, or as a BATCHED update (update_untracked, then every retained "
        "row writes through its AtKeyed handle before anything iterates the field again, then notify) (mixed at random, some histories only through the field, "
        "some only through ancestors), the label of every rendered item incremented after every update through the "
        "row's AtKeyed handle, the field's guard or the root's guard; mode 20 'shaped rows': keyed(..) whose row for key "
        "k is shape[k mod p] of 1-4 random shapes over text | () | <span> | tuple | nested keyed list | Vec | Option | "
        "Either | EitherOf3 | array | StaticVec | Result | EitherKeepAlive (texts being String, &str, Arc<str>, Cow<str> or i64; "
        "every child position type-erased), 60% of the shapes being or starting "
        "with a (mostly non-empty) inner list, so that every Mountable::insert_before_this of tachys/src/view is the "
        "'next mounted sibling' of apply_diff, histories of 2-6 lists; mode 4: keyed(items, |k| format!(..) String keys, "
        "..).add_any_attr(class(..)) with <span> rows (every row must carry the class); mode 5: the list between 0/1 "
        "element siblings rendered with to_html, parsed into the parent, HYDRATED and then rebuilt. In every tachys mode "
        "(1-5, 20) one history in four also unmounts the list and mounts it again between updates (step (-1)), and every "
        "case ends with unmount (exactly the siblings are left). Mode 14 also runs on an ArcStore, iterating backwards "
        "(DoubleEndedIterator::next_back) and over a keyed field of the root struct. Non-trivial = at least one update "
        "changes the key sequence; distinct = distinct case hash.")
TRUSTED = [
    "Coq 8.16.1 kernel (coqc); every theorem of Properties_C11.v is 'Closed under the global context'",
    "extraction to OCaml with ExtrOcamlBasic only, ocamlfind ocamlopt, extract/driver.ml sexp I/O",
    "harness/dom (Rust) `h_dom c11`: tachys::view::keyed::keyed with a harness view_fn whose views are String / "
    "(String,String) / (String,<span>,String) wrapped in a Mountable that logs mount/unmount; runs on the native "
    "in-memory DOM of the verif-hook commit (tachys/src/renderer/native_dom.rs), which is trusted to implement DOM "
    "insertBefore/remove semantics (detach first; unknown anchor = no-op)",
    "`h_dom c11` modes 11/12 (src/c11for.rs): leptos::For / ForEnumerate + leptos::mount::mount_to_renderer + "
    "any_spawner futures-executor polled by hand; that a retained row's reactive state (owner, signals, cleanups) "
    "stays alive is COMPARED (model answers count = writes since built, disposed = 0) and checked by the oracle, not "
    "proved: the Coq model has no reactive owners",
    "`h_dom c11` mode 20 (shaped rows): the Coq model abstracts an item view as a `builder` = ANY fresh non-empty list of "
    "top-level nodes (theorems: for all builders with bld_ok; var_bld_ok proves it for the builder the run function "
    "uses), so a row that is a nested keyed list / Vec / Option / Either / tuple is covered by the theorems AS A NODE "
    "LIST; what is COMPARED, not proved, is that the real Mountable impls of those row states (KeyedState, VecState, "
    "OptionState, Either*, tuples, ArrayState, StaticVecState, AnyViewState, ResultState, EitherKeepAliveState, the "
    "string / number states: mount / unmount / insert_before_this) behave like that node list: mount = each node in "
    "order before the anchor, insert_before_this = before the row's first node (tachys asks only the FIRST row of an inner keyed list, so this needs every sub-view to own a node); "
    "the flattening of a shape into nodes (shape_nodes in Dom/KeyedRun.v) is re-implemented in the oracle",
    "`h_dom c11` mode 13 (nested leptos <For>, inner lists changing between outer updates; the rows are "
    "OwnedViewState / RenderEffect states around KeyedState, tachys/src/reactive_graph): NOT modelled (an item whose "
    "node list changes between updates is outside Keyed.v's item = fixed node list; each of the lists separately is an "
    "instance of the theorems with the other list's nodes as siblings) - judged by the model-independent oracle only "
    "(order after every outer and inner update, node identity, build / cleanup counts)",
    "`h_dom c11` mode 14 (src/c11store.rs): leptos::For over reactive_stores' KeyedSubfield / AtKeyed (#[derive(Store)], "
    "Store::new, write guards of the field / parent / root, set, update) + mount_to_renderer + hand-polled executor; the "
    "model answers what mode 11 answers (order = the new key order by Keyed.v, label shown = entries since the row was "
    "built), so that the key map of the store is fresh whenever <For> and the rows resolve their keys is COMPARED and "
    "checked by the oracle, not proved: the Coq model has no store",
    "unmount + mount again (step (-1)) and the final unmount are modelled in Dom/KeyedRun.v (`remount`, `Keyed.unmount`) "
    "and COMPARED, but the invariant st_wf after a re-mount is not a theorem; modes 4 (add_any_attr) and 5 (hydrated "
    "KeyedState) are compared with the model of a one-node list whose log has only the view_fn / set_index calls: that "
    "the boxed view_fn of AddAnyAttr and the state made by hydration behave like the built one is compared, not proved",
    "modelled, not verified: indexmap::IndexSet (as a duplicate-free list: get_index, get_full, contains), Vec "
    "(push, take, resize_with, drain_filter), the item views' own mount / unmount / insert_before_this (each node in "
    "order before the anchor; first mounted node is the anchor) — transcribed in Dom/Keyed.v and compared with the "
    "real code on every case; keys are modelled as N (the algorithm only uses key equality and hashing)",
    "the i32 arithmetic of `moves_forward_by` is modelled in Z (lists shorter than 2^31)",
]
ASSUMPTIONS = [
    "both key sequences are duplicate-free (the property's hypothesis; IndexSet would silently drop duplicates)",
    "every item owns at least one DOM node that is mounted (items such as an empty fragment own none; then "
    "insert_before_this fails and the code falls back to the marker); in mode 20 every sub-view of a row does "
    "(StaticVec / arrays are non-empty)",
    "the list is mounted (KeyedState.parent = Some) when it is rebuilt",
]
LEVEL_TEXT = ("Unbounded Coq proof (no bound on list lengths, key alphabet, row size or number of updates) over an executable "
              "Gallina transcription of tachys' keyed diff / group_adjacent_moves / unpack_moves / apply_diff and the keyed "
              "build/mount/rebuild/unmount, with rows abstracted as any fresh non-empty node list: for duplicate-free key "
              "sequences the children end in exactly the new order between untouched siblings, retained keys keep their nodes, "
              "removed rows are unmounted, new rows are built once, every row whose index changed is told its new index, and the "
              "state invariant is preserved along any history of updates. Tied to /repo by running the extracted model and the "
              "real tachys keyed() (rows of 1-3 nodes and rows that are or start with lists / Option / Either / arrays) and the "
              "real leptos <For> / <ForEnumerate> (stateful rows; over a keyed store field) on the native in-memory DOM, on all "
              "canonical key-sequence pairs up to length 6 plus random longer ones and histories, with the property statement "
              "checked directly in Python as oracle. Row state retention and store-backed lists are compared, not proved.")
LEVEL_NOTE = ("unbounded machine-checked proof for all duplicate-free key sequences, all item sizes m >= 1, all sibling "
              "contexts and all histories, of a transcription of the repaired diff/apply_diff; transcription tied to "
              "the code by differential testing")
TECHNIQUE = "Coq proof of an executable model + differential correspondence on the native DOM hook"


# ------------------------------------------------------------------------------------------- generator
def canon_tos(n_from, maxlen, maxkeys):
    """all duplicate-free `to` over old keys 0..n_from-1 and fresh keys named n_from, n_from+1, .. in order of
    first appearance, with at most maxkeys keys in total"""
    out = []

    def rec(cur, nfresh):
        out.append(list(cur))
        if len(cur) == maxlen:
            return
        for k in range(n_from):
            if k not in cur:
                cur.append(k)
                rec(cur, nfresh)
                cur.pop()
        if n_from + nfresh < maxkeys:
            cur.append(n_from + nfresh)
            rec(cur, nfresh + 1)
            cur.pop()

    rec([], 0)
    return out


def rand_list(rng, maxlen, nkeys):
    n = rng.randint(0, maxlen)
    return rng.sample(range(nkeys), min(n, nkeys))


def mutate(rng, l, nkeys):
    """a plausible next list: some removals, insertions, swaps, rotations"""
    l = list(l)
    for _ in range(rng.choice([1, 1, 2, 3, 4])):
        r = rng.random()
        if r < 0.25 and l:
            del l[rng.randrange(len(l))]
        elif r < 0.55:
            free = [k for k in range(nkeys) if k not in l]
            if free:
                l.insert(rng.randint(0, len(l)), rng.choice(free))
        elif r < 0.75 and len(l) >= 2:
            i, j = rng.sample(range(len(l)), 2)
            l[i], l[j] = l[j], l[i]
        elif r < 0.85 and l:
            i = rng.randrange(len(l))
            l = l[i:] + l[:i]
        elif r < 0.92:
            l.reverse()
        elif r < 0.96:
            l = []
        else:
            rng.shuffle(l)
    return l


# ---------------------------------------------------------------------- shaped rows (mode 20)
def flatten(shape):
    """visibility of the top-level nodes a row of this shape owns, in mount order (True = text / element,
    False = comment: marker of an inner keyed list / Vec, placeholder of () / None)"""
    t, args = shape[0], shape[1:]
    if t in (0, 2):
        return [True]
    if t == 1:
        return [False]
    if t in (3, 9, 10):
        return [x for a in args for x in flatten(a)]
    if t in (4, 5):
        return [x for a in args for x in flatten(a)] + [False]
    if t in (6, 11):
        return flatten(args[0]) if args else [False]
    if t in (7, 8):
        return flatten(args[1])
    if t == 12:
        return flatten(args[2] if args[0] else args[1])
    raise ValueError(shape)


def valid_shape(s, depth=0):
    if not (isinstance(s, list) and s and isinstance(s[0], int)) or depth > 6:
        return False
    t, args = s[0], s[1:]
    sub = lambda l: all(valid_shape(x, depth + 1) for x in l)
    if t == 0:
        return not args or (len(args) == 1 and args[0] in (0, 1, 2, 3, 4))
    if t in (1, 2):
        return not args
    if t == 12:
        return len(args) == 3 and args[0] in (0, 1) and sub(args[1:])
    if t == 3:
        return len(args) in (2, 3) and sub(args)
    if t in (4, 5):
        return len(args) <= 4 and sub(args)
    if t in (6, 11):
        return len(args) <= 1 and sub(args)
    if t == 7:
        return len(args) == 2 and args[0] in (0, 1) and valid_shape(args[1], depth + 1)
    if t == 8:
        return len(args) == 2 and args[0] in (0, 1, 2) and valid_shape(args[1], depth + 1)
    if t == 9:
        return len(args) in (1, 2, 3) and sub(args)
    if t == 10:
        return 1 <= len(args) <= 3 and sub(args)        # a node-less row is outside the property's hypothesis
    return False


def gen_shape(rng, depth):
    """a row shape; every sub-view owns at least one node"""
    if depth <= 0:
        return rng.choice([[0], [0], [0, rng.randint(1, 4)], [2], [1]])
    sub = lambda: gen_shape(rng, depth - 1)
    t = rng.choice([0, 2, 3, 3, 4, 4, 4, 5, 5, 6, 7, 8, 9, 10, 11, 12])
    if t == 0:
        return [0, rng.randint(0, 4)]
    if t == 2:
        return [t]
    if t == 11:
        return [11] + ([sub()] if rng.random() < 0.7 else [])
    if t == 12:
        return [12, rng.randint(0, 1), sub(), sub()]
    if t == 3:
        return [3] + [sub() for _ in range(rng.choice([2, 2, 3]))]
    if t in (4, 5):
        return [t] + [sub() for _ in range(rng.choice([0, 1, 2, 2, 3]))]
    if t == 6:
        return [6] + ([sub()] if rng.random() < 0.6 else [])
    if t == 7:
        return [7, rng.randint(0, 1), sub()]
    if t == 8:
        return [8, rng.randint(0, 2), sub()]
    return [t] + [sub() for _ in range(rng.choice([1, 2, 2, 3]))]


def gen_list_first_shape(rng):
    """a row that IS a list, or starts with one (the list non-empty most of the time)"""
    inner = [rng.choice([4, 4, 5])] + [gen_shape(rng, rng.choice([0, 0, 1])) for _ in range(rng.choice([0, 1, 2, 2, 3]))]
    r = rng.random()
    if r < 0.35:
        return inner
    if r < 0.65:
        return [3, inner] + [gen_shape(rng, 0) for _ in range(rng.choice([1, 2]))]
    if r < 0.75:
        return [6, inner]
    if r < 0.85:
        return [7, rng.randint(0, 1), inner]
    if r < 0.88:
        return [8, rng.randint(0, 2), inner]
    if r < 0.91:
        return [11, inner]
    if r < 0.93:
        return [12, 1, gen_shape(rng, 0), inner] if rng.random() < 0.5 else [12, 0, inner, gen_shape(rng, 0)]
    if r < 0.96:
        return [rng.choice([9, 10]), inner, gen_shape(rng, 0)]
    return [4, inner, gen_shape(rng, 1)]        # a keyed list whose first row is a keyed list


def with_hidden_updates(rng, ls):
    """the list is updated while it is not in the DOM: build, update(s), first mount; or mount, unmount (a parent hides
    it and keeps the state), update(s), mount"""
    out, hidden = [ls[0]], False
    if rng.random() < 0.4:
        out.append([-4])
        hidden = True
    for l in ls[1:]:
        r = rng.random()
        if hidden and r < 0.45:
            out.append([-3])
            hidden = False
        elif not hidden and r < 0.45:
            out.append([-2])
            hidden = True
        out.append(l)
    if hidden and rng.random() < 0.8:
        out.append([-3])
    return out


def with_remounts(rng, ls, plain=False):
    """now and then the list is unmounted and mounted again between two updates, or updated while it is hidden"""
    r = rng.random()
    if r < 0.15 and not plain:
        return with_hidden_updates(rng, ls)
    if r < 0.8:
        return ls
    out = [ls[0]]
    for l in ls[1:]:
        if rng.random() < 0.3:
            out.append([-1])
        out.append(l)
    if rng.random() < 0.3:
        out.append([-1])
    return out


def gen_shaped(rng):
    p = rng.choice([1, 2, 2, 3, 3, 4])
    shapes = [gen_list_first_shape(rng) if rng.random() < 0.6 else gen_shape(rng, rng.choice([1, 2, 2, 3])) for _ in range(p)]
    npre, npost = rng.choice([(0, 0), (1, 1), (0, 1), (2, 0), (1, 2)])
    nk = rng.choice([3, 4, 6, 8])
    ls = [rand_list(rng, 6, nk)]
    for _ in range(rng.randint(1, 5)):
        ls.append(mutate(rng, ls[-1], nk) if rng.random() < 0.75 else rand_list(rng, 6, nk))
    return dict(case=C.norm([20, npre, npost, with_remounts(rng, ls), shapes]), kind="shaped-rows")


def generate(rng, tier):
    maxlen, maxkeys = (6, 7) if tier == "quick" else (7, 8)
    variants = [(1, 0, 0), (2, 1, 1), (1, 0, 2), (2, 2, 0), (3, 1, 1), (1, 1, 0)]
    n = 0
    for n_from in range(maxlen + 1):
        frm = list(range(n_from))
        for to in canon_tos(n_from, maxlen, maxkeys):
            n += 1
            for v in (variants[n % 2], variants[2 + n % 4]) if tier == "quick" else (variants[n % 6],):
                yield dict(case=C.norm([v[0], v[1], v[2], [frm, to]]), kind="canonical-pair")
    # the real leptos <For> / <ForEnumerate> with rows that own reactive state
    n_for = 2500 if tier == "quick" else 25000
    for i in range(n_for):
        mode = 11 if rng.random() < 0.6 else 12
        npre, npost = rng.choice([(0, 0), (1, 1), (0, 1), (2, 0), (1, 2)])
        nk = rng.choice([3, 5, 8])
        ls = [rand_list(rng, 6, nk)]
        for _ in range(rng.randint(1, 6)):
            ls.append(mutate(rng, ls[-1], nk) if rng.random() < 0.8 else rand_list(rng, 6, nk))
        yield dict(case=C.norm([mode, npre, npost, ls]), kind="leptos-For" if mode == 11 else "leptos-ForEnumerate")
    # rows that are plain elements: keyed(..).add_any_attr(..) with String keys (4); SSR + hydrate + rebuild (5)
    for i in range(2500 if tier == "quick" else 25000):
        mode = 4 if i % 2 == 0 else 5
        npre, npost = rng.choice([(0, 0), (1, 1), (0, 1), (1, 0)]) if mode == 5 else rng.choice([(0, 0), (1, 1), (0, 1), (2, 0), (1, 2)])
        nk = rng.choice([3, 5, 8])
        ls = [rand_list(rng, 6, nk)]
        for _ in range(rng.randint(1, 5)):
            ls.append(mutate(rng, ls[-1], nk) if rng.random() < 0.8 else rand_list(rng, 6, nk))
        yield dict(case=C.norm([mode, npre, npost, with_remounts(rng, ls, True)]),
                   kind="keyed+add_any_attr, String keys" if mode == 4 else "keyed: to_html -> hydrate -> rebuild")
    # nested <For>: rows that are an inner <For> over their own signal (+ a trailing <li> for odd keys); oracle only
    for i in range(2000 if tier == "quick" else 20000):
        npre, npost = rng.choice([(0, 0), (1, 1), (0, 1), (2, 0)])
        nk = rng.choice([3, 5, 8])
        ls = [rand_list(rng, 5, nk)]
        for _ in range(rng.randint(1, 5)):
            ls.append(mutate(rng, ls[-1], nk) if rng.random() < 0.8 else rand_list(rng, 5, nk))
        bases = [[10 + x for x in rand_list(rng, 4, 5)]]
        for _ in ls[1:]:
            bases.append([10 + x for x in (mutate(rng, [y - 10 for y in bases[-1]], 5) if rng.random() < 0.7 else rand_list(rng, 4, 5))])
        yield dict(case=C.norm([13, npre, npost, ls, bases]), kind="leptos-nested-For (oracle only)", compare=False)
    # <For> over a keyed field of a reactive store, writes through the field, its parent and the root
    for i in range(2500 if tier == "quick" else 25000):
        npre, npost = rng.choice([(0, 0), (1, 1), (0, 1), (2, 0)])
        nk = rng.choice([3, 5, 8])
        ls = [rand_list(rng, 6, nk)]
        for _ in range(rng.randint(1, 6)):
            ls.append(mutate(rng, ls[-1], nk) if rng.random() < 0.8 else rand_list(rng, 6, nk))
        style = rng.random()
        # 6 = batched: update_untracked, writes through the retained rows' handles, notify
        vias = [0, 4, 6] if style < 0.15 else ([1, 2, 3, 5] if style < 0.35 else ([6, 6, 0] if style < 0.5 else [0, 1, 2, 3, 4, 5, 6, 6]))
        bumps = [0] if rng.random() < 0.5 else [0, 0, 1, 2]
        ops = [rng.choice(vias) + 10 * rng.choice(bumps) for _ in ls]
        # the via digit of the first op selects the store: 0 Store, 1 ArcStore, 2 Store iterated backwards, 3 root-level field
        variant = rng.choice([0, 0, 1, 1, 2, 3])
        ops[0] = variant + 10 * (ops[0] // 10)
        yield dict(case=C.norm([14, npre, npost, ls, ops]),
                   kind="leptos-For-over-keyed-store-field" + ["", " (ArcStore)", " (backwards)", " (root field)"][variant])
    # rows that are (or start with) keyed lists / Vec / Option / Either / tuples / arrays / StaticVec
    for i in range(4000 if tier == "quick" else 40000):
        yield gen_shaped(rng)
    n_rand = 6000 if tier == "quick" else 60000
    for i in range(n_rand):
        r = rng.random()
        m, npre, npost = rng.choice(variants + [(1, 0, 1), (2, 0, 1), (3, 0, 0), (2, 3, 3)])
        if r < 0.35:
            # a relabelled (non-canonical) small pair
            keys = rng.sample(range(40), 7)
            frm = rand_list(rng, 5, 7)
            to = rand_list(rng, 5, 7)
            yield dict(case=C.norm([m, npre, npost, [[keys[k] for k in frm], [keys[k] for k in to]]]), kind="relabelled-pair")
        elif r < 0.65:
            frm = rand_list(rng, 12, 16)
            to = mutate(rng, frm, 16) if rng.random() < 0.6 else rand_list(rng, 12, 16)
            yield dict(case=C.norm([m, npre, npost, [frm, to]]), kind="long-pair")
        else:
            nk = rng.choice([4, 6, 8, 12])
            ls = [rand_list(rng, 8, nk)]
            for _ in range(rng.randint(3, 8)):
                ls.append(mutate(rng, ls[-1], nk) if rng.random() < 0.7 else rand_list(rng, 8, nk))
            yield dict(case=C.norm([m, npre, npost, with_remounts(rng, ls)]), kind="history")


TACHYS_MODES = (1, 2, 3, 4, 5, 20)       # tachys keyed(..) driven directly (modes 11-14 go through leptos <For>)


def valid_case(item):
    c = item["case"]
    if not (isinstance(c, list) and len(c) in (4, 5) and all(isinstance(x, int) for x in c[:3]) and isinstance(c[3], list)):
        return False
    m, npre, npost, ls = c[:4]
    if (len(c) == 5) != (m in (13, 14, 20)):
        return False
    if m == 13 and not (isinstance(c[4], list) and len(c[4]) <= 10 and all(
            isinstance(l, list) and all(isinstance(k, int) and k >= 0 for k in l) and len(set(l)) == len(l) for l in c[4])):
        return False
    if m == 14 and not (isinstance(c[4], list) and len(c[4]) <= 10      # a missing op is 0
                        and all(isinstance(o, int) and 0 <= o % 10 <= 6 and 0 <= o // 10 <= 2 for o in c[4])):
        return False
    if m == 20 and not (isinstance(c[4], list) and 1 <= len(c[4]) <= 4 and all(valid_shape(x) for x in c[4])):
        return False
    if m not in (1, 2, 3, 4, 5, 11, 12, 13, 14, 20) or not (0 <= npre <= 4) or not (0 <= npost <= 4) or not ls:
        return False
    if m == 5 and (npre > 1 or npost > 1):
        return False
    hidden = False
    for i, l in enumerate(ls):
        if l == [-1] and i > 0 and m in TACHYS_MODES and not hidden:
            continue            # unmount + mount again
        if m in (1, 2, 3, 20) and i > 0 and l in ([-2], [-3], [-4]):
            # hide (unmount, state kept) / show (mount) / the first mount is deferred (only right after the first list)
            if (l == [-2] and not hidden) or (l == [-3] and hidden) or (l == [-4] and i == 1):
                hidden = l != [-3]
                continue
            return False
        if not isinstance(l, list) or any((not isinstance(k, int)) or k < 0 for k in l) or len(set(l)) != len(l):
            return False
    return True


# ---------------------------------------------------------------------------------------------- oracle
def check_step(js_of, npre, npost, frm, to, before, old_gen, children, log, plain=False, reshown=False):
    """the property statement, checked directly on one observed update.
    js_of(key) = the indices j of the visible nodes of that key's item, in order (range(m) for m-node items);
    before: labels (k,g,j) of the parent's children before the step; old_gen: key -> gen before the step.
    Returns (message or None, new key -> gen map)."""
    vis = [c for c in children if c[0] != -3]
    want = npre + sum(len(js_of(k)) for k in to) + npost
    if len(vis) != want:
        return "parent has %d non-comment children, expected %d" % (len(vis), want), None

    def same_node(c):
        return c[3] != -1 and 0 <= c[3] < len(before) and tuple(before[c[3]]) == tuple(c[:3])

    for i in range(npre):
        if vis[i][:3] != [-1, 0, i] or not same_node(vis[i]):
            return "leading sibling %d was disturbed" % i, None
    for j in range(npost):
        c = vis[len(vis) - npost + j]
        if c[:3] != [-2, 0, j] or not same_node(c):
            return "following sibling %d was disturbed" % j, None
    new_gen = {}
    mid = vis[npre:len(vis) - npost]
    builds = {}
    for e in log:
        if e[0] == 3:
            builds.setdefault(e[1], []).append(e[2])
            # a new item is told its index when it is built (view_fn(index, item); <ForEnumerate>'s index signal starts there)
            if e[1] in to and e[1] not in old_gen and e[3] != to.index(e[1]):
                return "new key %d at index %d was built with index %d" % (e[1], to.index(e[1]), e[3]), None
    pos = 0
    for idx, k in enumerate(to):
        js = js_of(k)
        nodes = mid[pos:pos + len(js)]
        pos += len(js)
        built = builds.get(k, [])
        if not js:
            # an item without visible nodes (only markers / placeholders): nothing to see in the order
            if k in old_gen:
                new_gen[k] = old_gen[k]
                if built:
                    return "retained key %d was built again" % k, None
            else:
                if len(built) != 1:
                    return "new key %d was built %d times" % (k, len(built)), None
                new_gen[k] = built[0]
            continue
        if [c[0] for c in nodes] != [k] * len(js) or [c[2] for c in nodes] != js or len({c[1] for c in nodes}) != 1:
            seen = []
            for c in mid:
                if not seen or seen[-1] != c[0]:
                    seen.append(c[0])
            return "rendered order (keys of the visible nodes) is %r, expected %r" % (seen, [x for x in to if js_of(x)]), None
        g = nodes[0][1]
        new_gen[k] = g
        if k in old_gen:
            # (a list that is mounted again: its nodes were not in the parent just before; the item is the same iff it
            # is the same build - nodes are created when the item is built)
            if g != old_gen[k] or not (reshown or all(same_node(c) for c in nodes)):
                return "retained key %d did not keep its DOM nodes" % k, None
            if k in builds:
                return "retained key %d was built again" % k, None
            calls = [e[3] for e in log if e[0] == 0 and e[1] == k and e[2] == g]
            if (calls and calls[-1] != idx) or (not calls and frm.index(k) != idx):
                return "retained key %d moved from index %d to %d but was told %r" % (k, frm.index(k), idx, calls), None
        else:
            if any(c[3] != -1 for c in nodes):
                return "new key %d re-uses old DOM nodes" % k, None
            if builds.get(k, []) != [g]:
                return "new key %d was built %d times" % (k, len(builds.get(k, []))), None
    for k in frm:
        if k not in to and not plain:       # (plain element rows cannot log their unmount; their nodes are gone: counted above)
            if not any(e[0] == 2 and e[1] == k and e[2] == old_gen[k] for e in log):
                return "removed key %d was not unmounted" % k, None
    return None, new_gen


def check_for(mode, npre, npost, ls, impl):
    """<For>/<ForEnumerate>: order and identity as for keyed(), and the rows' own reactive state: a retained row's
    signal / stored value are alive, its text follows its signal, its cleanup has not run; a removed row's cleanup
    ran exactly once; new rows are built once"""
    prev_rows = {}          # key -> (gen, count) at the end of the previous entry
    prev_list = []          # labels (k, g) of the non-comment children at the end of the previous entry
    for s, (to, entry) in enumerate(zip(ls, impl)):
        if entry == [-9] or len(entry) != 4:
            return "update %d: panic" % s
        a, log, flags, b = entry
        for name, rows, bump in (("after the update", a, 0), ("after writing the rows' signals", b, 1)):
            if len(rows) != npre + len(to) + npost:
                return "update %d %s: %d children, expected %d" % (s, name, len(rows), npre + len(to) + npost)
            for i in range(npre):
                if rows[i][:3] != [-1, 0, i]:
                    return "update %d: leading sibling disturbed" % s
            for j in range(npost):
                if rows[npre + len(to) + j][:3] != [-2, 0, j]:
                    return "update %d: following sibling disturbed" % s
            mid = rows[npre:npre + len(to)]
            if [r[0] for r in mid] != to:
                return "update %d %s: rendered order is %r, expected %r" % (s, name, [r[0] for r in mid], to)
            for idx, r in enumerate(mid):
                k, g, c, prev = r[:4]
                if mode == 12 and r[4] != idx:
                    return "update %d %s: row %d shows index %d at position %d" % (s, name, k, r[4], idx)
                if k in prev_rows:
                    g0, c0 = prev_rows[k]
                    if g != g0:
                        return "update %d: retained row %d was rebuilt" % (s, k)
                    if c != c0 + bump:
                        return ("update %d %s: the text of retained row %d shows %d, its signal (mode 14: its item's label in the store) was written %d times"
                                % (s, name, k, c, c0 + bump))
                    if bump == 0 and (prev < 0 or prev >= len(prev_list) or prev_list[prev] != (k, g)):
                        return "update %d: retained row %d did not keep its DOM node" % (s, k)
                else:
                    if c != bump:
                        return "update %d %s: new row %d shows %d, expected %d" % (s, name, k, c, bump)
                    if bump == 0 and prev != -1:
                        return "update %d: new row %d re-uses an old node" % (s, k)
            if bump == 1:
                if [r[3] for r in rows] != list(range(len(rows))):
                    return "update %d: writing a row's signal replaced a DOM node" % s
        builds = [e[1] for e in log if e[0] == 3]
        cleans = [(e[1], e[2]) for e in log if e[0] == 4]
        new = [k for k in to if k not in prev_rows]
        if sorted(builds) != sorted(new):
            return "update %d: children closure called for %r, new keys are %r" % (s, builds, new)
        gone = sorted((k, prev_rows[k][0]) for k in prev_rows if k not in to)
        if sorted(cleans) != gone:
            return ("update %d: cleanups ran for rows %r, removed rows are %r (a retained row's state must stay alive, "
                    "a removed row is cleaned up exactly once)" % (s, sorted(cleans), gone))
        for f in flags:
            if f[2] or f[3]:
                return "update %d: the signal (mode 14: the AtKeyed handle) / stored value of rendered row %d is disposed" % (s, f[0])
        mid = b[npre:npre + len(to)]
        prev_rows = {r[0]: (r[1], r[2]) for r in mid}
        prev_list = [(r[0], r[1]) if r[0] >= 0 else (r[0], r[2]) for r in b]
        # siblings: identity across entries
        if s > 0:
            for r in a:
                if r[0] < 0 and (r[3] < 0):
                    return "update %d: a sibling was replaced" % s
    return None


def pick(base, k):
    """the inner list of outer row k for the base list `base` (mode 13, see harness/dom/src/c11for.rs)"""
    r = k % (len(base) + 1)
    v = base[r:] + base[:r]
    return v[:-1] if k % 3 == 2 else v


def check_nested(npre, npost, ls, bases, impl):
    """nested <For> (mode 13): after every outer update and after every round of inner updates the parent's
    non-comment children are, in order, the siblings and for each outer key its inner rows in the inner key order
    (+ the trailing <li> of odd keys); rows (outer and inner) present before and after keep their DOM node, others are
    new nodes; outer rows are built once / cleaned up once, a retained outer row's state is alive"""
    prev = []               # labels of the non-comment children in the previous snapshot
    gens = {}               # outer key -> gen
    for s, (to, entry) in enumerate(zip(ls, impl)):
        if len(entry) != 4:
            return "update %d: panic" % s
        a, log, flags, b = entry
        builds = {}
        for e in log:
            if e[0] == 3:
                builds.setdefault(e[1], []).append(e[2])
        cleans = sorted((e[1], e[2]) for e in log if e[0] == 4)
        new = [k for k in to if k not in gens]
        if sorted(builds) != sorted(new) or any(len(v) != 1 for v in builds.values()):
            return "update %d: outer children closure called for %r, new keys are %r" % (s, sorted(builds.items()), new)
        gone = sorted((k, g) for k, g in gens.items() if k not in to)
        if cleans != gone:
            return "update %d: cleanups ran for outer rows %r, removed rows are %r" % (s, cleans, gone)
        gens = {k: (gens[k] if k in gens else builds[k][0]) for k in to}
        for f in flags:
            if f[1] != gens.get(f[0]) or f[2] or f[3]:
                return "update %d: the inner signal / stored value of rendered outer row %d is disposed (or the row was rebuilt)" % (s, f[0])
        old_base = bases[s - 1] if 0 < s <= len(bases) else []
        new_base = bases[s] if s < len(bases) else []
        for name, rows, base in (("after the outer update", a, old_base), ("after the inner updates", b, new_base)):
            want = [(-1, 0, i) for i in range(npre)]
            for k in to:
                want += [(k, gens[k], i) for i in pick(base, k)]
                if k % 2 == 1:
                    want.append((k, gens[k], -1))
            want += [(-2, 0, j) for j in range(npost)]
            got = [tuple(r[:3]) for r in rows]
            if got != want:
                return "update %d %s: children are (key gen inner-key) %r, expected %r" % (s, name, got, want)
            for idx, r in enumerate(rows):
                lab = tuple(r[:3])
                if lab in prev:
                    if r[3] != prev.index(lab):
                        return "update %d %s: %r did not keep its DOM node" % (s, name, lab)
                elif r[3] != -1:
                    return "update %d %s: new row %r re-uses an old node" % (s, name, lab)
            prev = got
    return None


def oracle(item, impl):
    m, npre, npost, ls = item["case"][:4]
    if m == 13:
        if isinstance(impl, str):
            return "panic / harness error: " + impl
        if len(impl) != len(ls):
            return "harness returned %d entries for %d lists" % (len(impl), len(ls))
        return check_nested(npre, npost, ls, item["case"][4], impl)
    if m == 20:
        shapes = [[j for j, v in enumerate(flatten(s)) if v] for s in item["case"][4]]
        js_of = lambda k: shapes[k % len(shapes)]
    else:
        js_of = lambda k: list(range(1 if m in (4, 5) else m))
    if isinstance(impl, str):
        if m == 14:
            return ("panic while the <For> over the keyed store field was updated / (re)rendered - an AtKeyed handle (the "
                    "<For> key function, a row's text, or a row's write through its handle) did not resolve to an item of "
                    "the current collection: " + impl)
        return "panic / harness error: " + impl
    if m in (11, 12, 14):
        if len(impl) != len(ls):
            return "harness returned %d entries for %d lists" % (len(impl), len(ls))
        return check_for(m, npre, npost, ls, impl)
    if len(impl) != len(ls) + 1:
        return "harness returned %d entries for %d steps + the final unmount" % (len(impl), len(ls))
    plain = m in (4, 5)
    before = [(-1, 0, i) for i in range(npre)] + [(-2, 0, j) for j in range(npost)]
    old_gen, frm = {}, []
    hidden = False
    sibs = [(-1, 0, i) for i in range(npre)] + [(-2, 0, j) for j in range(npost)]
    for s, (to, step) in enumerate(zip(ls, impl)):
        children, log = step
        if any(c[0] >= 0 and c[2] >= 100 for c in children):
            return "update %d: a row does not carry the attribute added to the list with add_any_attr" % s
        if s == 0 and len(ls) > 1 and ls[1] == [-4]:
            hidden = True       # built, not mounted yet
        if to in ([-2], [-4]) or (hidden and to != [-3]):
            # the list is (now) not in the DOM: only the siblings are there; an update while hidden calls view_fn
            # exactly for the new keys, keeps the items of the retained keys
            if [tuple(c[:3]) for c in children] != sibs:
                return "step %d: the list is unmounted but the parent holds %r" % (s, [tuple(c[:3]) for c in children])
            if to == [-2]:
                hidden = True
                got = sorted((e[1], e[2]) for e in log if e[0] == 2)
                if got != sorted(old_gen.items()):
                    return "step %d (unmount): items unmounted %r, rendered items were %r" % (s, got, sorted(old_gen.items()))
            elif to != [-4]:
                builds = {}
                for e in log:
                    if e[0] == 3:
                        builds.setdefault(e[1], []).append(e[2])
                new_gen = {}
                for k in to:
                    if k in old_gen:
                        if k in builds:
                            return "update %d (while the list is unmounted, %r -> %r): retained key %d was built again" % (s, frm, to, k)
                        new_gen[k] = old_gen[k]
                    elif len(builds.get(k, [])) != 1:
                        return "update %d (while the list is unmounted): new key %d was built %d times" % (s, k, len(builds.get(k, [])))
                    else:
                        new_gen[k] = builds[k][0]
                if set(builds) - set(to):
                    return "update %d (while the list is unmounted): view_fn called for %r" % (s, sorted(set(builds) - set(to)))
                old_gen, frm = new_gen, to
            elif s == 0:
                pass
            if s == 0:
                # the first entry of a deferred mount: the rows were built (gens from the log)
                old_gen, frm = {e[1]: e[2] for e in log if e[0] == 3}, to
                if sorted(old_gen) != sorted(to):
                    return "build: view_fn called for %r, keys are %r" % (sorted(old_gen), to)
            before = [tuple(c[:3]) for c in children]
            continue
        remount = to == [-1]
        reshown = to == [-3]
        if remount or reshown:
            to = frm        # (unmounted and) mounted again: same order, same items, nothing built
        msg, new_gen = check_step(js_of, npre, npost, frm, to, before, old_gen, children, log, plain, reshown)
        if msg:
            return "update %d (%s%r -> %r): %s" % (s, "mounted again, " if reshown else ("unmount + mount again, " if remount else ""), frm, to, msg)
        hidden = False
        before = [tuple(c[:3]) for c in children]
        old_gen, frm = new_gen, to
    # the final unmount: exactly the siblings are left, they are the very same nodes, every item was unmounted once
    children, log = impl[-1]
    want = [(-1, 0, i) for i in range(npre)] + [(-2, 0, j) for j in range(npost)]
    if [tuple(c[:3]) for c in children] != want:
        return "unmount left %r in the parent, expected the %d siblings only" % ([tuple(c[:3]) for c in children], len(want))
    if any(c[3] < 0 or c[3] >= len(before) or tuple(before[c[3]]) != tuple(c[:3]) for c in children):
        return "unmount replaced a sibling"
    if not plain:
        got = sorted((e[1], e[2]) for e in log if e[0] == 2)
        if got != sorted(old_gen.items()):
            return "unmount: items unmounted %r, rendered items were %r" % (got, sorted(old_gen.items()))
    return None


def nontrivial(item, model):
    ls = [l for l in item["case"][3] if not (l and l[0] < 0)]
    return any(a != b for a, b in zip(ls, ls[1:]))


STEP_NAMES = {(-1,): "unmount+mount", (-2,): "unmount (hidden, state kept)", (-3,): "mount", (-4,): "(not mounted yet)"}


def show_shape(s):
    t, a = s[0], s[1:]
    if t == 0:
        return ["text", "&str", "Arc<str>", "Cow<str>", "i64"][a[0] if a else 0]
    if t == 1:
        return "()"
    if t == 2:
        return "<span>"
    if t == 11:
        return "Ok(" + show_shape(a[0]) + ")" if a else "Err"
    if t == 12:
        return "EitherKeepAlive{a: %s, b: %s, show_b: %s}" % (show_shape(a[1]), show_shape(a[2]), bool(a[0]))
    if t == 3:
        return "(" + ", ".join(show_shape(x) for x in a) + ")"
    if t in (4, 5, 9, 10):
        return {4: "keyed", 5: "vec!", 9: "array", 10: "StaticVec"}[t] + "[" + ", ".join(show_shape(x) for x in a) + "]"
    if t == 6:
        return "Some(" + show_shape(a[0]) + ")" if a else "None"
    if t == 7:
        return ("Left(" if a[0] == 0 else "Right(") + show_shape(a[1]) + ")"
    return "EitherOf3::" + "ABC"[a[0]] + "(" + show_shape(a[1]) + ")"


def describe(item):
    m, npre, npost, ls = item["case"][:4]
    if m == 20:
        sh = item["case"][4]
        return "keyed list whose row for key k is shape[k mod %d] of {%s}, %d leading / %d following siblings: %s; unmount" % (
            len(sh), " ; ".join(show_shape(x) for x in sh), npre, npost,
            " -> ".join(STEP_NAMES.get(tuple(l), str(l)) for l in ls))
    if m == 13:
        bases = item["case"][4]
        return ("leptos nested <For> (outer row k = inner <For> over pick(base, k)%s), %d leading / %d following siblings: outer "
                "keys %s; base lists of the inner rows %s" % (" + <li> for odd k", npre, npost, " -> ".join(str(l) for l in ls),
                                                             " -> ".join(str(l) for l in bases)))
    if m == 14:
        via = ["rows().write()", "group().write().rows", "store.write().group.rows", "store.set(..)", "rows().set(..)",
               "group().update(..)", "rows().update_untracked(..); every retained row: label += 1 through its handle, -= 1 by id; rows().notify()"]
        bump = ["the row's AtKeyed handle", "rows().write()", "store.write()"]
        ops = (item["case"][4] + [0] * len(ls))[:len(ls)]
        store = ["Store", "ArcStore", "Store, iterated backwards (.into_iter().rev())", "Store whose ROOT struct has the keyed field"][
            ops[0] % 10 if ops and ops[0] % 10 < 4 else 0]
        return ("leptos <For each=store.group().rows()> over a keyed store field (" + store + "), rows showing their item's label, %d leading / "
                "%d following siblings: %s; labels incremented after each step through %s" % (
                    npre, npost, str(ls[0]) + "".join(" -[%s]-> %s" % (via[o % 10], l) for o, l in zip(ops[1:], ls[1:])),
                    ", ".join(bump[o // 10] for o in ops)))
    if m in (11, 12):
        return "leptos %s with stateful rows, %d leading / %d following siblings: %s" % (
            "<For>" if m == 11 else "<ForEnumerate>", npre, npost, " -> ".join(str(l) for l in ls))
    if m == 4:
        return "keyed(items, |k| format!(\"k{k}\"), ..).add_any_attr(class(\"row\")), <span> rows, %d leading / %d following siblings: %s; unmount" % (
            npre, npost, " -> ".join(STEP_NAMES.get(tuple(l), str(l)) for l in ls))
    if m == 5:
        return "keyed list of <li> rows rendered to HTML, hydrated, then updated, %d leading / %d following <b> siblings: %s; unmount" % (
            npre, npost, " -> ".join(STEP_NAMES.get(tuple(l), str(l)) for l in ls))
    return "keyed list, %d node(s) per item, %d leading / %d following siblings: %s; unmount" % (
        m, npre, npost, " -> ".join(STEP_NAMES.get(tuple(l), str(l)) for l in ls))


def coverage_extra(results):
    pairs = set()
    for r in results:
        ls = [l for l in r["item"]["case"][3] if not (l and l[0] < 0)]
        for a, b in zip(ls, ls[1:]):
            pairs.add((tuple(a), tuple(b)))
    names = {0: "text", 1: "unit", 2: "span", 3: "tuple", 4: "nested-keyed", 5: "vec", 6: "option", 7: "either", 8: "eitherof3",
             9: "array", 10: "staticvec", 11: "result", 12: "either-keep-alive"}
    shapes, first = {}, {}

    def walk(s, seen):
        seen.add(names[s[0]])
        for x in s[1:]:
            if isinstance(x, list):
                walk(x, seen)

    for r in results:
        c = r["item"]["case"]
        if c[0] == 20:
            seen = set()
            for s in c[4]:
                walk(s, seen)
                first[names[s[0]]] = first.get(names[s[0]], 0) + 1
            for n in seen:
                shapes[n] = shapes.get(n, 0) + 1
    return {"distinct_transitions": len(pairs), "shaped_cases_containing": shapes, "row_shapes_by_outermost_view": first}
