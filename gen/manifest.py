#!/usr/bin/env python3
"""Regenerates MANIFEST.json from the per-property modules (gen/cXX.py) that exist.
Run by hand after adding a property:  python3 gen/manifest.py"""
import importlib
import json
import os
import subprocess
import sys

ROOT = os.path.dirname(os.path.dirname(os.path.abspath(__file__)))
sys.path.insert(0, ROOT)

PENDING_REASON = "not claimed yet: its model, theorems and correspondence harness are not built (see DESIGN.md section 7 for the plan)"


def main():
    props = [json.loads(l) for l in open(os.path.join(ROOT, "properties.jsonl"))]
    checks, na, engines = [], [], {}
    for p in props:
        pid = p["id"]
        path = os.path.join(ROOT, "gen", pid.lower() + ".py")
        if not os.path.exists(path):
            na.append(dict(property_id=pid, reason=PENDING_REASON))
            continue
        m = importlib.import_module("gen." + pid.lower())
        if not getattr(m, "READY", False):
            na.append(dict(property_id=pid, reason=PENDING_REASON))
            continue
        if getattr(m, "NOT_APPLICABLE", None):
            na.append(dict(property_id=pid, reason=m.NOT_APPLICABLE))
            continue
        engine = "coq+" + m.HARNESS
        engines.setdefault(engine, []).append(pid)
        checks.append(dict(
            property_id=pid,
            quick_cmd="./check %s --tier quick" % pid,
            thorough_cmd="./check %s --tier thorough" % pid,
            evidence_file="evidence/%s.json" % pid,
            replay_cmd_template="./check %s --replay {path}" % pid,
            engine=engine,
            level_claimed=dict(category="proof", text=m.LEVEL_TEXT, design_ref="7." + pid),
            level_note=m.LEVEL_NOTE,
            technique=m.TECHNIQUE,
        ))
    hooks_commits = []
    try:
        out = subprocess.run(["git", "-C", "/repo", "log", "--format=%h %s"], capture_output=True, text=True).stdout
        hooks_commits = [l.split()[0] for l in out.splitlines() if l.split(" ", 1)[1].startswith("verif-hook:")]
    except Exception:
        pass
    man = dict(
        version=1,
        setup_cmd="./check --setup",
        hooks=dict(
            guard="leptos_verif",
            enable='RUSTFLAGS="--cfg leptos_verif" (set by ./check for every harness build)',
            baseline_off_cmd="cd /repo && cargo test --workspace --no-fail-fast --offline",
            source_commits=hooks_commits,
            add_only=True,
        ),
        engines=[dict(name=k, path="coq/ + extract/ + harness/" + k.split("+")[1],
                      serves_properties=v,
                      kind_free_text="Coq 8.16 model + theorems; extracted OCaml model vs Rust harness on /repo (differential correspondence) + direct oracle")
                 for k, v in sorted(engines.items())],
        checks=checks,
        not_applicable=na,
        notes="Machine-checked proof in Coq 8.16.1 of a hand-written executable model per property, tied to /repo by a "
              "correspondence check (extracted model vs implementation on the same generated cases) and a model-independent "
              "oracle. See DESIGN.md.",
    )
    json.dump(man, open(os.path.join(ROOT, "MANIFEST.json"), "w"), indent=1)
    print("checks:", [c["property_id"] for c in checks], "pending:", len(na))


if __name__ == "__main__":
    main()
