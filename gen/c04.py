"""C04 — a mounted reactive view always settles to the render of current state."""
from . import common as C

PID = "C04"
PROPS_V = "theories/Props/Properties_C04.v"
MODEL_NAME = "Dom/ReactiveView.v"
HARNESS = "dom"
HARNESS_ARGS = ["c04"]
ALLOWED_AXIOMS = []
READY = True
RUN_IMPORT = "Dom.ReactiveRun"
IMPL_SHARDS = 8

RULE = ("(a third of the cases additionally contain async leaves — closures returning Suspend over a fresh oneshot-"
        "controlled future per run that reads signals inside the async block — and enumerated keyed lists driven by a "
        "signal; their steps also complete outstanding futures in a chosen order, incl. older after newer, and all "
        "futures are completed at the end; async-only programs are run a second time with a reduced observation that "
        "is compared with the model) "
        "reactive view programs drawn from one PRNG (VERIF_SEED): static text | dynamic text (closure over signals) | "
        "element with dynamic title= / class= / class:on= / style:width= closures and 0..3 children | conditional "
        "(closure returning Either, plain or through a memo as <Show> does), nested to depth 3, over 1..3 signals; "
        "a history of 1..6 steps, each a list of signal writes (incl. same-value writes and writes to signals nobody "
        "reads) followed by an executor schedule (which ready task to poll next, until none is ready). "
        "Non-trivial: some step re-runs a closure and changes the DOM; distinct = distinct case hash.")
TRUSTED = [
    "Coq 8.16.1 kernel (coqc); no axioms: every theorem of Properties_C04.v is 'Closed under the global context'",
    "extraction to OCaml with ExtrOcamlBasic only, ocamlfind ocamlopt 4.13.1, extract/driver.ml sexp I/O",
    "harness/dom/src/c04.rs (Rust): builds the real tachys view (closures over RwSignal, AnyAttribute closures, Either, "
    "Memo), real build/mount/rebuild through real RenderEffects, its own executor (any_spawner custom executor with an "
    "exposed run queue; the case's schedule picks the task to poll)",
    "the native in-memory DOM of tachys under cfg(leptos_verif) (verif-hook 7e91a9c): node ids and per-node mutation counters",
    "modelled, not verified: the notification path signal -> subscriber -> channel -> task wake-up is abstracted to 'a "
    "write notifies exactly the live effects whose closure read the signal' (C02/C09 are about that machinery); a memo "
    "is abstracted to 'the effect re-runs only if the memoised value changed'; Owner cleanup is not modelled (effects "
    "are dropped with the state that holds them)",
    "every child is type-erased (AnyView) in the harness; the static typing of tuples/Either underneath is the real one",
]
ASSUMPTIONS = [
    "closures are pure functions of the signals they read and read all of them on every run (no untrack, no writes from effects)",
    "every view renders to exactly one DOM node (text or element); fragments / lists as branch roots are outside the model",
    "Suspense boundaries, ErrorBoundary, leptos-level <For>/<ForEnumerate> components (their tachys shape — keyed "
    "with per-row index signal and OwnedView — is driven), resources and explicit owner-disposal events are not in the "
    "generated programs; keyed lists are judged by the oracle only (not in the Coq model)",
]


# ------------------------------------------------------------------ generation
def gen_expr(rng, nsig, depth=1):
    r = rng.random()
    if r < 0.6 or depth <= 0:
        return [0, rng.randrange(nsig)] if rng.random() < 0.85 else [1, rng.randint(0, 3)]
    return [2, gen_expr(rng, nsig, depth - 1), gen_expr(rng, nsig, depth - 1)]


class Lab:
    def __init__(self):
        self.n = 0

    def next(self):
        self.n += 1
        return self.n


def gen_view(rng, nsig, depth, lab):
    r = rng.random()
    if depth <= 0:
        r *= 0.45
    if r < 0.15:
        return [0, rng.randint(0, 9)]
    if r < 0.45:
        return [1, lab.next(), gen_expr(rng, nsig)]
    if r < 0.75:
        props = []
        kinds = [0, rng.choice([1, 2]), 3]
        for k in kinds:
            if rng.random() < 0.4:
                props.append([k, lab.next(), gen_expr(rng, nsig)])
        kids = [gen_view(rng, nsig, depth - 1, lab) for _ in range(rng.choice([0, 1, 1, 2, 3]))]
        return [2, props, kids]
    l = lab.next()
    c = gen_expr(rng, nsig)
    a = gen_view(rng, nsig, depth - 1, lab)
    b = gen_view(rng, nsig, depth - 1, lab)
    return [3, l, int(rng.random() < 0.4), c, a, b]


CLEANUP = 500


def gen_ext_view(rng, nsig, depth, lab, in_if=False):
    """views that also contain async leaves (4 l sync_expr async_expr) and keyed lists (5 l sig lists)"""
    r = rng.random()
    if depth <= 0:
        r *= 0.6
    if r < 0.08:
        return [0, rng.randint(0, 9)]
    if r < 0.22:
        return [1, lab.next(), gen_expr(rng, nsig)]
    if r < 0.45:
        es = gen_expr(rng, nsig) if rng.random() < 0.6 else [1, rng.randint(0, 2)]
        return [4, lab.next(), es, gen_expr(rng, nsig)]
    if r < 0.60:
        keys = rng.sample(range(1, 10), rng.randint(3, 5))
        lists = [list(keys)]
        for _ in range(rng.randint(2, 4)):
            m = rng.random()
            cur = list(rng.choice(lists))
            if m < 0.3 and cur:
                cur = cur[rng.randint(1, len(cur)):] if rng.random() < 0.5 else cur[:-1]
            elif m < 0.55:
                new = [k for k in range(1, 10) if k not in cur]
                if new:
                    cur.insert(rng.choice([0, 0, len(cur), rng.randint(0, len(cur))]), rng.choice(new))
            elif m < 0.8:
                rng.shuffle(cur)
            else:
                cur = []
            lists.append(cur)
        return [5, lab.next(), rng.randrange(nsig), lists]
    if r < 0.85:
        props = []
        for k in [0, rng.choice([1, 2]), 3]:
            if rng.random() < 0.25:
                props.append([k, lab.next(), gen_expr(rng, nsig)])
        kids = [gen_ext_view(rng, nsig, depth - 1, lab, in_if) for _ in range(rng.choice([1, 2, 2, 3]))]
        return [2, props, kids]
    l = lab.next()
    return [3, l, int(rng.random() < 0.4), gen_expr(rng, nsig),
            gen_ext_view(rng, nsig, depth - 1, lab, True), gen_ext_view(rng, nsig, depth - 1, lab, True)]


def async_labels(v):
    if v[0] == 4:
        return [v[1]]
    if v[0] == 2:
        return [l for k in v[2] for l in async_labels(k)]
    if v[0] == 3:
        return async_labels(v[4]) + async_labels(v[5])
    return []


def has_keyed(v):
    if v[0] == 5:
        return True
    if v[0] == 2:
        return any(has_keyed(k) for k in v[2])
    if v[0] == 3:
        return has_keyed(v[4]) or has_keyed(v[5])
    return False


def has_ext(v):
    if v[0] in (4, 5):
        return True
    if v[0] == 2:
        return any(has_ext(k) for k in v[2])
    if v[0] == 3:
        return has_ext(v[4]) or has_ext(v[5])
    return False


def gen_ext_case(rng):
    nsig = rng.choice([1, 2, 2, 3])
    while True:
        view = [2, [], [gen_ext_view(rng, nsig, rng.choice([1, 2, 2]), Lab()) for _ in range(rng.choice([1, 2]))]]
        labs = labels_all(view)
        if has_ext(view) and len(labs) == len(set(labs)):
            break
    sigs = [rng.randint(0, 2) for _ in range(nsig)]
    steps = []
    for _ in range(rng.randint(2, 7)):
        writes = [[rng.randrange(nsig), rng.choice([0, 1, 2, 3, 4])] for _ in range(rng.choice([0, 1, 1, 1, 2]))]
        picks = [rng.randint(0, 7) for _ in range(rng.choice([0, 0, 3, 6]))]
        r = rng.random()
        alabs = async_labels(view)
        if not alabs or r < 0.3:
            comps = []
        elif r < 0.6:
            comps = [[l, 0] for l in alabs]
        else:
            # (l 0): the future of the latest run of closure l; (l 1): the superseded futures of l
            comps = [[rng.choice(alabs), rng.choice([0, 0, 1])] for _ in range(rng.randint(1, 3))]
        steps.append([writes, picks, comps])
    return dict(case=[view, sigs, steps, [rng.randint(0, 1)]], kind="async-keyed", compare=False)


def generate(rng, tier):
    n = 4000 if tier == "quick" else 60000
    for i in range(n):
        if i % 3 == 0:
            it = gen_ext_case(rng)
            yield it
            if not has_keyed(it["case"][0]):
                # the same program with the reduced observation (nodes on screen at every idle point),
                # compared with the model, which has async leaves but no keyed lists
                yield dict(case=it["case"] + [[1]], kind="async-model", compare=True)
        nsig = rng.choice([1, 2, 2, 3])
        view = gen_view(rng, nsig, rng.choice([1, 2, 2, 3, 3]), Lab())
        if rng.random() < 0.5:
            view = [2, [], [view] + ([gen_view(rng, nsig, 1, Lab0(view))] if rng.random() < 0.3 else [])]
        sigs = [rng.randint(0, 2) for _ in range(nsig)]
        steps = []
        for _ in range(rng.randint(1, 6)):
            writes = []
            for _ in range(rng.choice([0, 1, 1, 2, 3])):
                i = rng.randrange(nsig)
                writes.append([i, rng.choice([0, 0, 1, 2, 3])])
            picks = [rng.randint(0, 7) for _ in range(rng.choice([0, 0, 2, 5, 9]))]
            steps.append([writes, picks])
        yield dict(case=[view, sigs, steps], kind="reactive-view", compare=True)


def Lab0(view):
    lab = Lab()
    lab.n = max([0] + labels_all(view))
    return lab


# ------------------------------------------------------------------ independent reference
def ev(e, s):
    if e[0] == 0:
        return s[e[1]] if e[1] < len(s) else 0
    if e[0] == 1:
        return e[1]
    return ev(e[1], s) + ev(e[2], s)


def rd(e):
    if e[0] == 0:
        return {e[1]}
    if e[0] == 1:
        return set()
    return rd(e[1]) | rd(e[2])


def labels_all(v):
    if v[0] == 0:
        return []
    if v[0] in (1, 4, 5):
        return [v[1]]
    if v[0] == 2:
        out = [p[1] for p in v[1]]
        for k in v[2]:
            out += labels_all(k)
        return out
    return [v[1]] + labels_all(v[4]) + labels_all(v[5])


def live_labels(v, s):
    if v[0] == 0:
        return set()
    if v[0] == 1:
        return {v[1]}
    if v[0] == 2:
        out = {p[1] for p in v[1]}
        for k in v[2]:
            out |= live_labels(k, s)
        return out
    return {v[1]} | live_labels(v[4] if ev(v[3], s) != 0 else v[5], s)


def may_run(v, s0, s1):
    """labels of closures that can be mounted at some moment of a step that changes the signals from s0
    to s1: every conditional on the way selected its branch with the old or the new values"""
    if v[0] == 0:
        return set()
    if v[0] in (1, 4, 5):
        return {v[1]}
    if v[0] == 2:
        out = {p[1] for p in v[1]}
        for k in v[2]:
            out |= may_run(k, s0, s1)
        return out
    out = {v[1]}
    for s in (s0, s1):
        out |= may_run(v[4] if ev(v[3], s) != 0 else v[5], s0, s1)
    return out


def fresh_list(v, s, wild=False):
    """nodes of a from-scratch render of an extended view; with wild, an async leaf is ["?"]"""
    if v[0] == 4:
        return [["?"]] if wild else [[0, ev(v[2], s) + ev(v[3], s)]]
    if v[0] == 5:
        lists = v[3]
        items = lists[s[v[2]] % len(lists)] if lists else []
        return [[0, i * 100 + k] for i, k in enumerate(items)]
    if v[0] == 2:
        p = [-1, -1, 0, -1]
        for k, _l, e in v[1]:
            x = ev(e, s)
            p[k] = (1 if x != 0 else 0) if k == 2 else x
        return [[1, p, [n for k in v[2] for n in fresh_list(k, s, wild)]]]
    if v[0] == 3:
        return fresh_list(v[4] if ev(v[3], s) != 0 else v[5], s, wild)
    return [fresh(v, s)]


def match_wild(want, got):
    """does the node list `got` equal `want` where a ["?"] stands for no node or one text node"""
    if not want:
        return not got
    w = want[0]
    if w == ["?"]:
        return match_wild(want[1:], got) or (bool(got) and got[0][0] == 0 and match_wild(want[1:], got[1:]))
    if not got:
        return False
    g = got[0]
    if w[0] != g[0]:
        return False
    if w[0] == 0:
        return w[1] == g[1] and match_wild(want[1:], got[1:])
    return w[1] == g[1] and match_wild(w[2], g[2]) and match_wild(want[1:], got[1:])


def top_level_text_labels(v):
    """labels of the text closures that are not inside a conditional (one instance for the whole run)"""
    if v[0] == 1:
        return [v[1]]
    if v[0] == 2:
        return [l for k in v[2] for l in top_level_text_labels(k)]
    return []


def cleanup_violation(view, logs):
    for l in top_level_text_labels(view):
        seq = [x for lg in logs for x in lg if x in (l, l + CLEANUP)]
        for i, x in enumerate(seq):
            if x != (l if i % 2 == 0 else l + CLEANUP):
                return ("closure %d: its on_cleanup callback did not run between two of its runs (or ran without one): %r"
                        % (l, seq[:12]))
    return None


def fresh(v, s):
    """the DOM a from-scratch render shows: (0 n) | (1 (title class on width) kids)"""
    if v[0] == 0:
        return [0, v[1]]
    if v[0] == 1:
        return [0, ev(v[2], s)]
    if v[0] == 2:
        p = [-1, -1, 0, -1]
        for k, _l, e in v[1]:
            x = ev(e, s)
            p[k] = (1 if x != 0 else 0) if k == 2 else x
        return [1, p, [fresh(k, s) for k in v[2]]]
    return fresh(v[4] if ev(v[3], s) != 0 else v[5], s)


def plain(n):
    if n[0] == 0:
        return [0, n[1]]
    if n[0] == 1:
        return [1, n[1], [plain(k) for k in n[3]]]
    return n


def chain_conds(v):
    if v[0] == 3:
        return rd(v[3]) | chain_conds(v[4]) | chain_conds(v[5])
    return set()


def untouched_violations(v, node, s, ganc, written, out):
    """nodes none of whose governing signals were written must be the same object, unmutated"""
    if v[0] == 3:
        return untouched_violations(v[4] if ev(v[3], s) != 0 else v[5], node, s, ganc | rd(v[3]), written, out)
    if v[0] == 0:
        g = ganc
    elif v[0] == 1:
        g = ganc | rd(v[2])
    else:
        g = set(ganc)
        for _k, _l, e in v[1]:
            g |= rd(e)
        for k in v[2]:
            g |= chain_conds(k)
    if not (g & written) and node[2] != 0:
        out.append("node showing %r has status %d although none of the signals %s that govern it was written (%s)"
                   % (node[1], node[2], sorted(g), sorted(written)))
    if v[0] == 2 and node[0] == 1:
        for k, kn in zip(v[2], node[3]):
            untouched_violations(k, kn, s, ganc, written, out)


def oracle_ext(item, impl):
    view, sigs, steps, _drain = item["case"]
    s = list(sigs)
    if len(impl) != len(steps) + 2:
        return "malformed observation"
    for entry in impl:
        if not (isinstance(entry, list) and len(entry) == 3 and isinstance(entry[0], list) and isinstance(entry[1], list)):
            return "malformed observation"
    for k, (lg, nodes, fresh_eq) in enumerate(impl):
        if 0 < k <= len(steps):
            for i, x in steps[k - 1][0]:
                s[i] = x
        got = [plain(n) for n in nodes]
        if k == len(impl) - 1:
            if got != fresh_list(view, s):
                return "all futures completed, executor idle: the DOM is not the render of the latest signal values"
            if fresh_eq != 1:
                return "all futures completed, executor idle: the DOM differs from a fresh mount"
        elif not match_wild(fresh_list(view, s, wild=True), got):
            return "idle point %d: outside the pending async leaves the DOM is not the render of the current signal values" % k
    return cleanup_violation(view, [e[0] for e in impl])


def oracle(item, impl):
    if isinstance(impl, str):
        return "harness error / panic: " + impl[:200]
    if item.get("kind") == "async-keyed":
        return oracle_ext(item, impl)
    if item.get("kind") == "async-model":
        return None          # judged on its async-keyed twin; this copy only feeds the model comparison
    view, sigs, steps = item["case"]
    s = list(sigs)
    if len(impl) != len(steps) + 1:
        return "malformed observation"
    for entry in impl:
        if not (isinstance(entry, list) and len(entry) == 3 and isinstance(entry[0], list)
                and isinstance(entry[1], list) and isinstance(entry[2], int)):
            return "malformed observation"
    for k, entry in enumerate(impl):
        lg, shot, fresh_eq = entry
        before = list(s)
        written = set()
        if k > 0:
            for i, x in steps[k - 1][0]:
                if i < len(s):
                    s[i] = x
                    written.add(i)
        if fresh_eq != 1:
            return "idle point %d: the DOM differs from a fresh mount with the current signal values" % k
        if plain(shot) != fresh(view, s):
            return "idle point %d: the DOM is not the render of the current signal values" % k
        if k > 0:
            bad = []
            untouched_violations(view, shot, s, set(), written, bad)
            if bad:
                return "idle point %d: %s" % (k, bad[0])
            ok = may_run(view, before, s)
            stray = [l for l in lg if l < CLEANUP and l not in ok]
            if stray:
                return "idle point %d: closure %d ran although its branch cannot be mounted during this step" % (k, stray[0])
    return cleanup_violation(view, [e[0] for e in impl])


def nontrivial(item, model):
    if item.get("kind") == "async-keyed":
        return True
    if isinstance(model, str) or item.get("kind") == "async-model":
        return False
    for k in range(1, len(model)):
        if model[k][0] and plain(model[k][1]) != plain(model[k - 1][1]):
            return True
    return False


def valid_case(item):
    c = item["case"]
    if item.get("kind") == "async-model":
        return (isinstance(c, list) and len(c) == 5 and c[4] == [1] and not has_keyed(c[0])
                and valid_case(dict(case=c[:4], kind="async-keyed")))
    if item.get("kind") == "async-keyed":
        try:
            view, sigs, steps, drain = c
            labs = labels_all(view)
            return (len(labs) == len(set(labs)) and all(0 < l < CLEANUP for l in labs) and bool(sigs)
                    and all(x >= 0 for x in sigs) and _shape_ok(view, len(sigs)) and drain in ([0], [1])
                    and all(len(st) == 3 and all(0 <= i < len(sigs) and x >= 0 for i, x in st[0])
                            and all(isinstance(k, int) and k >= 0 for k in st[1])
                            and all(isinstance(k, list) and len(k) == 2 and k[0] in labs and k[1] in (0, 1)
                                    for k in st[2]) for st in steps))
        except Exception:
            return False
    try:
        view, sigs, steps = c
        labs = labels_all(view)
        if len(labs) != len(set(labs)) or not sigs or any(x < 0 for x in sigs):
            return False
        if not _shape_ok(view, len(sigs)):
            return False
        for w, p in steps:
            if any(not (0 <= i < len(sigs)) or x < 0 for i, x in w) or any(k < 0 for k in p):
                return False
        return True
    except Exception:
        return False


def _expr_ok(e, n):
    if e[0] == 0:
        return len(e) == 2 and 0 <= e[1] < n
    if e[0] == 1:
        return len(e) == 2 and e[1] >= 0
    return e[0] == 2 and len(e) == 3 and _expr_ok(e[1], n) and _expr_ok(e[2], n)


def _shape_ok(v, n):
    if v[0] == 0:
        return len(v) == 2 and v[1] >= 0
    if v[0] == 1:
        return len(v) == 3 and _expr_ok(v[2], n)
    if v[0] == 2:
        kinds = [p[0] for p in v[1]]
        if kinds != sorted(set(kinds)) or (1 in kinds and 2 in kinds) or any(k not in (0, 1, 2, 3) for k in kinds):
            return False
        return len(v) == 3 and all(len(p) == 3 and _expr_ok(p[2], n) for p in v[1]) and all(_shape_ok(k, n) for k in v[2])
    if v[0] == 4:
        return len(v) == 4 and _expr_ok(v[2], n) and _expr_ok(v[3], n)
    if v[0] == 5:
        return (len(v) == 4 and 0 <= v[2] < n and len(v[3]) >= 1
                and all(len(set(l)) == len(l) and all(0 < k < 100 for k in l) for l in v[3]))
    return v[0] == 3 and len(v) == 6 and v[2] in (0, 1) and _expr_ok(v[3], n) and _shape_ok(v[4], n) and _shape_ok(v[5], n)


def classify(item, impl, model):
    return None


def _se(e):
    if e[0] == 0:
        return "s%d" % e[1]
    if e[0] == 1:
        return str(e[1])
    return "(%s+%s)" % (_se(e[1]), _se(e[2]))


def _sv(v):
    if v[0] == 0:
        return '"%d"' % v[1]
    if v[0] == 1:
        return "{#%d %s}" % (v[1], _se(v[2]))
    if v[0] == 2:
        names = ["title", "class", "class:on", "style:width"]
        ps = "".join(" %s={#%d %s}" % (names[k], l, _se(e)) for k, l, e in v[1])
        return "<div%s>%s</div>" % (ps, " ".join(_sv(k) for k in v[2]))
    if v[0] == 4:
        return "{#%d let a=%s; Suspend(async a+%s)}" % (v[1], _se(v[2]), _se(v[3]))
    if v[0] == 5:
        return "{#%d keyed-enumerate %r[s%d]}" % (v[1], v[3], v[2])
    return "{#%d %sif %s {%s} else {%s}}" % (v[1], "memo " if v[2] else "", _se(v[3]), _sv(v[4]), _sv(v[5]))


def describe(it):
    if it.get("kind") in ("async-keyed", "async-model"):
        view, sigs, steps, drain = it["case"][:4]
        return "mount %s with s=%r; steps %s; then complete all (%s first)" % (_sv(view), sigs, "; ".join(
            "set %s, poll order %r, complete futures %r" % (",".join("s%d=%d" % (i, x) for i, x in w), p, c)
            for w, p, c in steps), "newest" if drain[0] else "oldest")
    view, sigs, steps = it["case"]
    return "mount %s with s=%r; steps %s" % (_sv(view), sigs, "; ".join(
        "set %s, poll order %r" % (",".join("s%d=%d" % (i, x) for i, x in w), p) for w, p in steps))


def coverage_extra(results):
    runs = 0
    switches = 0
    for r in results:
        m = r["model"]
        if isinstance(m, str) or r["item"].get("kind") in ("async-keyed", "async-model"):
            continue
        for k in range(1, len(m)):
            runs += len(m[k][0])
    return {"closure_reruns_observed": runs}


LEVEL_TEXT = ("Coq proofs, for all reactive view programs of the grammar (dynamic text, dynamic attribute / class / class "
              "toggle / style, Either/Show conditionals with nested dynamic children), all histories of signal writes and "
              "all executor polling orders, that whenever no task is ready the DOM is the from-scratch render of the current "
              "signal values, that a step changes only nodes governed by the effect it polls, and that effects of a "
              "disposed branch never run again — about an executable Gallina model of RenderEffect-driven build/rebuild "
              "with node ids and mutation counters; tied to /repo every run by executing that model (extracted) and the "
              "real tachys/reactive_graph code on the same generated programs, histories and schedules, comparing closure "
              "run logs and the DOM with per-node identity/mutation status at every idle point, plus a fresh-mount oracle.")
LEVEL_NOTE = ("Trusted: Coq kernel, extraction + OCaml driver, the Rust harness and its executor, the native DOM hook; "
              "modelled not verified: signal->effect notification and memo change-detection (properties C02/C09), Owner "
              "cleanup. Suspense, ErrorBoundary and For at leptos level are neither modelled nor driven by this check "
              "(partial). No axioms.")
TECHNIQUE = ("Coq proof (invariant over all event sequences: every un-notified live effect's cache is current) + "
             "differential correspondence of the extracted model with the Rust code")
